/*
Copyright 2019 Jim Zhang (jim.zoumo@gmail.com)

Licensed under the Apache License, Version 2.0 (the "License");
you may not use this file except in compliance with the License.
You may obtain a copy of the License at

    http://www.apache.org/licenses/LICENSE-2.0

Unless required by applicable law or agreed to in writing, software
distributed under the License is distributed on an "AS IS" BASIS,
WITHOUT WARRANTIES OR CONDITIONS OF ANY KIND, either express or implied.
See the License for the specific language governing permissions and
limitations under the License.
*/

package goset

import "sort"

type strings map[string]Empty

func newStrings(elems ...string) strings {
	s := make(strings)
	for _, elem := range elems {
		s.Add(elem)
	}
	return s
}

func (s strings) Len() int {
	return len(s)
}

func (s strings) Add(items ...interface{}) {
	for _, item := range items {
		s[item.(string)] = Empty{}
	}
}

func (s strings) Remove(items ...interface{}) {
	for _, item := range items {
		delete(s, item.(string))
	}
}

func (s strings) Contains(item interface{}) bool {
	_, ok := s[item.(string)]
	return ok
}

func (s strings) Equal(b typedSet) bool {
	if s.Len() == b.Len() {
		return s.isSubsetOf(b)
	}
	return false
}

func (s strings) IsSubsetOf(b typedSet) bool {
	if s.Len() > b.Len() {
		return false
	}
	return s.isSubsetOf(b)
}

func (s strings) isSubsetOf(b typedSet) bool {
	for key := range s {
		if !b.Contains(key) {
			return false
		}
	}
	return true
}

func (s strings) Copy() typedSet {
	copy := make(strings, s.Len())
	for key := range s {
		copy[key] = Empty{}
	}
	return copy
}

func (s strings) Diff(b typedSet) typedSet {
	s2 := b.(strings)
	diff := newStrings()
	for key := range s {
		if !s2.Contains(key) {
			diff.Add(key)
		}
	}
	return diff
}

func (s strings) SymmetricDiff(b typedSet) typedSet {
	s2 := b.(strings)
	adiff := s.Diff(s2)
	bdiff := s2.Diff(s)
	return adiff.Unite(bdiff)
}

func (s strings) Unite(b typedSet) typedSet {
	s2 := b.(strings)
	union := s.Copy()
	for key := range s2 {
		union.Add(key)
	}
	return union
}

func (s strings) Intersect(b typedSet) typedSet {
	s2 := b.(strings)

	var x, y strings
	// find the smaller one
	if s.Len() <= s2.Len() {
		x = s
		y = s2
	} else {
		x = s2
		y = s
	}

	intersection := newStrings()
	for key := range x {
		if y.Contains(key) {
			intersection.Add(key)
		}
	}
	return intersection
}

// Range: verification build - iteration in sorted key order (the original iterates a Go map, whose order is
// random; a controlled execution must be replayable)
func (s strings) Range(foreach func(i int, elem interface{}) bool) {
	keys := make([]string, 0, len(s))
	for key := range s {
		keys = append(keys, key)
	}
	sort.Strings(keys)
	for i, key := range keys {
		if !foreach(i, key) {
			break
		}
	}
}

func (s strings) List() []string {
	res := make([]string, 0, len(s))
	for i := range s {
		res = append(res, i)
	}
	sort.Strings(res)
	return res
}
