// Package vsched is a cooperative, controlled scheduler for model checking real
// Go code. Goroutines registered as "threads" run one at a time; at every
// schedule point the running thread computes the set of enabled threads and a
// choice function (driven by the explorer in explore.go) decides who continues.
// Goroutines that are not registered pass through every hook untouched, so the
// same instrumented build also serves sequential (engine B/C) harnesses.
//
// The package is injected into the build as a virtual package of
// github.com/kubewharf/kubegateway (go build -overlay); it depends on the
// standard library only.
package vsched

import (
	"fmt"
	"runtime"
	"runtime/debug"
	"strings"
	"sync"
	"sync/atomic"
	"time"
)

// PointKind distinguishes thread choices from data (environment) choices.
type PointKind uint8

const (
	KindSched PointKind = iota
	KindData
)

// PointRec is one recorded choice point of an execution.
type PointRec struct {
	Kind           PointKind
	N              int   // number of alternatives
	Chosen         int   // index taken
	Enabled        []int // thread ids in canonical order (KindSched)
	RunningEnabled bool  // alternative 0 is the thread that was running (switching away is a preemption)
	Tag            string
}

type thread struct {
	s      *Sched
	id     int
	name   string
	wake   chan struct{}
	cond   func() bool // nil ⇒ enabled
	done   bool
	goid   uint64
	pass   bool // inside Passthrough: hooks ignore this thread
	parent int
}

func (t *thread) enabled() bool { return !t.done && (t.cond == nil || t.cond()) }

// Sched is the state of one controlled execution.
type Sched struct {
	threads []*thread
	cur     *thread
	prefix  []int
	Points  []PointRec
	steps   int // all schedule points, including those with one alternative
	horizon int

	finished chan struct{}
	aborted  atomic.Bool
	live     sync.WaitGroup // thread goroutines not yet returned

	Deadlock  bool
	Livelock  bool
	Diverged  string // non-empty ⇒ replay of the prefix went out of range (engine error)
	Panics    []string
	Blocked   []string // names of threads blocked at deadlock
	Log       []string // observation log written by harness via Logf (used by the determinism guard)
	StepCount int
}

var (
	active atomic.Value // *Sched
	byGoid sync.Map     // goid -> *thread
)

func goid() uint64 {
	var buf [40]byte
	n := runtime.Stack(buf[:], false)
	// "goroutine 123 [running]:"
	var id uint64
	for i := 10; i < n; i++ {
		c := buf[i]
		if c < '0' || c > '9' {
			break
		}
		id = id*10 + uint64(c-'0')
	}
	return id
}

func self() (*Sched, *thread) {
	s, _ := active.Load().(*Sched)
	if s == nil || s.aborted.Load() {
		return nil, nil
	}
	v, ok := byGoid.Load(goid())
	if !ok {
		return nil, nil
	}
	t := v.(*thread)
	if t.s != s || t.pass { // a thread left over from an aborted execution, or inside Passthrough
		return nil, nil
	}
	return s, t
}

// Active reports whether the calling goroutine is a scheduled thread.
func Active() bool { _, t := self(); return t != nil }

// ThreadID returns the id of the calling thread or -1.
func ThreadID() int {
	if _, t := self(); t != nil {
		return t.id
	}
	return -1
}

// Point is a plain schedule point.
func Point() {
	if s, t := self(); t != nil {
		s.yield(t, nil)
	}
}

// Block parks the calling thread until cond() holds (evaluated by whichever
// thread is running, always under the scheduler's mutual exclusion). For
// unregistered goroutines it returns false immediately: the caller must then
// fall back to the real primitive.
func Block(cond func() bool) bool {
	s, t := self()
	if t == nil {
		return false
	}
	s.yield(t, cond)
	return true
}

// Choose is a data choice point with n alternatives (environment answers, map
// iteration orders, ...). Outside an exploration it returns 0.
func Choose(n int, tag string) int {
	s, t := self()
	if t == nil || n <= 1 {
		return 0
	}
	c := s.choose(n)
	s.Points = append(s.Points, PointRec{Kind: KindData, N: n, Chosen: c, Tag: tag})
	return c
}

// Logf appends to the execution's observation log (only from threads).
func Logf(format string, a ...interface{}) {
	if s, t := self(); t != nil {
		s.Log = append(s.Log, fmt.Sprintf("t%d ", t.id)+fmt.Sprintf(format, a...))
	}
}

func (s *Sched) choose(n int) int {
	i := len(s.Points)
	if i < len(s.prefix) {
		c := s.prefix[i]
		if c >= n || c < 0 {
			if s.Diverged == "" {
				s.Diverged = fmt.Sprintf("choice %d at point %d out of range (n=%d)", c, i, n)
			}
			return 0
		}
		return c
	}
	return 0
}

// yield is called by the running thread t. It records the point, lets the
// choice function pick the next thread and, if that is another thread, hands
// over and parks until woken.
func (s *Sched) yield(t *thread, cond func() bool) {
	t.cond = cond
	s.steps++
	if s.steps > s.horizon {
		s.Livelock = true
		s.abort()
		runtime.Goexit()
	}
	next := s.pick(t)
	if next == nil {
		// nobody enabled: deadlock (t itself is blocked, not finished)
		s.Deadlock = true
		for _, th := range s.threads {
			if !th.done {
				s.Blocked = append(s.Blocked, th.name)
			}
		}
		s.abort()
		runtime.Goexit()
	}
	if next == t {
		t.cond = nil
		return
	}
	s.cur = next
	next.wake <- struct{}{}
	<-t.wake
	if s.aborted.Load() {
		runtime.Goexit()
	}
	t.cond = nil
}

// pick computes the enabled list in canonical order (running thread first if
// still enabled, then ascending ids) and asks the choice function.
func (s *Sched) pick(running *thread) *thread {
	var en []*thread
	runEn := running != nil && running.enabled()
	if runEn {
		en = append(en, running)
	}
	for _, th := range s.threads {
		if th != running && th.enabled() {
			en = append(en, th)
		}
	}
	if len(en) == 0 {
		return nil
	}
	if len(en) == 1 {
		return en[0]
	}
	c := s.choose(len(en))
	ids := make([]int, len(en))
	for i, th := range en {
		ids[i] = th.id
	}
	s.Points = append(s.Points, PointRec{Kind: KindSched, N: len(en), Chosen: c, Enabled: ids, RunningEnabled: runEn})
	return en[c]
}

func (s *Sched) abort() {
	if s.aborted.Swap(true) {
		return
	}
	// wake every parked thread so that it can unwind; then release the driver
	for _, th := range s.threads {
		if !th.done && th != s.cur {
			select {
			case th.wake <- struct{}{}:
			default:
			}
		}
	}
	close(s.finished)
}

func (s *Sched) threadMain(t *thread, f func()) {
	t.goid = goid()
	byGoid.Store(t.goid, t)
	defer s.live.Done()
	defer byGoid.Delete(t.goid)
	<-t.wake
	if s.aborted.Load() {
		return
	}
	defer func() {
		if r := recover(); r != nil {
			if s.aborted.Load() {
				return
			}
			s.Panics = append(s.Panics, fmt.Sprintf("thread %s: %v\n%s", t.name, r, debug.Stack()))
		}
		if s.aborted.Load() {
			return
		}
		t.done = true
		if t.id == 0 {
			// the harness body returned: remaining (daemon) threads are unwound, this is not a deadlock
			s.abort()
			return
		}
		next := s.pick(nil)
		if next != nil {
			s.cur = next
			next.wake <- struct{}{}
			return
		}
		all := true
		for _, th := range s.threads {
			if !th.done {
				all = false
				s.Blocked = append(s.Blocked, th.name)
			}
		}
		if !all {
			s.Deadlock = true
			s.abort()
			return
		}
		close(s.finished)
	}()
	f()
}

func (s *Sched) spawn(name string, f func()) *thread {
	t := &thread{s: s, id: len(s.threads), name: name, wake: make(chan struct{}, 1), parent: -1}
	if s.cur != nil {
		t.parent = s.cur.id
	}
	s.live.Add(1)
	if name == "" {
		t.name = fmt.Sprintf("t%d", t.id)
	}
	s.threads = append(s.threads, t)
	go s.threadMain(t, f)
	return t
}

// InlineGo makes instrumented `go` statements executed outside a controlled
// execution run synchronously (deterministic sequential mode for engines B/C).
var InlineGo bool

// DropGo makes instrumented `go` statements executed outside a controlled
// execution start nothing (used where the only such statement is a timer loop
// whose effect the harness triggers explicitly).
var DropGo bool

// Go starts f as a new scheduled thread when called from a thread, and as a
// plain goroutine otherwise.
func Go(f func()) { GoNamed("", f) }

// ---- free-running mode (race pass): no scheduler, real goroutines; Go registers with a wait group so that Join works
// DropGoCallers: `go` statements inside functions whose name contains one of these strings are dropped (finer than
// DropGo): e.g. the API-backed store's constructor starts its periodic flush loop, which the driver replaces by explicit
// Flush events. Without this the loop's first, immediate run races the driver unsynchronised.
var DropGoCallers []string

// DroppedGo counts the go statements dropped through DropGoCallers (rigs assert that the drop really happened).
var DroppedGo int64

func droppedCaller() bool {
	if len(DropGoCallers) == 0 {
		return false
	}
	pcs := make([]uintptr, 6)
	n := runtime.Callers(3, pcs)
	frames := runtime.CallersFrames(pcs[:n])
	for {
		fr, more := frames.Next()
		if !strings.Contains(fr.Function, "/zzverif/") {
			for _, c := range DropGoCallers {
				if strings.Contains(fr.Function, c) {
					atomic.AddInt64(&DroppedGo, 1)
					return true
				}
			}
			return false // only the function that contains the go statement counts
		}
		if !more {
			return false
		}
	}
}

var freePass int32
var freeMu sync.Mutex
var freeWG *sync.WaitGroup

// FreeRun runs body with real goroutines and waits for everything it spawned through Go/GoNamed. It exists for the
// informational `-race` pass: under the cooperative scheduler every hand-off is a happens-before edge that blinds the
// race detector, so unsynchronised accesses have to be looked for in a separate free-running execution.
func FreeRun(body func() interface{}) interface{} {
	wg := &sync.WaitGroup{}
	freeMu.Lock()
	freeWG = wg
	freeMu.Unlock()
	obs := body()
	wg.Wait()
	freeMu.Lock()
	freeWG = nil
	freeMu.Unlock()
	return obs
}

func freeGroup() *sync.WaitGroup {
	freeMu.Lock()
	defer freeMu.Unlock()
	return freeWG
}

// GoNamed is Go with a thread name for reports.
func GoNamed(name string, f func()) {
	s, t := self()
	if t == nil {
		if DropGo || droppedCaller() {
			return // the harness owns what this background task would do (e.g. a periodic flush it triggers itself)
		}
		if InlineGo {
			f() // sequential mode of engines B/C: the spawned body runs to completion at the spawn point
			return
		}
		if wg := freeGroup(); wg != nil && atomic.LoadInt32(&freePass) == 0 {
			wg.Add(1)
			go func() {
				defer wg.Done()
				defer func() { _ = recover() }() // a panic of the code under test is the scheduled runs' business
				f()
			}()
			return
		}
		go f()
		return
	}
	s.spawn(name, f)
	s.yield(t, nil) // the child may run first (costs a preemption)
}

// Join blocks the calling thread until every other thread has finished.
func Join() {
	s, t := self()
	if t == nil {
		if wg := freeGroup(); wg != nil {
			wg.Wait()
		}
		return
	}
	s.yield(t, func() bool {
		for _, th := range s.threads {
			if th != t && !th.done {
				return false
			}
		}
		return true
	})
}

// JoinChildren blocks the calling thread until every thread it started itself has finished. Threads
// started by those threads (background tasks of the code under test, e.g. a goroutine that waits for a
// context to end) are treated as daemons: they do not hold up JoinChildren, and they are unwound when
// the main thread returns.
func JoinChildren() {
	s, t := self()
	if t == nil {
		if wg := freeGroup(); wg != nil {
			wg.Wait()
		}
		return
	}
	s.yield(t, func() bool {
		for _, th := range s.threads {
			if th != t && th.parent == t.id && !th.done {
				return false
			}
		}
		return true
	})
}

// Exec is the outcome of one controlled execution.
type Exec struct {
	Choices  []int
	Points   []PointRec
	Deadlock bool
	Livelock bool
	Diverged string
	Panics   []string
	Blocked  []string
	Log      []string
	Steps    int
	Obs      interface{}
}

var runMu sync.Mutex

// RunOnce executes body as thread 0 under the scheduler, replaying prefix and
// taking alternative 0 afterwards.
func RunOnce(prefix []int, horizon int, body func() interface{}) *Exec {
	runMu.Lock()
	defer runMu.Unlock()
	if horizon <= 0 {
		horizon = 20000
	}
	s := &Sched{prefix: prefix, horizon: horizon, finished: make(chan struct{})}
	var obs interface{}
	active.Store(s)
	t0 := s.spawn("main", func() { obs = body() })
	s.cur = t0
	t0.wake <- struct{}{}
	<-s.finished
	// let every thread goroutine unwind (bounded: a thread stuck on a real lock of an aborted execution is leaked)
	unwound := make(chan struct{})
	go func() { s.live.Wait(); close(unwound) }()
	select {
	case <-unwound:
	case <-time.After(2 * time.Second):
	}
	active.Store((*Sched)(nil))
	x := &Exec{Points: s.Points, Deadlock: s.Deadlock, Livelock: s.Livelock, Diverged: s.Diverged,
		Panics: s.Panics, Blocked: s.Blocked, Log: s.Log, Steps: s.steps, Obs: obs}
	x.Choices = make([]int, len(s.Points))
	for i, p := range s.Points {
		x.Choices[i] = p.Chosen
	}
	if len(prefix) > len(s.Points) && x.Diverged == "" {
		x.Diverged = fmt.Sprintf("prefix has %d choices but the execution had only %d points", len(prefix), len(s.Points))
	}
	return x
}

// Passthrough runs f on the calling thread with every hook disabled: shims are
// the real primitives, `go` statements start plain goroutines and no schedule
// point is taken. Harnesses use it for set-up and tear-down of heavy objects
// (only while no other thread can touch them).
func Passthrough(f func()) {
	_, t := self()
	if t == nil {
		if freeGroup() != nil {
			// free-running mode: background goroutines started by set-up / tear-down code (probe loops ...) are not
			// part of what Join waits for
			atomic.AddInt32(&freePass, 1)
			defer atomic.AddInt32(&freePass, -1)
		}
		f()
		return
	}
	t.pass = true
	defer func() { t.pass = false }()
	f()
}
