package vsched

import (
	"reflect"
	"unsafe"
)

// Channel support: instrumented code calls WaitRecv / WaitSend / WaitSelect
// immediately before a channel operation that may block. Under the scheduler
// the thread is disabled until the operation can proceed (a buffered element
// or a close for a receive, free buffer space for a send), so a wait is a
// modelled block, never a spin, and "nobody enabled" is still a deadlock.
// Because only one thread runs at a time, the real operation that follows
// cannot block. Rendezvous on unbuffered channels and timer channels are not
// modelled (see DESIGN.md): a thread waiting only for those shows up as a
// deadlock / hang of the execution.

// hchanHead mirrors the first fields of runtime.hchan (go1.23).
type hchanHead struct {
	qcount   uint
	dataqsiz uint
	buf      unsafe.Pointer
	elemsize uint16
	closed   uint32
}

func chanState(ch interface{}) (length, capacity int, closed, isNil bool) {
	v := reflect.ValueOf(ch)
	if !v.IsValid() || v.Kind() != reflect.Chan || v.IsNil() {
		return 0, 0, false, true
	}
	h := (*hchanHead)(unsafe.Pointer(v.Pointer()))
	return v.Len(), v.Cap(), h.closed != 0, false
}

func recvReady(ch interface{}) bool {
	l, _, closed, isNil := chanState(ch)
	return !isNil && (l > 0 || closed)
}

func sendReady(ch interface{}) bool {
	l, c, closed, isNil := chanState(ch)
	if isNil {
		return false
	}
	return closed || l < c // a send on a closed channel panics, as it would without us
}

// WaitRecv blocks the calling thread until a receive on ch can proceed.
func WaitRecv(ch interface{}) {
	if s, t := self(); t != nil {
		s.yield(t, func() bool { return recvReady(ch) })
	}
}

// WaitSend blocks the calling thread until a send on ch can proceed.
func WaitSend(ch interface{}) {
	if s, t := self(); t != nil {
		if _, c, _, isNil := chanState(ch); !isNil && c == 0 {
			return // unbuffered rendezvous is not modelled: let the real operation run
		}
		s.yield(t, func() bool { return sendReady(ch) })
	}
}

// WaitSelect blocks until one of the select's communication cases can proceed.
func WaitSelect(recvs []interface{}, sends []interface{}) {
	if s, t := self(); t != nil {
		s.yield(t, func() bool {
			for _, c := range recvs {
				if recvReady(c) {
					return true
				}
			}
			for _, c := range sends {
				if sendReady(c) {
					return true
				}
			}
			return false
		})
	}
}
