package vsched

import (
	"fmt"
	"reflect"
	"time"
)

// Options bound one exploration.
type Options struct {
	Bound    int       // maximum number of preemptions per execution
	Horizon  int       // schedule points per execution before it is called a livelock
	MaxExecs int64     // 0 = unlimited
	Deadline time.Time // zero = none
	// Shard / NShards split the first-level subtrees over worker processes.
	Shard, NShards int
}

// Stats is what one exploration covered.
type Stats struct {
	Executions   int64
	Points       int64 // choice points with more than one alternative, summed over executions
	Steps        int64 // all schedule points
	MaxDepth     int
	Deadlocks    int64
	Livelocks    int64
	Capped       bool // MaxExecs or Deadline hit: not exhaustive for this bound
	Bound        int
	EngineErrors []string
}

// Violation is returned by Explore for the first failing execution.
type Violation struct {
	Choices []int
	Err     string
	Exec    *Exec
}

func cost(p PointRec, alt int) int {
	if p.Kind == KindSched && p.RunningEnabled && alt != 0 {
		return 1
	}
	return 0
}

// Explore walks every execution of body with at most opt.Bound preemptions
// (data choices are free and fully enumerated). check is evaluated on every
// complete execution; a non-nil error is re-checked for determinism by
// replaying the same choices, and then returned as a Violation. With
// stopAtFirst false the search continues and collects up to 20 violations.
func Explore(opt Options, body func() interface{}, check func(x *Exec) error, stopAtFirst bool) (Stats, []Violation) {
	st := Stats{Bound: opt.Bound}
	var viols []Violation
	// an item is the prefix base[:n]+[alt] (materialised only when it is run: siblings share base)
	type item struct {
		base   []int
		n, alt int
		used   int // preemptions used by the prefix
		root   bool
	}
	stack := []item{{root: true}}
	first := true
	for len(stack) > 0 {
		if (opt.MaxExecs > 0 && st.Executions >= opt.MaxExecs) || (!opt.Deadline.IsZero() && time.Now().After(opt.Deadline)) {
			st.Capped = true
			break
		}
		it := stack[len(stack)-1]
		stack = stack[:len(stack)-1]
		var prefix []int
		if !it.root {
			prefix = make([]int, it.n+1)
			copy(prefix, it.base[:it.n])
			prefix[it.n] = it.alt
		}
		x := RunOnce(prefix, opt.Horizon, body)
		if x.Diverged != "" {
			st.EngineErrors = append(st.EngineErrors, fmt.Sprintf("replay divergence at prefix %v: %s", prefix, x.Diverged))
			if len(st.EngineErrors) > 5 {
				break
			}
			continue
		}
		// children: deviations after the prefix
		var kids []item
		used := it.used
		for i := len(prefix); i < len(x.Points); i++ {
			p := x.Points[i]
			for alt := 1; alt < p.N; alt++ {
				c := used + cost(p, alt)
				if c > opt.Bound {
					continue
				}
				kids = append(kids, item{base: x.Choices, n: i, alt: alt, used: c})
			}
			used += cost(p, p.Chosen) // always 0: default choice after the prefix
		}
		runThis := true
		if first {
			first = false
			if opt.NShards > 1 {
				// the root execution and the level-1 subtrees are dealt round-robin to the shards
				var mine []item
				for k, kid := range kids {
					if (k+1)%opt.NShards == opt.Shard {
						mine = append(mine, kid)
					}
				}
				kids = mine
				runThis = opt.Shard == 0
			}
		}
		// push in reverse so that the shallowest deviation is explored first
		for k := len(kids) - 1; k >= 0; k-- {
			stack = append(stack, kids[k])
		}
		if !runThis {
			continue
		}
		st.Executions++
		st.Points += int64(len(x.Points))
		st.Steps += int64(x.Steps)
		if len(x.Points) > st.MaxDepth {
			st.MaxDepth = len(x.Points)
		}
		if x.Deadlock {
			st.Deadlocks++
		}
		if x.Livelock {
			st.Livelocks++
		}
		if err := check(x); err != nil {
			// determinism guard: the same choices must give the same observations and the same verdict
			ok := true
			for r := 0; r < 2; r++ {
				y := RunOnce(x.Choices, opt.Horizon, body)
				e2 := check(y)
				if y.Diverged != "" || e2 == nil || e2.Error() != err.Error() || !reflect.DeepEqual(y.Log, x.Log) {
					st.EngineErrors = append(st.EngineErrors, fmt.Sprintf("non-deterministic replay of %v: first=%v again=%v diverged=%q", x.Choices, err, e2, y.Diverged))
					ok = false
					break
				}
			}
			if ok {
				viols = append(viols, Violation{Choices: x.Choices, Err: err.Error(), Exec: x})
				if stopAtFirst || len(viols) >= 20 {
					return st, viols
				}
			}
		}
	}
	return st, viols
}

// Describe renders an execution's schedule for a report.
func Describe(x *Exec) []string {
	var out []string
	for i, p := range x.Points {
		if p.Kind == KindData {
			out = append(out, fmt.Sprintf("#%d data %s -> %d/%d", i, p.Tag, p.Chosen, p.N))
		} else {
			out = append(out, fmt.Sprintf("#%d run t%d of %v (running enabled: %v)", i, p.Enabled[p.Chosen], p.Enabled, p.RunningEnabled))
		}
	}
	return out
}
