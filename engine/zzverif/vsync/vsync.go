// Package vsync mirrors the identifiers of package sync that the instrumented
// kubegateway files use. Called from a vsched thread every operation is a
// schedule point with modelled blocking; called from any other goroutine it is
// the real sync operation.
package vsync

import (
	"sync"

	"github.com/kubewharf/kubegateway/pkg/zzverif/vsched"
)

type Locker = sync.Locker

// Mutex: threads use the held flag (blocking is a disabled thread, never a
// spin) and additionally take the real mutex so that unregistered goroutines
// sharing the object stay excluded.
type Mutex struct {
	real sync.Mutex
	held bool
}

func (m *Mutex) Lock() {
	if vsched.Block(func() bool { return !m.held }) {
		m.held = true
	}
	m.real.Lock()
}

func (m *Mutex) Unlock() {
	if vsched.Active() {
		vsched.Point()
		m.held = false
	}
	m.real.Unlock()
}

// TryLock (Go 1.18): a schedule point, then the lock is taken iff the model says it is free.
func (m *Mutex) TryLock() bool {
	if vsched.Active() {
		vsched.Point()
		if m.held {
			return false
		}
		m.held = true
		m.real.Lock()
		return true
	}
	return m.real.TryLock()
}

// RWMutex is readers-xor-writer without writer preference.
type RWMutex struct {
	real    sync.RWMutex
	writer  bool
	readers int
}

func (m *RWMutex) Lock() {
	if vsched.Block(func() bool { return !m.writer && m.readers == 0 }) {
		m.writer = true
	}
	m.real.Lock()
}

func (m *RWMutex) Unlock() {
	if vsched.Active() {
		vsched.Point()
		m.writer = false
	}
	m.real.Unlock()
}

func (m *RWMutex) RLock() {
	if vsched.Block(func() bool { return !m.writer }) {
		m.readers++
	}
	m.real.RLock()
}

func (m *RWMutex) RUnlock() {
	if vsched.Active() {
		vsched.Point()
		m.readers--
	}
	m.real.RUnlock()
}

func (m *RWMutex) TryLock() bool {
	if vsched.Active() {
		vsched.Point()
		if m.writer || m.readers > 0 {
			return false
		}
		m.writer = true
		m.real.Lock()
		return true
	}
	return m.real.TryLock()
}

func (m *RWMutex) TryRLock() bool {
	if vsched.Active() {
		vsched.Point()
		if m.writer {
			return false
		}
		m.readers++
		m.real.RLock()
		return true
	}
	return m.real.TryRLock()
}

func (m *RWMutex) RLocker() sync.Locker { return (*rlocker)(m) }

type rlocker RWMutex

func (r *rlocker) Lock()   { (*RWMutex)(r).RLock() }
func (r *rlocker) Unlock() { (*RWMutex)(r).RUnlock() }

// WaitGroup
type WaitGroup struct {
	real sync.WaitGroup
	mu   sync.Mutex
	n    int
}

func (w *WaitGroup) Add(d int) {
	vsched.Point()
	w.mu.Lock()
	w.n += d
	w.mu.Unlock()
	w.real.Add(d)
}
func (w *WaitGroup) Done() { w.Add(-1) }
func (w *WaitGroup) Wait() {
	if vsched.Block(func() bool { w.mu.Lock(); defer w.mu.Unlock(); return w.n <= 0 }) {
		return
	}
	w.real.Wait()
}

// Once
type Once struct {
	mu   Mutex
	done bool
}

func (o *Once) Do(f func()) {
	o.mu.Lock()
	defer o.mu.Unlock()
	if !o.done {
		defer func() { o.done = true }()
		f()
	}
}

// Map: every operation is a schedule point; Range visits a snapshot whose
// order is an enumerated data choice when RangeOrderChoice is set.
type Map struct {
	real sync.Map
}

// RangeOrderChoice makes the iteration order of Range (over at most 4 entries)
// a data choice of the explorer. Off by default: order is then the real one.
var RangeOrderChoice bool

func (m *Map) Load(k interface{}) (interface{}, bool) { vsched.Point(); return m.real.Load(k) }
func (m *Map) Store(k, v interface{})                 { vsched.Point(); m.real.Store(k, v) }
func (m *Map) Delete(k interface{})                   { vsched.Point(); m.real.Delete(k) }
func (m *Map) LoadOrStore(k, v interface{}) (interface{}, bool) {
	vsched.Point()
	return m.real.LoadOrStore(k, v)
}
func (m *Map) LoadAndDelete(k interface{}) (interface{}, bool) {
	vsched.Point()
	return m.real.LoadAndDelete(k)
}

type kv struct{ k, v interface{} }

func (m *Map) Range(f func(k, v interface{}) bool) {
	vsched.Point()
	if !RangeOrderChoice && !vsched.Active() {
		m.real.Range(f)
		return
	}
	var items []kv
	m.real.Range(func(k, v interface{}) bool { items = append(items, kv{k, v}); return true })
	if RangeOrderChoice && len(items) > 1 && len(items) <= 4 {
		sortKV(items)
		items = permute(items, RangeChooser(fact(len(items))))
	} else if len(items) > 1 {
		// the real order comes from a Go map iteration: pin it, a controlled execution must be replayable
		sortKV(items)
	}
	for _, it := range items {
		if !f(it.k, it.v) {
			return
		}
	}
}

// RangeChooser picks the permutation index; harnesses may replace it (engine B
// enumerates it as an event parameter); the default asks the scheduler.
var RangeChooser = func(n int) int { return vsched.Choose(n, "maporder") }

func fact(n int) int {
	r := 1
	for i := 2; i <= n; i++ {
		r *= i
	}
	return r
}

func permute(items []kv, idx int) []kv {
	rest := append([]kv{}, items...)
	var out []kv
	for n := len(rest); n > 0; n-- {
		f := fact(n - 1)
		i := idx / f
		idx %= f
		out = append(out, rest[i])
		rest = append(rest[:i], rest[i+1:]...)
	}
	return out
}
