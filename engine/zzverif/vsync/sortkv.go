package vsync

import (
	"fmt"
	"sort"
)

// sortKV gives the snapshot a canonical base order (by printed key) so that a
// permutation index means the same thing in every execution.
func sortKV(items []kv) {
	sort.SliceStable(items, func(i, j int) bool { return fmt.Sprint(items[i].k) < fmt.Sprint(items[j].k) })
}
