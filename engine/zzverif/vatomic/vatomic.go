// Package vatomic mirrors sync/atomic with a schedule point before every operation.
package vatomic

import (
	"sync/atomic"
	"unsafe"

	"github.com/kubewharf/kubegateway/pkg/zzverif/vsched"
)

type Value = atomic.Value

func AddInt32(p *int32, d int32) int32     { vsched.Point(); return atomic.AddInt32(p, d) }
func AddInt64(p *int64, d int64) int64     { vsched.Point(); return atomic.AddInt64(p, d) }
func AddUint32(p *uint32, d uint32) uint32 { vsched.Point(); return atomic.AddUint32(p, d) }
func AddUint64(p *uint64, d uint64) uint64 { vsched.Point(); return atomic.AddUint64(p, d) }
func LoadInt32(p *int32) int32             { vsched.Point(); return atomic.LoadInt32(p) }
func LoadInt64(p *int64) int64             { vsched.Point(); return atomic.LoadInt64(p) }
func LoadUint32(p *uint32) uint32          { vsched.Point(); return atomic.LoadUint32(p) }
func LoadUint64(p *uint64) uint64          { vsched.Point(); return atomic.LoadUint64(p) }
func StoreInt32(p *int32, v int32)         { vsched.Point(); atomic.StoreInt32(p, v) }
func StoreInt64(p *int64, v int64)         { vsched.Point(); atomic.StoreInt64(p, v) }
func StoreUint32(p *uint32, v uint32)      { vsched.Point(); atomic.StoreUint32(p, v) }
func StoreUint64(p *uint64, v uint64)      { vsched.Point(); atomic.StoreUint64(p, v) }
func SwapInt32(p *int32, v int32) int32    { vsched.Point(); return atomic.SwapInt32(p, v) }
func SwapInt64(p *int64, v int64) int64    { vsched.Point(); return atomic.SwapInt64(p, v) }
func SwapUint32(p *uint32, v uint32) uint32 {
	vsched.Point()
	return atomic.SwapUint32(p, v)
}
func SwapUint64(p *uint64, v uint64) uint64 {
	vsched.Point()
	return atomic.SwapUint64(p, v)
}
func CompareAndSwapInt32(p *int32, o, n int32) bool {
	vsched.Point()
	return atomic.CompareAndSwapInt32(p, o, n)
}
func CompareAndSwapInt64(p *int64, o, n int64) bool {
	vsched.Point()
	return atomic.CompareAndSwapInt64(p, o, n)
}
func CompareAndSwapUint32(p *uint32, o, n uint32) bool {
	vsched.Point()
	return atomic.CompareAndSwapUint32(p, o, n)
}
func CompareAndSwapUint64(p *uint64, o, n uint64) bool {
	vsched.Point()
	return atomic.CompareAndSwapUint64(p, o, n)
}
func LoadPointer(p *unsafe.Pointer) unsafe.Pointer { vsched.Point(); return atomic.LoadPointer(p) }
func StorePointer(p *unsafe.Pointer, v unsafe.Pointer) {
	vsched.Point()
	atomic.StorePointer(p, v)
}
