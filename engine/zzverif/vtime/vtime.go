// Package vtime is the clock seam: Now/Since/Sleep read a driver-owned virtual
// clock once SetVirtual has been called, and the real clock otherwise.
package vtime

import (
	"sync"
	"time"
)

var (
	mu      sync.Mutex
	virtual bool
	now     time.Time
)

// SetVirtual installs the virtual clock at t.
func SetVirtual(t time.Time) { mu.Lock(); virtual = true; now = t; mu.Unlock() }

// SetReal returns to the real clock.
func SetReal() { mu.Lock(); virtual = false; mu.Unlock() }

// Advance moves the virtual clock forward.
func Advance(d time.Duration) { mu.Lock(); now = now.Add(d); mu.Unlock() }

func Now() time.Time {
	mu.Lock()
	defer mu.Unlock()
	if virtual {
		return now
	}
	return time.Now()
}

func Since(t time.Time) time.Duration { return Now().Sub(t) }

// Sleep advances the virtual clock instead of waiting when it is installed.
func Sleep(d time.Duration) {
	mu.Lock()
	if virtual {
		now = now.Add(d)
		mu.Unlock()
		return
	}
	mu.Unlock()
	time.Sleep(d)
}
