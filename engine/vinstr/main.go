// vinstr generates the build overlay used by every check:
//
//   - instrumented copies of selected source files (imports of sync and
//     sync/atomic redirected to the vsync / vatomic shims, time.Now/Since/Sleep
//     redirected to vtime, `go` statements turned into vsched.Go, a
//     vsched.Point() before every statement, read-modify-write statements on
//     shared l-values split into load / Point / store);
//   - the virtual packages pkg/zzverif/{vsched,vsync,vatomic,vtime};
//   - the add-only export files under /verif/exports (build tag verif);
//   - raw replacements given with -replace (used for seeded mutants).
//
// Nothing is written into the repository: the result is an overlay.json for
// `go build -overlay`.
package main

import (
	"bytes"
	"encoding/json"
	"flag"
	"fmt"
	"go/ast"
	"go/format"
	"go/parser"
	"go/token"
	"io/ioutil"
	"os"
	"path/filepath"
	"strconv"
	"strings"
)

const zzImport = "github.com/kubewharf/kubegateway/pkg/zzverif/"

type multi []string

func (m *multi) String() string     { return strings.Join(*m, ",") }
func (m *multi) Set(s string) error { *m = append(*m, s); return nil }

func main() {
	var instr, replaces multi
	repo := flag.String("repo", "/repo", "repository root")
	work := flag.String("work", "", "work directory for generated files")
	zz := flag.String("zz", "/verif/engine/zzverif", "shim source directory")
	exports := flag.String("exports", "/verif/exports", "export files directory")
	modcache := flag.String("modcache", "", "GOMODCACHE (for exports/_mod and -instr of module files)")
	noStmt := flag.Bool("nostmt", false, "only sync-operation points, no statement-level points")
	stmtFuncs := flag.String("stmtfuncs", "", "comma-separated function/method names: statement-level points only inside these (default: everywhere)")
	patched := flag.String("patched", "", "directory mirroring repo-relative paths of files that replace the repository's (mutant runs that leave the repository untouched)")
	flag.Var(&instr, "instr", "file to instrument (relative to repo, or absolute)")
	flag.Var(&replaces, "replace", "dst=src raw overlay entry (dst relative to repo or absolute)")
	flag.Parse()
	if *work == "" {
		fatal("need -work")
	}
	must(os.MkdirAll(*work, 0o755))
	overlay := map[string]string{}

	// virtual shim packages
	must(filepath.Walk(*zz, func(p string, info os.FileInfo, err error) error {
		if err != nil || info.IsDir() || !strings.HasSuffix(p, ".go") {
			return err
		}
		rel, _ := filepath.Rel(*zz, p)
		overlay[filepath.Join(*repo, "pkg/zzverif", rel)] = p
		return nil
	}))
	// export files
	if _, err := os.Stat(*exports); err == nil {
		must(filepath.Walk(*exports, func(p string, info os.FileInfo, err error) error {
			if err != nil || info.IsDir() || !strings.HasSuffix(p, ".go") {
				return err
			}
			rel, _ := filepath.Rel(*exports, p)
			if strings.HasPrefix(rel, "_mod/") {
				overlay[filepath.Join(*modcache, strings.TrimPrefix(rel, "_mod/"))] = p
			} else if strings.HasPrefix(rel, "_staging/") {
				overlay[filepath.Join(*repo, "staging/src", strings.TrimPrefix(rel, "_staging/"))] = p
			} else {
				overlay[filepath.Join(*repo, rel)] = p
			}
			return nil
		}))
	}
	// instrumented copies
	for i, f := range instr {
		src := f
		if !filepath.IsAbs(src) {
			src = filepath.Join(*repo, f)
		}
		if _, ok := overlay[src]; ok && false {
			continue
		}
		in := src
		if rel, err := filepath.Rel(*repo, src); *patched != "" && err == nil && !strings.HasPrefix(rel, "..") {
			if _, err := os.Stat(filepath.Join(*patched, rel)); err == nil {
				in = filepath.Join(*patched, rel)
			}
		}
		out := filepath.Join(*work, fmt.Sprintf("instr_%02d_%s", i, filepath.Base(src)))
		data, err := instrument(in, !*noStmt, *stmtFuncs)
		if err != nil {
			fatal("instrument %s: %v", in, err)
		}
		must(ioutil.WriteFile(out, data, 0o644))
		overlay[src] = out
	}
	for _, r := range replaces {
		kv := strings.SplitN(r, "=", 2)
		if len(kv) != 2 {
			fatal("bad -replace %q", r)
		}
		dst := kv[0]
		if !filepath.IsAbs(dst) {
			dst = filepath.Join(*repo, dst)
		}
		overlay[dst] = kv[1]
	}
	if *patched != "" {
		must(filepath.Walk(*patched, func(p string, info os.FileInfo, err error) error {
			if err != nil || info.IsDir() {
				return err
			}
			rel, _ := filepath.Rel(*patched, p)
			dst := filepath.Join(*repo, rel)
			if cur, ok := overlay[dst]; !ok || cur == dst {
				overlay[dst] = p
			} else if !strings.HasPrefix(filepath.Base(cur), "instr_") {
				fatal("patched file %s collides with an overlay entry (%s)", rel, cur)
			}
			return nil
		}))
	}
	js, _ := json.MarshalIndent(map[string]interface{}{"Replace": overlay}, "", " ")
	must(ioutil.WriteFile(filepath.Join(*work, "overlay.json"), js, 0o644))
}

func fatal(f string, a ...interface{}) {
	fmt.Fprintf(os.Stderr, "vinstr: "+f+"\n", a...)
	os.Exit(2)
}
func must(err error) {
	if err != nil {
		fatal("%v", err)
	}
}

type rewriter struct {
	timeName   string // local name of package time ("" if not imported)
	usedSched  bool
	usedTime   bool
	stmtPoints bool
	tmp        int
}

func instrument(path string, stmtPoints bool, stmtFuncs string) ([]byte, error) {
	only := map[string]bool{}
	for _, f := range strings.Split(stmtFuncs, ",") {
		if f != "" {
			only[f] = true
		}
	}
	fset := token.NewFileSet()
	f, err := parser.ParseFile(fset, path, nil, parser.ParseComments)
	if err != nil {
		return nil, err
	}
	// keep only the comments before the package clause (build constraints, licence)
	var keep []*ast.CommentGroup
	for _, cg := range f.Comments {
		if cg.End() < f.Package {
			keep = append(keep, cg)
		}
	}
	f.Comments = keep
	ast.Inspect(f, func(n ast.Node) bool {
		switch x := n.(type) {
		case *ast.FuncDecl:
			x.Doc = nil
		case *ast.GenDecl:
			x.Doc = nil
		case *ast.Field:
			x.Doc, x.Comment = nil, nil
		case *ast.ValueSpec:
			x.Doc, x.Comment = nil, nil
		case *ast.TypeSpec:
			x.Doc, x.Comment = nil, nil
		case *ast.ImportSpec:
			x.Doc, x.Comment = nil, nil
		}
		return true
	})
	rw := &rewriter{stmtPoints: stmtPoints}
	for _, im := range f.Imports {
		p, _ := strconv.Unquote(im.Path.Value)
		switch p {
		case "sync":
			im.Path.Value = strconv.Quote(zzImport + "vsync")
			if im.Name == nil {
				im.Name = ast.NewIdent("sync")
			}
		case "sync/atomic":
			im.Path.Value = strconv.Quote(zzImport + "vatomic")
			if im.Name == nil {
				im.Name = ast.NewIdent("atomic")
			}
		case "time":
			rw.timeName = "time"
			if im.Name != nil {
				rw.timeName = im.Name.Name
			}
		}
	}
	for _, d := range f.Decls {
		if fd, ok := d.(*ast.FuncDecl); ok && fd.Body != nil {
			rw.stmtPoints = stmtPoints && (len(only) == 0 || only[fd.Name.Name])
			rw.block(fd.Body)
			rw.stmtPoints = stmtPoints && len(only) == 0
		} else if gd, ok := d.(*ast.GenDecl); ok {
			// function literals in package-level var initialisers
			ast.Inspect(gd, func(n ast.Node) bool {
				if fl, ok := n.(*ast.FuncLit); ok {
					rw.block(fl.Body)
					return false
				}
				return true
			})
		}
	}
	// time.Now / Since / Sleep -> vtime
	if rw.timeName != "" {
		ast.Inspect(f, func(n ast.Node) bool {
			if se, ok := n.(*ast.SelectorExpr); ok {
				if id, ok := se.X.(*ast.Ident); ok && id.Name == rw.timeName && id.Obj == nil {
					switch se.Sel.Name {
					case "Now", "Since", "Sleep":
						id.Name = "vtime"
						rw.usedTime = true
					}
				}
			}
			return true
		})
	}
	addImport := func(name, path string) {
		spec := &ast.ImportSpec{Name: ast.NewIdent(name), Path: &ast.BasicLit{Kind: token.STRING, Value: strconv.Quote(path)}}
		gd := &ast.GenDecl{Tok: token.IMPORT, Specs: []ast.Spec{spec}}
		f.Decls = append([]ast.Decl{gd}, f.Decls...)
		f.Imports = append(f.Imports, spec)
	}
	if rw.usedSched {
		addImport("vsched", zzImport+"vsched")
	}
	if rw.usedTime {
		addImport("vtime", zzImport+"vtime")
		// the file may no longer use package time
		if !usesIdent(f, rw.timeName) {
			addBlankUse(f, rw.timeName)
		}
	}
	var buf bytes.Buffer
	if err := format.Node(&buf, fset, f); err != nil {
		return nil, err
	}
	return buf.Bytes(), nil
}

func usesIdent(f *ast.File, name string) bool {
	used := false
	ast.Inspect(f, func(n ast.Node) bool {
		if se, ok := n.(*ast.SelectorExpr); ok {
			if id, ok := se.X.(*ast.Ident); ok && id.Name == name && id.Obj == nil {
				used = true
			}
		}
		return !used
	})
	return used
}

func addBlankUse(f *ast.File, pkg string) {
	// var _ = time.Second
	spec := &ast.ValueSpec{Names: []*ast.Ident{ast.NewIdent("_")}, Values: []ast.Expr{&ast.SelectorExpr{X: ast.NewIdent(pkg), Sel: ast.NewIdent("Second")}}}
	f.Decls = append(f.Decls, &ast.GenDecl{Tok: token.VAR, Specs: []ast.Spec{spec}})
}

func (rw *rewriter) point() ast.Stmt {
	rw.usedSched = true
	return &ast.ExprStmt{X: &ast.CallExpr{Fun: &ast.SelectorExpr{X: ast.NewIdent("vsched"), Sel: ast.NewIdent("Point")}}}
}

func (rw *rewriter) block(b *ast.BlockStmt) {
	if b == nil {
		return
	}
	b.List = rw.list(b.List)
}

func (rw *rewriter) list(in []ast.Stmt) []ast.Stmt {
	var out []ast.Stmt
	for _, s := range in {
		if w := rw.chanWait(s); w != nil {
			out = append(out, w)
		}
		s = rw.stmt(s)
		if rw.stmtPoints {
			switch s.(type) {
			case *ast.DeclStmt, *ast.EmptyStmt:
			default:
				out = append(out, rw.point())
			}
		}
		out = append(out, s)
	}
	return out
}

// chanWait returns a vsched.WaitRecv/WaitSend/WaitSelect call to run before a statement whose channel
// operation may block: `<-ch`, `v := <-ch`, `v, ok = <-ch`, `ch <- v`, and `select` without default.
func (rw *rewriter) chanWait(s ast.Stmt) ast.Stmt {
	call := func(fn string, args ...ast.Expr) ast.Stmt {
		rw.usedSched = true
		return &ast.ExprStmt{X: &ast.CallExpr{Fun: &ast.SelectorExpr{X: ast.NewIdent("vsched"), Sel: ast.NewIdent(fn)}, Args: args}}
	}
	recvOf := func(e ast.Expr) ast.Expr {
		if p, ok := e.(*ast.ParenExpr); ok {
			e = p.X
		}
		if u, ok := e.(*ast.UnaryExpr); ok && u.Op == token.ARROW && pure(u.X) {
			return u.X
		}
		if u, ok := e.(*ast.UnaryExpr); ok && u.Op == token.ARROW && accessor(u.X) {
			// e.g. <-ctx.Done(), <-cluster.Context().Done(): evaluating accessor-style calls without arguments twice is harmless
			return u.X
		}
		return nil
	}
	slice := func(es []ast.Expr) ast.Expr {
		return &ast.CompositeLit{Type: &ast.ArrayType{Elt: &ast.InterfaceType{Methods: &ast.FieldList{}}}, Elts: es}
	}
	switch x := s.(type) {
	case *ast.ExprStmt:
		if ch := recvOf(x.X); ch != nil {
			return call("WaitRecv", ch)
		}
	case *ast.AssignStmt:
		if len(x.Rhs) == 1 {
			if ch := recvOf(x.Rhs[0]); ch != nil {
				return call("WaitRecv", ch)
			}
		}
	case *ast.SendStmt:
		if pure(x.Chan) {
			return call("WaitSend", x.Chan)
		}
	case *ast.SelectStmt:
		var recvs, sends []ast.Expr
		for _, c := range x.Body.List {
			cc := c.(*ast.CommClause)
			switch comm := cc.Comm.(type) {
			case nil:
				return nil // has a default case: never blocks
			case *ast.ExprStmt:
				if ch := recvOf(comm.X); ch != nil {
					recvs = append(recvs, ch)
				} else {
					return nil
				}
			case *ast.AssignStmt:
				if ch := recvOf(comm.Rhs[0]); ch != nil {
					recvs = append(recvs, ch)
				} else {
					return nil
				}
			case *ast.SendStmt:
				if !pure(comm.Chan) {
					return nil
				}
				sends = append(sends, comm.Chan)
			}
		}
		return call("WaitSelect", slice(recvs), slice(sends))
	}
	return nil
}

// exprFuncLits instruments function literals nested in an expression/statement.
func (rw *rewriter) funcLits(n ast.Node) {
	if n == nil {
		return
	}
	ast.Inspect(n, func(m ast.Node) bool {
		if fl, ok := m.(*ast.FuncLit); ok {
			rw.block(fl.Body)
			return false
		}
		return true
	})
}

func (rw *rewriter) stmt(s ast.Stmt) ast.Stmt {
	switch x := s.(type) {
	case *ast.BlockStmt:
		rw.block(x)
	case *ast.IfStmt:
		rw.funcLits(x.Init)
		rw.funcLits(x.Cond)
		rw.block(x.Body)
		if x.Else != nil {
			x.Else = rw.stmt(x.Else)
		}
	case *ast.ForStmt:
		rw.funcLits(x.Init)
		rw.funcLits(x.Cond)
		rw.funcLits(x.Post)
		rw.block(x.Body)
	case *ast.RangeStmt:
		rw.funcLits(x.X)
		rw.block(x.Body)
	case *ast.SwitchStmt:
		rw.funcLits(x.Init)
		rw.funcLits(x.Tag)
		for _, c := range x.Body.List {
			cc := c.(*ast.CaseClause)
			cc.Body = rw.list(cc.Body)
		}
	case *ast.TypeSwitchStmt:
		for _, c := range x.Body.List {
			cc := c.(*ast.CaseClause)
			cc.Body = rw.list(cc.Body)
		}
	case *ast.SelectStmt:
		for _, c := range x.Body.List {
			cc := c.(*ast.CommClause)
			cc.Body = rw.list(cc.Body)
		}
	case *ast.LabeledStmt:
		x.Stmt = rw.stmt(x.Stmt)
	case *ast.GoStmt:
		return rw.goStmt(x)
	case *ast.IncDecStmt:
		if rw.stmtPoints && sharedPure(x.X) {
			op := token.ADD
			if x.Tok == token.DEC {
				op = token.SUB
			}
			return rw.split(x.X, op, &ast.BasicLit{Kind: token.INT, Value: "1"})
		}
	case *ast.AssignStmt:
		if op, ok := opOf(x.Tok); ok && rw.stmtPoints && len(x.Lhs) == 1 && len(x.Rhs) == 1 && sharedPure(x.Lhs[0]) {
			rw.funcLits(x.Rhs[0])
			return rw.split(x.Lhs[0], op, &ast.ParenExpr{X: x.Rhs[0]})
		}
		rw.funcLits(x)
	default:
		rw.funcLits(s)
	}
	return s
}

func opOf(t token.Token) (token.Token, bool) {
	switch t {
	case token.ADD_ASSIGN:
		return token.ADD, true
	case token.SUB_ASSIGN:
		return token.SUB, true
	case token.MUL_ASSIGN:
		return token.MUL, true
	case token.QUO_ASSIGN:
		return token.QUO, true
	case token.REM_ASSIGN:
		return token.REM, true
	case token.AND_ASSIGN:
		return token.AND, true
	case token.OR_ASSIGN:
		return token.OR, true
	case token.XOR_ASSIGN:
		return token.XOR, true
	}
	return 0, false
}

// sharedPure: the l-value is not a plain local identifier and evaluating it
// twice has no side effects (identifiers, selectors, derefs, constant/ident indexes).
func sharedPure(e ast.Expr) bool {
	switch e.(type) {
	case *ast.Ident:
		return false
	}
	return pure(e)
}

// accessor: identifiers, selectors and argument-less calls chained together (x.y().z())
func accessor(e ast.Expr) bool {
	switch x := e.(type) {
	case *ast.Ident:
		return true
	case *ast.SelectorExpr:
		return accessor(x.X)
	case *ast.CallExpr:
		return len(x.Args) == 0 && accessor(x.Fun)
	case *ast.ParenExpr:
		return accessor(x.X)
	}
	return false
}

func pure(e ast.Expr) bool {
	switch x := e.(type) {
	case *ast.Ident, *ast.BasicLit:
		return true
	case *ast.SelectorExpr:
		return pure(x.X)
	case *ast.StarExpr:
		return pure(x.X)
	case *ast.ParenExpr:
		return pure(x.X)
	case *ast.IndexExpr:
		return pure(x.X) && pure(x.Index)
	}
	return false
}

// split turns `lv op= e` into { vt := lv; vsched.Point(); lv = vt op e }.
func (rw *rewriter) split(lv ast.Expr, op token.Token, e ast.Expr) ast.Stmt {
	rw.tmp++
	tmp := ast.NewIdent(fmt.Sprintf("vtmp%d", rw.tmp))
	return &ast.BlockStmt{List: []ast.Stmt{
		&ast.AssignStmt{Lhs: []ast.Expr{tmp}, Tok: token.DEFINE, Rhs: []ast.Expr{lv}},
		rw.point(),
		&ast.AssignStmt{Lhs: []ast.Expr{lv}, Tok: token.ASSIGN, Rhs: []ast.Expr{&ast.BinaryExpr{X: tmp, Op: op, Y: e}}},
	}}
}

// goStmt turns `go f(a, b)` into { vf := f; va0 := a; va1 := b; vsched.Go(func(){ vf(va0, va1) }) }.
func (rw *rewriter) goStmt(g *ast.GoStmt) ast.Stmt {
	rw.usedSched = true
	call := g.Call
	rw.funcLits(call)
	goSel := &ast.SelectorExpr{X: ast.NewIdent("vsched"), Sel: ast.NewIdent("Go")}
	if fl, ok := call.Fun.(*ast.FuncLit); ok && len(call.Args) == 0 {
		return &ast.ExprStmt{X: &ast.CallExpr{Fun: goSel, Args: []ast.Expr{fl}}}
	}
	rw.tmp++
	var pre []ast.Stmt
	fn := ast.NewIdent(fmt.Sprintf("vgo%df", rw.tmp))
	pre = append(pre, &ast.AssignStmt{Lhs: []ast.Expr{fn}, Tok: token.DEFINE, Rhs: []ast.Expr{call.Fun}})
	var args []ast.Expr
	for i, a := range call.Args {
		if _, lit := a.(*ast.BasicLit); lit {
			args = append(args, a)
			continue
		}
		if idn, ok := a.(*ast.Ident); ok && (idn.Name == "nil" || idn.Name == "true" || idn.Name == "false") {
			args = append(args, a)
			continue
		}
		id := ast.NewIdent(fmt.Sprintf("vgo%da%d", rw.tmp, i))
		pre = append(pre, &ast.AssignStmt{Lhs: []ast.Expr{id}, Tok: token.DEFINE, Rhs: []ast.Expr{a}})
		args = append(args, id)
	}
	inner := &ast.CallExpr{Fun: fn, Args: args, Ellipsis: call.Ellipsis}
	lit := &ast.FuncLit{Type: &ast.FuncType{Params: &ast.FieldList{}}, Body: &ast.BlockStmt{List: []ast.Stmt{&ast.ExprStmt{X: inner}}}}
	pre = append(pre, &ast.ExprStmt{X: &ast.CallExpr{Fun: goSel, Args: []ast.Expr{lit}}})
	return &ast.BlockStmt{List: pre}
}
