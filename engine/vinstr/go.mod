module vinstr

go 1.17
