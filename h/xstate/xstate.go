// Package xstate is engine B: explicit-state breadth-first search in which a
// state is the event history that reaches it. Live objects cannot be cloned,
// so a successor is built by replaying the history on fresh real objects and
// applying one more event. The oracle runs on every transition before
// de-duplication; canon() only decides which states are expanded further.
package xstate

import (
	"crypto/sha256"
	"fmt"
	"os"
	"strings"
	"time"

	"verifh/ev"
)

// Spec describes one system under search. Sys values are harness structs that
// hold the real objects together with the reference model.
type Spec struct {
	Name string
	// New builds a fresh system in its initial state.
	New func() interface{}
	// Events lists the events enabled in the state (deterministic order, simplest first).
	Events func(sys interface{}) []string
	// Apply performs the event on the real objects and the model and evaluates the
	// step oracle. A non-nil error ("key: description") is a violation.
	Apply func(sys interface{}, event string) error
	// Invariant is evaluated in every state reached (may be nil).
	Invariant func(sys interface{}) error
	// Canon is the canonical observable state used for de-duplication.
	Canon func(sys interface{}) string
	// Close releases the system (stops goroutines); may be nil.
	Close func(sys interface{})
}

type Stats struct {
	States, Transitions, Replays int64
	MaxDepth                     int
	Capped                       bool
}

type node struct {
	hist []string
}

// Search explores from every prefix in roots (nil = the empty history) to maxDepth events in total.
func Search(c *ev.Check, sp Spec, roots [][]string, maxDepth int) Stats {
	var st Stats
	// (canonical dumps are long; the visited set keeps 128 bits of their SHA-256 - a collision would merge two states
	// silently, at 10^7 states its probability is below 10^-24)
	seen := map[[16]byte]bool{}
	key16 := func(s string) (k [16]byte) {
		h := sha256.Sum256([]byte(s))
		copy(k[:], h[:16])
		return
	}
	var frontier []node
	if roots == nil {
		roots = [][]string{nil}
	}
	build := func(hist []string) (interface{}, error) {
		sys := sp.New()
		for i, e := range hist {
			if err := sp.Apply(sys, e); err != nil {
				return sys, fmt.Errorf("%s [at event %d of replay]", err, i)
			}
		}
		st.Replays++
		return sys, nil
	}
	closeSys := func(s interface{}) {
		if sp.Close != nil && s != nil {
			sp.Close(s)
		}
	}
	for _, r := range roots {
		sys, err := build(r)
		if err != nil {
			// the violation is reported by the search that owns the shorter prefix
			closeSys(sys)
			continue
		}
		k := key16(sp.Canon(sys))
		closeSys(sys)
		if !seen[k] {
			seen[k] = true
			st.States++
			frontier = append(frontier, node{r})
		}
	}
	for len(frontier) > 0 {
		var next []node
		for _, n := range frontier {
			if len(n.hist) >= maxDepth {
				continue
			}
			if c.Expired() {
				st.Capped = true
				c.NotExhaustive(fmt.Sprintf("%s: deadline reached at depth %d (states=%d)", sp.Name, len(n.hist), st.States))
				return finish(c, sp, st)
			}
			base, err := build(n.hist)
			if err != nil {
				closeSys(base)
				c.EngineError(fmt.Sprintf("%s: replay of an explored history failed (non-determinism): %v / %v", sp.Name, n.hist, err))
				continue
			}
			events := sp.Events(base)
			closeSys(base)
			for _, e := range events {
				sys, err := build(n.hist)
				if err != nil {
					closeSys(sys)
					c.EngineError(fmt.Sprintf("%s: replay failed: %v", sp.Name, err))
					break
				}
				st.Transitions++
				hist := append(append([]string{}, n.hist...), e)
				err = sp.Apply(sys, e)
				if err == nil && sp.Invariant != nil {
					err = sp.Invariant(sys)
				}
				if len(hist) > st.MaxDepth {
					st.MaxDepth = len(hist)
				}
				if err != nil {
					key, what := split(err.Error())
					// determinism guard: the same history must fail the same way again
					again, err2 := build(hist)
					if err2 == nil && sp.Invariant != nil {
						err2 = sp.Invariant(again)
					}
					closeSys(again)
					if err2 == nil || !strings.HasPrefix(err2.Error(), key) {
						c.EngineError(fmt.Sprintf("%s: violation %q not reproduced on replay of %v (got %v)", sp.Name, key, hist, err2))
					} else {
						c.Violation(sp.Name+"/"+key, what, map[string]interface{}{"spec": sp.Name, "history": hist})
					}
					closeSys(sys)
					continue // do not expand beyond a violating state
				}
				k := key16(sp.Canon(sys))
				closeSys(sys)
				if !seen[k] {
					seen[k] = true
					st.States++
					next = append(next, node{hist})
					if st.States <= 3 || st.States%5000 == 0 {
						c.Sample("history:"+sp.Name, hist)
					}
				}
			}
		}
		frontier = next
	}
	return finish(c, sp, st)
}

func finish(c *ev.Check, sp Spec, st Stats) Stats {
	c.Add("states", st.States)
	c.Add("transitions", st.Transitions)
	c.Add("replays", st.Replays)
	c.SetMax("max_depth", int64(st.MaxDepth))
	c.Outcome("specs", sp.Name)
	return st
}

func split(s string) (string, string) {
	if i := strings.Index(s, ": "); i > 0 {
		return s[:i], s[i+2:]
	}
	return s, s
}

// FirstLevel returns the one-event prefixes of the initial state (used to
// shard a search over worker processes: every worker owns some first events).
func FirstLevel(sp Spec) [][]string {
	sys := sp.New()
	evs := sp.Events(sys)
	if sp.Close != nil {
		sp.Close(sys)
	}
	var out [][]string
	for _, e := range evs {
		out = append(out, []string{e})
	}
	return out
}

// Tasks shards a search by first event over up to n tasks; the root state and
// the first-level transitions themselves are checked by task 0.
func Tasks(c *ev.Check, sp Spec, maxDepth, n int) []ev.Task {
	if n <= 1 {
		return []ev.Task{{Name: sp.Name, Run: func() { Search(c, sp, nil, maxDepth) }}}
	}
	var out []ev.Task
	out = append(out, ev.Task{Name: sp.Name + "/root", Run: func() { Search(c, sp, nil, 1) }})
	for i := 0; i < n; i++ {
		i := i
		out = append(out, ev.Task{Name: fmt.Sprintf("%s/shard%d", sp.Name, i), Run: func() {
			var mine [][]string
			for k, r := range FirstLevel(sp) {
				if k%n == i {
					mine = append(mine, r)
				}
			}
			if len(mine) > 0 {
				Search(c, sp, mine, maxDepth)
			}
		}})
	}
	return out
}

var _ = time.Now

// ReplayIfAsked handles `--replay file` for engine-B specs.
func ReplayIfAsked(c *ev.Check, all []Spec) {
	if c.ReplayFile() == "" {
		return
	}
	rep := c.LoadReplay()
	name, _ := rep["spec"].(string)
	if name == "" {
		return
	}
	var hist []string
	if hs, ok := rep["history"].([]interface{}); ok {
		for _, v := range hs {
			hist = append(hist, v.(string))
		}
	}
	for _, sp := range all {
		if sp.Name != name {
			continue
		}
		sys := sp.New()
		var err error
		for _, e := range hist {
			if err = sp.Apply(sys, e); err != nil {
				break
			}
		}
		if err == nil && sp.Invariant != nil {
			err = sp.Invariant(sys)
		}
		if sp.Close != nil {
			sp.Close(sys)
		}
		c.ReplayVerdict(err, hist)
	}
	fmt.Println("ENGINE-ERROR: no spec named", name)
	os.Exit(2)
}
