package main

// Wire conformance: the sequences in main.go script the limiter server (stub ClientSets, fake clientset). Here both
// ends are real and talk over loopback HTTP: two gateway instances (real clientSets + generated REST client, real
// UpstreamLimiter and reconcile round) and the limiter server's real handler chain in front of the real rateLimiter
// (global-allocate strategy; the count strategy's worker runs on timers and is exercised in real time elsewhere).
// Explicit-state search over rounds, load changes, limit edits seen by either side, and instance expiry.

import (
	"fmt"
	"regexp"
	"sort"
	"strconv"
	"strings"
	"time"

	proxyv1alpha1 "github.com/kubewharf/kubegateway/pkg/apis/proxy/v1alpha1"
	"github.com/kubewharf/kubegateway/pkg/flowcontrols/flowcontrol"
	"github.com/kubewharf/kubegateway/pkg/zzverif/vsched"
	"github.com/kubewharf/kubegateway/pkg/zzverif/vtime"

	"verifh/ev"
	"verifh/limrig"
	"verifh/wire"
	"verifh/xstate"
)

type wireGW struct {
	g    *wire.Gateway
	held []flowcontrol.FlowControl
	// requests admitted before the gateway's first round sit on the schema's LOCAL limiter, later ones on the remote one;
	// each is judged against its own limit here - that the two do not share their accounting is the recorded finding of
	// DESIGN 0.5a (acrossFlaps / acrossSteps decide it), not this rig's business
	heldLocal, heldRemote int
	synced                bool
	gMax                  int32 // the global limit this gateway's copy of the object says
	bound                 int32 // the limit its admissions are judged by: gMax, except that a LOWERED limit is judged from the next answer the gateway applies (as in the step sequences: what was granted under the old limit stays in force until then, DESIGN 0.6)
	applied               int32 // what the server had on record for it right after its last round (-1: no round yet / expired since)
}

type wireSys struct {
	typ  string
	srv  *wire.Server
	gw   [2]*wireGW
	sMax int32 // the global limit the server's copy of the object says
}

var wireSize = regexp.MustCompile(`(?:size|qps)=(\d+)`)

func (w *wireSys) schema(gMax int32) proxyv1alpha1.FlowControlSchema {
	if w.typ == "tb" {
		return tbSchema(proxyv1alpha1.GlobalAllocateLimit, gMax, 2*gMax)
	}
	return mifSchema(proxyv1alpha1.GlobalAllocateLimit, gMax)
}

func (w *wireSys) serverSees(gMax int32) {
	w.sMax = gMax
	cl := limrig.MIFCluster("c1", "s", proxyv1alpha1.GlobalAllocateLimit, localMax, gMax)
	cl.Spec.FlowControl.Schemas[0] = w.schema(gMax)
	if err := w.srv.Rig.ApplyCluster(cl); err != nil {
		panic(err)
	}
}

func (w *wireSys) gatewaySees(i int, gMax int32) {
	w.gw[i].gMax = gMax
	if gMax > w.gw[i].bound {
		w.gw[i].bound = gMax
	}
	w.gw[i].g.Lim.Sync(proxyv1alpha1.FlowControl{Schemas: []proxyv1alpha1.FlowControlSchema{w.schema(gMax)}})
}

// record returns the quota the server has on record for gateway i (-1: none).
func (w *wireSys) record(i int) int32 {
	c, err := w.srv.Rig.L.GetRateLimitCondition("c1", limrig.ConditionName("c1", w.gw[i].g.ID))
	if err != nil || c == nil {
		return -1
	}
	for _, it := range c.Spec.LimitItemConfigurations {
		if it.Name != "s" {
			continue
		}
		if it.MaxRequestsInflight != nil {
			return it.MaxRequestsInflight.Max
		}
		if it.TokenBucket != nil {
			return it.TokenBucket.QPS
		}
	}
	return -1
}

func (w *wireSys) inForce(i int) int {
	m := wireSize.FindStringSubmatch(w.gw[i].g.Lim.GetOrDefault("s").String())
	if m == nil {
		return -1
	}
	n, _ := strconv.Atoi(m[1])
	return n
}

func (w *wireSys) local() int {
	if w.typ == "tb" {
		return localQPS
	}
	return localMax
}

func specWire(c *ev.Check, typ string) xstate.Spec {
	return xstate.Spec{
		Name: "wire-allocate-" + typ,
		New: func() interface{} {
			vtime.SetReal()
			w := &wireSys{typ: typ, srv: wire.NewServer(2)}
			w.serverSees(globalMax)
			for i := range w.gw {
				w.gw[i] = &wireGW{g: wire.NewGateway(w.srv.URL, fmt.Sprintf("gw-%d", i+1), "c1"), applied: -1}
				w.gatewaySees(i, globalMax)
				w.gw[i].g.V.Sync()
				w.gw[i].g.V.Heartbeat()
			}
			return w
		},
		Events: func(si interface{}) []string {
			w := si.(*wireSys)
			var evs []string
			for i := range w.gw {
				n := fmt.Sprint(i + 1)
				evs = append(evs, "round "+n)
				if typ == "mif" {
					evs = append(evs, "fill "+n)
					if len(w.gw[i].held) > 0 {
						evs = append(evs, "drain "+n)
					}
				}
				evs = append(evs, "expire "+n)
				if w.gw[i].gMax == globalMax {
					evs = append(evs, "gateway-sees-limit "+n+" 3")
				} else {
					evs = append(evs, "gateway-sees-limit "+n+" 5")
				}
			}
			if w.sMax == globalMax {
				evs = append(evs, "server-sees-limit 3")
			} else {
				evs = append(evs, "server-sees-limit 5")
			}
			return evs
		},
		Apply: func(si interface{}, e string) error {
			w := si.(*wireSys)
			f := strings.Fields(e)
			if f[0] == "server-sees-limit" {
				n, _ := strconv.Atoi(f[1])
				w.serverSees(int32(n))
				return nil
			}
			i := int(f[1][0] - '1')
			gw := w.gw[i]
			switch f[0] {
			case "round":
				sumBefore, mine := int32(0), w.record(i)
				for k := range w.gw {
					if r := w.record(k); r > 0 {
						sumBefore += r
					}
				}
				gw.g.V.Heartbeat()
				gw.g.Round()
				got := w.record(i)
				gw.applied = got
				gw.synced = true
				gw.bound = gw.gMax // an answer was applied: the lowered limit binds from here on
				c.Outcome("wire_grants", fmt.Sprintf("%s sum-before=%d %d->%d in-flight=%d server-limit=%d gateway-limit=%d", typ, sumBefore, mine, got, len(gw.held), w.sMax, gw.gMax))
				if got < 0 {
					return fmt.Errorf("wire/report-not-recorded: gateway %s completed a reconcile round against a ready server that leads its shard, and the server has no quota on record for it", gw.g.ID)
				}
				// C07 with the real gateway as the honest reporter
				sumAfter := int32(0)
				for k := range w.gw {
					if r := w.record(k); r > 0 {
						sumAfter += r
					}
				}
				if got < 1 || got > w.sMax {
					return fmt.Errorf("wire/quota-out-of-range: the server answered gateway %s's report with quota %d (global limit %d)", gw.g.ID, got, w.sMax)
				}
				if sumBefore <= w.sMax && sumAfter > w.sMax && got != 1 {
					return fmt.Errorf("wire/over-commit: quotas on record summed to %d <= %d; after answering gateway %s's real report (quota %d -> %d) they sum to %d", sumBefore, w.sMax, gw.g.ID, mine, got, sumAfter)
				}
				if sumBefore > w.sMax && mine > 0 && got > mine {
					return fmt.Errorf("wire/grows-while-over-committed: quotas on record sum to %d > %d, yet gateway %s's quota grew %d -> %d", sumBefore, w.sMax, gw.g.ID, mine, got)
				}
				// C09: the granted quota takes effect, clamped to the gateway's own idea of the global limit
				want := int(got)
				if want > int(gw.gMax) {
					want = int(gw.gMax)
				}
				if in := w.inForce(i); in != want {
					return fmt.Errorf("wire/grant-not-in-force: the server granted gateway %s quota %d (the gateway's configured global limit is %d); after the round its limiter enforces %d", gw.g.ID, got, gw.gMax, in)
				}
			case "fill":
				for {
					fc := gw.g.Lim.GetOrDefault("s")
					if !fc.TryAcquire() {
						break
					}
					gw.held = append(gw.held, fc)
					if gw.synced {
						gw.heldRemote++
					} else {
						gw.heldLocal++
					}
					if gw.heldRemote > int(gw.bound) {
						return fmt.Errorf("wire/admits-beyond-global: gateway %s holds %d requests in flight that it admitted under server-granted quotas, its configured global limit is %d", gw.g.ID, gw.heldRemote, gw.bound)
					}
					if gw.heldLocal > w.local() {
						return fmt.Errorf("wire/admits-beyond-local-before-first-answer: gateway %s admitted %d requests before its first round, the local limit is %d", gw.g.ID, gw.heldLocal, w.local())
					}
					if len(gw.held) > 64 {
						return fmt.Errorf("wire/unlimited: gateway %s admitted 64 requests", gw.g.ID)
					}
				}
			case "drain":
				for _, h := range gw.held {
					h.Release()
				}
				gw.held = nil
				gw.heldLocal, gw.heldRemote = 0, 0
			case "expire":
				w.srv.Rig.H.SetHeartbeat(gw.g.ID, time.Now().Add(-time.Hour))
				vsched.InlineGo = true // the pass hands the deletion to a goroutine; here it runs to completion at the spawn point (its races with requests are C18's engine A harnesses)
				w.srv.Rig.H.CleanupTimeoutClient()
				vsched.InlineGo = false
				w.srv.Rig.H.CleanupUnknownCondition()
				if r := w.record(i); r >= 0 {
					return fmt.Errorf("wire/dead-instance-kept: gateway %s's last heartbeat is an hour old and both cleanup passes ran; the server still has quota %d on record for it", gw.g.ID, r)
				}
				gw.applied = -1
			case "gateway-sees-limit":
				n, _ := strconv.Atoi(f[2])
				w.gatewaySees(i, int32(n))
			}
			return nil
		},
		Invariant: func(si interface{}) error {
			w := si.(*wireSys)
			for i, gw := range w.gw {
				in := w.inForce(i)
				if in > int(gw.bound) {
					return fmt.Errorf("wire/enforces-beyond-global: gateway %s enforces %d, its configured global limit is %d", gw.g.ID, in, gw.bound)
				}
				if in < 1 {
					return fmt.Errorf("wire/no-limit-readable: gateway %s: %q", gw.g.ID, gw.g.Lim.GetOrDefault("s").String())
				}
			}
			return nil
		},
		Canon: func(si interface{}) string {
			w := si.(*wireSys)
			var parts []string
			for i, gw := range w.gw {
				parts = append(parts, fmt.Sprintf("g%d held=%d+%d gmax=%d/%d inforce=%d applied=%d record=%d", i, gw.heldLocal, gw.heldRemote, gw.gMax, gw.bound, w.inForce(i), gw.applied, w.record(i)))
			}
			sort.Strings(parts[:0])
			return fmt.Sprintf("smax=%d %s | %s", w.sMax, strings.Join(parts, " ; "), w.srv.Rig.Dump([]string{"c1"}, []string{"s"}))
		},
		Close: func(si interface{}) {
			w := si.(*wireSys)
			for _, gw := range w.gw {
				for _, h := range gw.held {
					h.Release()
				}
				gw.g.Lim.Sync(proxyv1alpha1.FlowControl{})
				gw.g.Close()
			}
			w.srv.Close()
		},
	}
}
