// C09 — the gateway never exceeds the global limit and falls back to the local
// limit on failure, whatever the limiter server answers.
// Engine C (fault sequences): every sequence up to a bound of server replies
// (any quota incl. zero / negative / larger than configured / int32 max, wrong
// type, missing item, errors, stale and rejected acquire answers) and
// readiness flips is fed to the real gateway-side UpstreamLimiter (reconcile
// rounds and SetLimit calls delivered by the driver); after every step the
// limiter is probed through the public FlowControl API.
package main

import (
	"context"
	"fmt"
	"regexp"
	"strconv"
	"strings"
	"sync"
	"time"

	metav1 "k8s.io/apimachinery/pkg/apis/meta/v1"
	"k8s.io/apimachinery/pkg/runtime"
	k8stesting "k8s.io/client-go/testing"

	proxyv1alpha1 "github.com/kubewharf/kubegateway/pkg/apis/proxy/v1alpha1"
	gatewayclientset "github.com/kubewharf/kubegateway/pkg/client/kubernetes"
	gwfake "github.com/kubewharf/kubegateway/pkg/client/kubernetes/fake"
	"github.com/kubewharf/kubegateway/pkg/flowcontrols"
	"github.com/kubewharf/kubegateway/pkg/flowcontrols/flowcontrol"
	"github.com/kubewharf/kubegateway/pkg/flowcontrols/remote"
	"github.com/kubewharf/kubegateway/pkg/zzverif/vtime"

	"github.com/kubewharf/kubegateway/pkg/zzverif/vsched"

	"verifh/ev"
	"verifh/kit"
	"verifh/xa"
	"verifh/xstate"
)

const (
	localMax, globalMax    = 2, 5
	localQPS, localBurst   = 2, 2
	globalQPS, globalBurst = 4, 8
)

// stub limiter-server client set
type stubSets struct {
	ready   bool
	noShard bool
	gw      *gwfake.Clientset
	reply   func(c *proxyv1alpha1.RateLimitCondition) (*proxyv1alpha1.RateLimitCondition, error)
	noAPI   bool // count runs: no client, so that the background acquire worker and the allocate round do nothing
	rounds  int
}

func (s *stubSets) GetAllClients() []gatewayclientset.Interface { return nil }
func (s *stubSets) ClientFor(cluster string) (gatewayclientset.Interface, error) {
	if s.noAPI || s.noShard {
		return nil, fmt.Errorf("server shard has no leader")
	}
	return s.gw, nil
}
func (s *stubSets) ShardIDFor(cluster string) (int, error) {
	if s.noShard {
		return -1, fmt.Errorf("shard count not synced")
	}
	return 0, nil
}
func (s *stubSets) IsReady(cluster string) bool { return s.ready && !s.noShard }
func (s *stubSets) ClientID() string            { return "gw-1" }

func newStub() *stubSets {
	s := &stubSets{ready: true, gw: gwfake.NewSimpleClientset()}
	s.gw.PrependReactor("update", "ratelimitconditions", func(a k8stesting.Action) (bool, runtime.Object, error) {
		ua := a.(k8stesting.UpdateAction)
		if ua.GetSubresource() != "status" {
			return false, nil, nil
		}
		s.rounds++
		c := ua.GetObject().(*proxyv1alpha1.RateLimitCondition).DeepCopy()
		if s.reply == nil {
			return true, c, nil
		}
		r, err := s.reply(c)
		if err != nil {
			return true, &proxyv1alpha1.RateLimitCondition{}, err
		}
		return true, r, nil
	})
	return s
}

// ------------------------------------------------------------------ schemas

func mifSchema(strategy proxyv1alpha1.LimitStrategy, gMax int32) proxyv1alpha1.FlowControlSchema {
	return proxyv1alpha1.FlowControlSchema{Name: "s", Strategy: strategy, FlowControlSchemaConfiguration: proxyv1alpha1.FlowControlSchemaConfiguration{
		MaxRequestsInflight:       &proxyv1alpha1.MaxRequestsInflightFlowControlSchema{Max: localMax},
		GlobalMaxRequestsInflight: &proxyv1alpha1.MaxRequestsInflightFlowControlSchema{Max: gMax}}}
}
func tbSchema(strategy proxyv1alpha1.LimitStrategy, gQPS, gBurst int32) proxyv1alpha1.FlowControlSchema {
	return proxyv1alpha1.FlowControlSchema{Name: "s", Strategy: strategy, FlowControlSchemaConfiguration: proxyv1alpha1.FlowControlSchemaConfiguration{
		TokenBucket:       &proxyv1alpha1.TokenBucketFlowControlSchema{QPS: localQPS, Burst: localBurst},
		GlobalTokenBucket: &proxyv1alpha1.TokenBucketFlowControlSchema{QPS: gQPS, Burst: gBurst}}}
}

// the configured global limit can itself be edited while answers are in force (lowered values stay >= the local ones)
const loweredMax, loweredQPS, loweredBurst = 3, 3, 6

func (w *world) syncSpec() {
	sc := mifSchema(w.strategy, int32(w.gMax))
	if w.typ == "tb" {
		sc = tbSchema(w.strategy, int32(w.gQPS), int32(w.gBurst))
	}
	w.lim.Sync(proxyv1alpha1.FlowControl{Schemas: []proxyv1alpha1.FlowControlSchema{sc}})
}

func specSteps() []step {
	return []step{
		{name: "spec: global limit lowered", spec: true, do: func(w *world) { w.gMax, w.gQPS, w.gBurst = loweredMax, loweredQPS, loweredBurst; w.syncSpec() }},
		{name: "spec: global limit restored", spec: true, do: func(w *world) { w.gMax, w.gQPS, w.gBurst = globalMax, globalQPS, globalBurst; w.syncSpec() }},
	}
}

type world struct {
	lim                flowcontrols.UpstreamLimiter
	stub               *stubSets
	cancel             context.CancelFunc
	typ                string // mif | tb
	strategy           proxyv1alpha1.LimitStrategy
	gMax, gQPS, gBurst int // the global limit currently configured
	// bookkeeping for the oracle
	lastGood   int32 // last quota delivered by a good answer while ready (allocate), -1 none
	everGood   bool
	lastFailed bool
	reqTime    int64
	// the configured global limit was lowered and the server has not been heard since: what it granted before the
	// edit may stay in force until its next answer (the property quantifies over server answers for a configuration,
	// not over the instant of a configuration edit); from the next answer that the gateway applies on, the NEW limit binds
	editPending bool
}

func newWorld(typ string, strategy proxyv1alpha1.LimitStrategy) *world {
	vtime.SetVirtual(time.Unix(1700000000, 0))
	remote.VerifSetWaitAcquireTimeout(time.Millisecond)
	ctx, cancel := context.WithCancel(context.Background())
	w := &world{stub: newStub(), cancel: cancel, typ: typ, strategy: strategy, gMax: globalMax, gQPS: globalQPS, gBurst: globalBurst, lastGood: -1, reqTime: 1000}
	if strategy == proxyv1alpha1.GlobalCountLimit {
		w.stub.noAPI = true
	}
	w.lim = flowcontrols.NewUpstreamLimiter(ctx, "c1", flowcontrol.RemoteFlowControls, w.stub)
	w.syncSpec()
	return w
}

func (w *world) close() {
	w.lim.Sync(proxyv1alpha1.FlowControl{})
	w.cancel()
	vtime.SetReal()
}

// probeMIF: how many requests are admitted concurrently right now
func (w *world) probeMIF() int {
	fc := w.lim.GetOrDefault("s")
	var held []flowcontrol.FlowControl
	for i := 0; i < globalMax+2; i++ {
		if !fc.TryAcquire() {
			break
		}
		held = append(held, fc)
	}
	for _, h := range held {
		h.Release()
	}
	return len(held)
}

// probeTB: admissions at a frozen clock (burst), then after one more second (rate). The bucket is drained by
// the probe; the next step starts after the clock moved 10 s on so that every probe sees a refilled bucket.
func (w *world) probeTB() (burst, perSecond int) {
	vtime.Advance(10 * time.Second)
	fc := w.lim.GetOrDefault("s")
	for i := 0; i < globalBurst+3; i++ {
		if fc.TryAcquire() {
			burst++
		}
	}
	vtime.Advance(time.Second)
	for i := 0; i < globalBurst+3; i++ {
		if fc.TryAcquire() {
			perSecond++
		}
	}
	return
}

// ------------------------------------------------------------------ steps

type step struct {
	name string
	do   func(w *world)
	// what the oracle may conclude after the step
	quota    int32 // good allocate answer q (valid if good)
	good     bool
	answered bool // the server answered with an item for the schema (whatever its numbers)
	failing  bool
	spec     bool // an edit of the configured global limit
	applies  bool // count strategy: an accept / reject answer whose limit the gateway applies
}

var quotas = []int32{-1, 0, 1, 2, 5, 6, 2147483647}

func allocateSteps(typ string) []step {
	var out []step
	item := func(q, b int32) proxyv1alpha1.RateLimitItemConfiguration {
		it := proxyv1alpha1.RateLimitItemConfiguration{Name: "s", Strategy: proxyv1alpha1.GlobalAllocateLimit}
		if typ == "mif" {
			it.MaxRequestsInflight = &proxyv1alpha1.MaxRequestsInflightFlowControlSchema{Max: q}
		} else {
			it.TokenBucket = &proxyv1alpha1.TokenBucketFlowControlSchema{QPS: q, Burst: b}
		}
		return it
	}
	round := func(w *world) { remote.VerifReconcileOnce(flowcontrols.VerifReconcile(w.lim)) }
	answer := func(items ...proxyv1alpha1.RateLimitItemConfiguration) func(w *world) {
		return func(w *world) {
			w.stub.reply = func(c *proxyv1alpha1.RateLimitCondition) (*proxyv1alpha1.RateLimitCondition, error) {
				c.Spec.LimitItemConfigurations = items
				return c, nil
			}
			round(w)
		}
	}
	for _, q := range quotas {
		q := q
		if typ == "mif" {
			out = append(out, step{name: fmt.Sprintf("answer quota=%d", q), do: answer(item(q, 0)), quota: q, good: true, answered: true})
		} else {
			for _, b := range []int32{q, 2 * q, 8, -1} {
				b := b
				// the rate is only comparable with the grant when the burst that came with it can carry it
				out = append(out, step{name: fmt.Sprintf("answer qps=%d burst=%d", q, b), do: answer(item(q, b)), quota: q, good: b >= q && b >= 1, answered: true})
			}
		}
	}
	other := proxyv1alpha1.RateLimitItemConfiguration{Name: "s", Strategy: proxyv1alpha1.GlobalAllocateLimit}
	if typ == "mif" {
		other.TokenBucket = &proxyv1alpha1.TokenBucketFlowControlSchema{QPS: 100, Burst: 100}
	} else {
		other.MaxRequestsInflight = &proxyv1alpha1.MaxRequestsInflightFlowControlSchema{Max: 100}
	}
	out = append(out,
		step{name: "answer item of the wrong type", do: answer(other), failing: true},
		step{name: "answer without the item", do: answer(), failing: true},
		step{name: "answer for an unknown schema", do: answer(proxyv1alpha1.RateLimitItemConfiguration{Name: "zzz", LimitItemDetail: proxyv1alpha1.LimitItemDetail{MaxRequestsInflight: &proxyv1alpha1.MaxRequestsInflightFlowControlSchema{Max: 100}}}), failing: true},
		step{name: "round fails (server error)", do: func(w *world) {
			w.stub.reply = func(*proxyv1alpha1.RateLimitCondition) (*proxyv1alpha1.RateLimitCondition, error) {
				return nil, fmt.Errorf("limiter server unavailable")
			}
			round(w)
		}, failing: true},
		step{name: "server not ready", do: func(w *world) { w.stub.ready = false }},
		step{name: "server ready", do: func(w *world) { w.stub.ready = true }},
		step{name: "shard unknown", do: func(w *world) { w.stub.noShard = true; round(w) }},
		step{name: "shard known", do: func(w *world) { w.stub.noShard = false }},
	)
	return append(out, specSteps()...)
}

func countSteps(typ string) []step {
	var out []step
	round := func(w *world) { remote.VerifReconcileOnce(flowcontrols.VerifReconcile(w.lim)) }
	setLimit := func(w *world, res *proxyv1alpha1.RateLimitAcquireResult, stale bool) {
		round(w) // creates / refreshes the count wrapper
		rw := remoteWrapper(w)
		if rw == nil {
			return
		}
		t := w.reqTime
		if !stale {
			w.reqTime += 10
			t = w.reqTime
		} else {
			t = w.reqTime - 5
		}
		var req *proxyv1alpha1.RateLimitAcquireRequest
		if typ == "tb" {
			req = &proxyv1alpha1.RateLimitAcquireRequest{FlowControl: "s", Tokens: 0}
		}
		rw.SetLimit(remote.VerifNewAcquireResult(req, res, t))
	}
	for _, acc := range []bool{true, false} {
		for _, q := range quotas {
			acc, q := acc, q
			out = append(out, step{name: fmt.Sprintf("acquire answer accept=%v limit=%d", acc, q), do: func(w *world) {
				setLimit(w, &proxyv1alpha1.RateLimitAcquireResult{FlowControl: "s", Accept: acc, Limit: q}, false)
			}, quota: q, good: acc, applies: true})
		}
	}
	for _, e := range []string{"RequestIDTooOld", "timeout", "x"} {
		e := e
		out = append(out, step{name: "acquire answer error=" + e, do: func(w *world) {
			setLimit(w, &proxyv1alpha1.RateLimitAcquireResult{FlowControl: "s", Error: e}, false)
		}, failing: e != "RequestIDTooOld"})
	}
	if typ == "mif" {
		// likewise the in-flight peak the meter has seen (it sizes the max-in-flight fallback): 7 is what it shows when
		// the local limiter's 2 and a quota of 5 were in flight together (the recorded finding of DESIGN 0.5a), or after
		// the global limit was lowered under load
		out = append(out, step{name: "the meter has seen 7 requests in flight", do: func(w *world) {
			round(w)
			if rw := remoteWrapper(w); rw != nil {
				remote.VerifSetMeasuredPeak(rw, 7)
			}
		}})
	}
	if typ == "tb" {
		// what the schema's meter has measured is an input of the error path (the fallback bucket is sized by it): the
		// meter runs on the real clock, so the harness decides the measurement. 6/s is what a stream that is held to
		// 4/s burst 8 can average over the meter's three one-second buckets ((12+4+4)/3); 12/s is one bucket's peak.
		for _, r := range []float64{6, 12} {
			r := r
			out = append(out, step{name: fmt.Sprintf("the meter has measured %v requests/s", r), do: func(w *world) {
				round(w)
				if rw := remoteWrapper(w); rw != nil {
					remote.VerifSetMeasuredRate(rw, r)
				}
			}})
		}
	}
	out = append(out,
		step{name: "stale acquire answer accept limit=5", do: func(w *world) {
			setLimit(w, &proxyv1alpha1.RateLimitAcquireResult{FlowControl: "s", Accept: true, Limit: 5}, true)
		}},
		step{name: "server not ready", do: func(w *world) { w.stub.ready = false }},
		step{name: "server ready", do: func(w *world) { w.stub.ready = true }},
	)
	return append(out, specSteps()...)
}

func remoteWrapper(w *world) remote.RemoteFlowControlWrapper {
	fcc, ok := w.lim.AllFlowControls()["s"]
	if !ok || fcc.FlowControl() == nil {
		return nil
	}
	return fcc.FlowControl()
}

// ------------------------------------------------------------------ enumeration

func run(c *ev.Check, typ string, strategy proxyv1alpha1.LimitStrategy, steps []step, idx []int, startSynced bool) {
	w := newWorld(typ, strategy)
	defer w.close()
	label := func(upTo int) string {
		var s []string
		if startSynced {
			s = append(s, "(start: quota 2 granted)")
		}
		for _, k := range idx[:upTo+1] {
			s = append(s, steps[k].name)
		}
		return fmt.Sprintf("%s/%s: %s", typ, strategy, strings.Join(s, " ; "))
	}
	if startSynced && strategy == proxyv1alpha1.GlobalAllocateLimit {
		for _, st := range steps {
			if st.good && st.quota == 2 {
				st.do(w)
				w.lastGood, w.everGood = 2, true
				break
			}
		}
	}
	for n, k := range idx {
		st := steps[k]
		if p := kit.Try(func() { st.do(w) }); p != "" {
			c.Violation(fmt.Sprintf("%s-%s/panic", typ, strategy), fmt.Sprintf("%s: the gateway-side limiter panicked: %s", label(n), first(p)), label(n))
			return
		}
		if st.good || st.answered {
			w.lastGood, w.lastFailed, w.everGood = st.quota, false, true
		}
		if st.failing {
			w.lastFailed = true
		}
		if st.spec {
			w.editPending = true
		} else if st.good || st.answered || st.applies { // (a failed round brings no answer that could be clamped)
			w.editPending = false
		}
		usable := w.stub.ready && !w.stub.noShard
		c.Add("probes", 1)
		viol := func(key, f string, a ...interface{}) {
			c.Violation(fmt.Sprintf("%s-%s/%s", typ, strategy, key), label(n)+": "+fmt.Sprintf(f, a...), map[string]interface{}{"type": typ, "strategy": string(strategy), "steps": label(n)})
		}
		var panicked string
		if typ == "mif" {
			var A int
			panicked = kit.Try(func() { A = w.probeMIF() })
			if panicked == "" {
				c.Outcome("probe_outcomes", fmt.Sprintf("%s/%s/%v/%d", typ, strategy, usable, A))
				if A > w.gMax && !w.editPending {
					viol("exceeds-global-limit", "%d requests are admitted concurrently, the global limit is %d", A, w.gMax)
				}
				if !usable && A != localMax {
					viol("no-local-fallback", "the limiter server is not usable but %d requests are admitted, the local limit is %d", A, localMax)
				}
				if usable && strategy == proxyv1alpha1.GlobalAllocateLimit && st.good && st.quota >= 1 && int(st.quota) <= w.gMax && A != int(st.quota) {
					viol("quota-not-applied", "the server granted %d while ready but %d requests are admitted", st.quota, A)
				}
				if usable && strategy == proxyv1alpha1.GlobalCountLimit && typ == "mif" && st.good {
					want := int(st.quota)
					if want < 1 {
						want = 1
					}
					if want > w.gMax {
						want = w.gMax
					}
					if A != want {
						viol("quota-not-applied", "the server accepted with limit %d while ready (in force: %d within [reserve, global]) but %d requests are admitted", st.quota, want, A)
					}
				}
				if usable && strategy == proxyv1alpha1.GlobalAllocateLimit && !w.everGood && A < localMax {
					viol("below-local-before-first-answer", "no usable answer was ever received but only %d requests are admitted (local limit %d)", A, localMax)
				}
			}
		} else {
			var b, r int
			panicked = kit.Try(func() { b, r = w.probeTB() })
			if panicked == "" {
				c.Outcome("probe_outcomes", fmt.Sprintf("%s/%s/%v/%d/%d", typ, strategy, usable, b, r))
				if b > w.gBurst && !w.editPending {
					viol("exceeds-global-burst", "%d requests admitted at a frozen clock on a refilled bucket, the global burst is %d", b, w.gBurst)
				}
				if r > w.gQPS && !w.editPending {
					viol("exceeds-global-rate", "%d requests admitted within the following second, the global rate is %d/s", r, w.gQPS)
				}
				if !usable && (b != localBurst || r != localQPS) {
					viol("no-local-fallback", "the limiter server is not usable but burst %d / rate %d are admitted, the local bucket is %d / %d", b, r, localBurst, localQPS)
				}
				if usable && strategy == proxyv1alpha1.GlobalAllocateLimit && st.good && st.quota >= 1 && int(st.quota) <= w.gQPS && r != int(st.quota) {
					viol("quota-not-applied", "the server granted %d/s while ready but %d requests per second are admitted", st.quota, r)
				}
			}
		}
		if panicked != "" {
			viol("panic", "a request panicked in the limiter: %s", first(panicked))
			return
		}
	}
	c.Add("sequences", 1)
}

func first(s string) string {
	if i := strings.Index(s, " | "); i > 0 {
		return s[:i]
	}
	return s
}

func enumerate(c *ev.Check, typ string, strategy proxyv1alpha1.LimitStrategy, L int, firstStep int, startSynced bool) {
	steps := allocateSteps(typ)
	if strategy == proxyv1alpha1.GlobalCountLimit {
		steps = countSteps(typ)
	}
	var idx []int
	var rec func()
	rec = func() {
		if len(idx) == L {
			run(c, typ, strategy, steps, idx, startSynced)
			return
		}
		if c.Expired() {
			c.NotExhaustive("deadline reached during reply-sequence enumeration")
			return
		}
		for k := range steps {
			if len(idx) == 0 && k != firstStep {
				continue
			}
			idx = append(idx, k)
			rec()
			idx = idx[:len(idx)-1]
		}
	}
	rec()
}

var _ = metav1.Now

// ------------------------------------------------------------------ engine A: the first answer arrives while requests run

// ------------------------------------------------------------------ the real acquire worker and its timers
// Everything above hands answers to the limiter by direct calls. The count strategy's own machinery - the acquire
// worker, the per-schema silence check, the periodic resync - runs on real timers, so it is exercised once in real
// time: a server that answers, then falls SILENT (its answers carry no result for the schema), then recovers. Verdicts
// wait generously (30 s) for the state the property demands; the code's own detection takes about 5 s.

func silentServer(c *ev.Check) {
	vtime.SetReal()
	defer vtime.SetReal()
	remote.VerifSetWaitAcquireTimeout(time.Millisecond)
	ctx, cancel := context.WithCancel(context.Background())
	defer cancel()
	st := newStub()
	var mu sync.Mutex
	mode := "grant" // grant | silent | error
	calls := 0
	st.gw.PrependReactor("create", "ratelimitconditions", func(a k8stesting.Action) (bool, runtime.Object, error) {
		ca, ok := a.(k8stesting.CreateAction)
		if !ok || a.GetSubresource() != "acquire" {
			return false, nil, nil
		}
		req := ca.GetObject().(*proxyv1alpha1.RateLimitAcquire).DeepCopy()
		mu.Lock()
		m := mode
		calls++
		mu.Unlock()
		switch m {
		case "silent":
			return true, req, nil // 200, but no result for any schema
		case "error":
			return true, nil, fmt.Errorf("limiter server unavailable")
		}
		for _, r := range req.Spec.Requests {
			req.Status.Results = append(req.Status.Results, proxyv1alpha1.RateLimitAcquireResult{FlowControl: r.FlowControl, Accept: true, Limit: globalMax})
		}
		return true, req, nil
	})
	// as ClusterInfo does: created local, switched to remote when the GlobalRateLimiter gate is on - that switch starts
	// the real reconcile loop
	lim := flowcontrols.NewUpstreamLimiter(ctx, "c1", "", st)
	lim.ResetLimiter(flowcontrol.RemoteFlowControls)
	lim.Sync(proxyv1alpha1.FlowControl{Schemas: []proxyv1alpha1.FlowControlSchema{mifSchema(proxyv1alpha1.GlobalCountLimit, globalMax)}})
	defer lim.Sync(proxyv1alpha1.FlowControl{})
	admitted := func() int {
		fc := lim.GetOrDefault("s")
		n := 0
		for i := 0; i < globalMax+2; i++ {
			if fc.TryAcquire() {
				n++
			}
		}
		for i := 0; i < n; i++ {
			fc.Release()
		}
		return n
	}
	// traffic keeps the worker busy, as requests would
	stop := make(chan struct{})
	defer close(stop)
	go func() {
		for {
			select {
			case <-stop:
				return
			case <-time.After(100 * time.Millisecond):
				fc := lim.GetOrDefault("s")
				if fc.TryAcquire() {
					fc.Release()
				}
			}
		}
	}()
	// the limit in force is read off the limiter's own description (size=N) - not probed: on an error the wrapper falls
	// back to max(local limit, in-flight level it has recently seen), and a probe that fills the bucket would itself
	// raise that level
	sizeRe := regexp.MustCompile(`size=(\d+)`)
	inForce := func() int {
		m := sizeRe.FindStringSubmatch(lim.GetOrDefault("s").String())
		if m == nil {
			return -1
		}
		n, _ := strconv.Atoi(m[1])
		return n
	}
	waitFor := func(want int, d time.Duration) (int, bool) {
		deadline := time.Now().Add(d)
		got := -1
		for time.Now().Before(deadline) {
			if got = inForce(); got == want {
				return got, true
			}
			time.Sleep(50 * time.Millisecond)
		}
		return got, false
	}
	_ = admitted
	c.Add("real_time_scenarios", 1)
	if got, ok := waitFor(globalMax, 30*time.Second); !ok {
		c.Violation("mif-globalCount/real-loops/quota-not-applied", fmt.Sprintf("the server grants %d through the real acquire worker, but %d requests are admitted after 30 s (local limit %d)", globalMax, got, localMax), nil)
		return
	}
	for _, quiet := range []string{"silent", "error"} {
		mu.Lock()
		mode = quiet
		mu.Unlock()
		if got, ok := waitFor(localMax, 30*time.Second); !ok {
			c.Violation("mif-globalCount/real-loops/no-local-fallback", fmt.Sprintf("the limiter server has been %s for 30 s (no usable answer for the schema), yet %d requests are admitted; the local limit is %d", map[string]string{"silent": "silent", "error": "failing"}[quiet], got, localMax), map[string]string{"server": quiet})
			return
		}
		c.Outcome("probe_outcomes", "real-loops/"+quiet+"/fallback")
		mu.Lock()
		mode = "grant"
		mu.Unlock()
		if got, ok := waitFor(globalMax, 30*time.Second); !ok {
			c.Violation("mif-globalCount/real-loops/quota-not-restored", fmt.Sprintf("the server has been answering again for 30 s (grant %d), yet %d requests are admitted", globalMax, got), map[string]string{"server": quiet})
			return
		}
		c.Outcome("probe_outcomes", "real-loops/"+quiet+"/recovered")
	}
}

// ------------------------------------------------------------------ requests in flight across a readiness flap
// The sequences above probe with nothing in flight. Requests live across replies and flaps: a request holds the
// limiter it was admitted by until it ends. "Never admits more than the configured global limit" is about everything
// that is in flight at one time, whichever limiter admitted it.

func acrossFlaps(c *ev.Check) {
	for _, strategy := range []proxyv1alpha1.LimitStrategy{proxyv1alpha1.GlobalAllocateLimit, proxyv1alpha1.GlobalCountLimit} {
		for _, dir := range []string{"local-then-remote", "remote-then-local"} {
			for _, q := range []int32{globalMax, 2} { // (values of the answer alphabet)
				w := newWorld("mif", strategy)
				steps := allocateSteps("mif")
				if strategy == proxyv1alpha1.GlobalCountLimit {
					steps = countSteps("mif")
				}
				byName := func(n string) step {
					for _, st := range steps {
						if st.name == n {
							return st
						}
					}
					panic("no step " + n)
				}
				grantName := fmt.Sprintf("answer quota=%d", q)
				if strategy == proxyv1alpha1.GlobalCountLimit {
					grantName = fmt.Sprintf("acquire answer accept=true limit=%d", q)
				}
				grant := byName(grantName)
				var held []flowcontrol.FlowControl
				hold := func() int {
					n := 0
					fc := w.lim.GetOrDefault("s")
					for i := 0; i < globalMax+2; i++ {
						if !fc.TryAcquire() {
							break
						}
						held = append(held, fc)
						n++
					}
					return n
				}
				var first, second int
				var hist string
				if dir == "local-then-remote" {
					byName("server not ready").do(w)
					first = hold() // requests admitted by the local limiter, still running
					byName("server ready").do(w)
					grant.do(w)
					second = hold()
					hist = fmt.Sprintf("server not ready; %d requests admitted and still running; server ready; server grants %d; %d more requests admitted", first, q, second)
				} else {
					grant.do(w)
					first = hold() // requests admitted under the granted quota, still running
					byName("server not ready").do(w)
					second = hold()
					hist = fmt.Sprintf("server grants %d; %d requests admitted and still running; server not ready; %d more requests admitted", q, first, second)
				}
				c.Add("across_flap_scenarios", 1)
				c.Outcome("probe_outcomes", fmt.Sprintf("across-flap/%s/%s/%d/%d+%d", strategy, dir, q, first, second))
				if first+second > globalMax {
					c.Violation(fmt.Sprintf("mif-%s/in-flight-across-flap-exceeds-global-limit/%s/grant=%d", strategy, dir, q), fmt.Sprintf("mif/%s: %s: %d requests are in flight at once, the global limit is %d (the local and the remote limiter count separately)", strategy, hist, first+second, globalMax),
						map[string]interface{}{"strategy": string(strategy), "direction": dir, "grant": q})
				}
				for _, h := range held {
					h.Release()
				}
				w.close()
			}
		}
	}
}

// acrossSteps: requests in flight across EVERY single step of the alphabet, not only readiness flaps: the server
// grants q, as many requests as are admitted keep running, one step happens (any answer, failure, readiness or shard
// change, spec edit - and, allocate strategy, an answer whose strategy field differs from the schema's), then as many
// more as are admitted: everything in flight at once stays within the global limit configured at that moment.
func acrossSteps(c *ev.Check) {
	for _, strategy := range []proxyv1alpha1.LimitStrategy{proxyv1alpha1.GlobalAllocateLimit, proxyv1alpha1.GlobalCountLimit} {
		steps := allocateSteps("mif")
		if strategy == proxyv1alpha1.GlobalCountLimit {
			steps = countSteps("mif")
		} else {
			for _, other := range []proxyv1alpha1.LimitStrategy{"", proxyv1alpha1.GlobalCountLimit} {
				other := other
				steps = append(steps, step{name: fmt.Sprintf("answer quota=5 with strategy field %q", other), do: func(w *world) {
					w.stub.reply = func(cd *proxyv1alpha1.RateLimitCondition) (*proxyv1alpha1.RateLimitCondition, error) {
						cd.Spec.LimitItemConfigurations = []proxyv1alpha1.RateLimitItemConfiguration{{Name: "s", Strategy: other,
							LimitItemDetail: proxyv1alpha1.LimitItemDetail{MaxRequestsInflight: &proxyv1alpha1.MaxRequestsInflightFlowControlSchema{Max: 5}}}}
						return cd, nil
					}
					remote.VerifReconcileOnce(flowcontrols.VerifReconcile(w.lim))
				}})
			}
		}
		steps = append(steps, specSteps()...)
		for _, q := range []int32{globalMax, 2} {
			grantName := fmt.Sprintf("answer quota=%d", q)
			if strategy == proxyv1alpha1.GlobalCountLimit {
				grantName = fmt.Sprintf("acquire answer accept=true limit=%d", q)
			}
			for _, st := range steps {
				if st.name == "server not ready" {
					continue // exactly acrossFlaps' remote-then-local scenario
				}
				w := newWorld("mif", strategy)
				for _, g := range steps {
					if g.name == grantName {
						g.do(w)
					}
				}
				var held []flowcontrol.FlowControl
				hold := func() int {
					n := 0
					for i := 0; i < globalMax+2; i++ {
						fc := w.lim.GetOrDefault("s")
						if !fc.TryAcquire() {
							break
						}
						held = append(held, fc)
						n++
					}
					return n
				}
				first := hold()
				if p := kit.Try(func() { st.do(w) }); p != "" {
					c.Violation(fmt.Sprintf("mif-%s/in-flight-across-step/panic", strategy), fmt.Sprintf("grant %d, %d in flight, then [%s]: the gateway-side limiter panicked: %s", q, first, st.name, first2(p)), nil)
				}
				second := hold()
				c.Add("across_step_scenarios", 1)
				c.Outcome("probe_outcomes", fmt.Sprintf("across-step/%s/%d/%s/%d+%d", strategy, q, st.name, first, second))
				limit := w.gMax
				if st.spec && limit < first {
					limit = first // lowered below what is already running: nothing more may be admitted
				}
				if first+second > limit {
					key := fmt.Sprintf("mif-%s/in-flight-across-step-exceeds-global-limit/%s/grant=%d", strategy, st.name, q)
					c.Violation(key, fmt.Sprintf("mif/%s: server grants %d; %d requests admitted and still running; then [%s]; %d more requests admitted: %d in flight at once, the global limit is %d", strategy, q, first, st.name, second, first+second, w.gMax),
						map[string]interface{}{"strategy": string(strategy), "step": st.name, "grant": q})
				}
				for _, h := range held {
					h.Release()
				}
				w.close()
			}
		}
	}
}

func first2(s string) string { return first(s) }

// ------------------------------------------------------------------ boundary configurations
// "every schema configuration with local <= global limits": the step sequences run on local 2 / global 5. Here the
// limits sit on their boundaries - 0/0, 0/5, 1/1, 5/5 - and the same upper bounds are read after a few telling steps.

// lowBurstTokenBucket: a token-bucket schema whose burst is SMALLER than its rate (validation allows it; the step
// sequences above use burst >= qps throughout). Global 8/s burst 4, local 2/s burst 2. Every sequence of length 3
// over all steps of the strategy; after every step the bucket in force, read off the limiter's own description,
// stays within the configured global rate and burst.
var tbInForce = regexp.MustCompile(`qps=(\d+),burst=(\d+)`)

func lowBurstTokenBucket(c *ev.Check) {
	const gq, gb = 8, 4
	for _, strategy := range []proxyv1alpha1.LimitStrategy{proxyv1alpha1.GlobalAllocateLimit, proxyv1alpha1.GlobalCountLimit} {
		steps := allocateSteps("tb")
		if strategy == proxyv1alpha1.GlobalCountLimit {
			steps = countSteps("tb")
		}
		var idx []int
		var rec func()
		rec = func() {
			if len(idx) == 3 {
				w := newWorld("tb", strategy)
				w.gQPS, w.gBurst = gq, gb
				w.syncSpec()
				var hist []string
				for _, k := range idx {
					hist = append(hist, steps[k].name)
					if p := kit.Try(func() { steps[k].do(w) }); p != "" {
						c.Violation(fmt.Sprintf("tb-%s/low-burst/panic", strategy), fmt.Sprintf("global %d/s burst %d, %v: the gateway-side limiter panicked: %s", gq, gb, hist, first(p)), nil)
						break
					}
					c.Add("low_burst_probes", 1)
					m := tbInForce.FindStringSubmatch(w.lim.GetOrDefault("s").String())
					if m == nil {
						c.EngineError("low-burst: cannot read the bucket in force from " + w.lim.GetOrDefault("s").String())
						break
					}
					q, _ := strconv.Atoi(m[1])
					b, _ := strconv.Atoi(m[2])
					c.Outcome("probe_outcomes", fmt.Sprintf("low-burst/%s/%d/%d", strategy, q, b))
					if q > gq || b > gb {
						c.Violation(fmt.Sprintf("tb-%s/low-burst/exceeds-global-bucket", strategy), fmt.Sprintf("token-bucket schema with global rate %d/s and global burst %d (local 2/2), after %v: the bucket in force is %d/s burst %d", gq, gb, hist, q, b),
							map[string]interface{}{"strategy": string(strategy), "steps": hist})
						break
					}
				}
				w.close()
				return
			}
			for k := range steps {
				if steps[k].spec {
					continue
				}
				idx = append(idx, k)
				rec()
				idx = idx[:len(idx)-1]
			}
		}
		rec()
	}
}

// directedSequences: sequences longer than the quick tier's enumeration that once showed a violation (found by the
// thorough tier) run in every tier.
func directedSequences(c *ev.Check) {
	for _, d := range []struct {
		typ      string
		strategy proxyv1alpha1.LimitStrategy
		names    []string
	}{
		{"tb", proxyv1alpha1.GlobalCountLimit, []string{"acquire answer accept=true limit=2", "acquire answer accept=true limit=1", "the meter has measured 12 requests/s", "acquire answer error=timeout"}},
		{"tb", proxyv1alpha1.GlobalCountLimit, []string{"acquire answer accept=true limit=5", "acquire answer accept=true limit=5", "acquire answer error=x", "acquire answer accept=true limit=5"}},
		{"mif", proxyv1alpha1.GlobalCountLimit, []string{"acquire answer accept=true limit=5", "acquire answer accept=true limit=5", "acquire answer error=timeout", "acquire answer accept=true limit=5"}},
	} {
		steps := countSteps(d.typ)
		var idx []int
		for _, n := range d.names {
			found := -1
			for k, st := range steps {
				if st.name == n {
					found = k
				}
			}
			if found < 0 {
				c.EngineError("directed-sequences: no step named " + n)
				return
			}
			idx = append(idx, found)
		}
		run(c, d.typ, d.strategy, steps, idx, false)
	}
}

func boundaryConfigs(c *ev.Check) {
	type cfgLG struct{ local, global int32 }
	for _, cf := range []cfgLG{{0, 0}, {0, 5}, {1, 1}, {5, 5}} {
		for _, strategy := range []proxyv1alpha1.LimitStrategy{proxyv1alpha1.GlobalAllocateLimit, proxyv1alpha1.GlobalCountLimit} {
			vtime.SetVirtual(time.Unix(1700000000, 0))
			remote.VerifSetWaitAcquireTimeout(time.Millisecond)
			ctx, cancel := context.WithCancel(context.Background())
			st := newStub()
			if strategy == proxyv1alpha1.GlobalCountLimit {
				st.noAPI = true
			}
			lim := flowcontrols.NewUpstreamLimiter(ctx, "c1", flowcontrol.RemoteFlowControls, st)
			sc := proxyv1alpha1.FlowControlSchema{Name: "s", Strategy: strategy, FlowControlSchemaConfiguration: proxyv1alpha1.FlowControlSchemaConfiguration{
				MaxRequestsInflight:       &proxyv1alpha1.MaxRequestsInflightFlowControlSchema{Max: cf.local},
				GlobalMaxRequestsInflight: &proxyv1alpha1.MaxRequestsInflightFlowControlSchema{Max: cf.global}}}
			lim.Sync(proxyv1alpha1.FlowControl{Schemas: []proxyv1alpha1.FlowControlSchema{sc}})
			w := &world{lim: lim, stub: st, cancel: cancel, typ: "mif", strategy: strategy, gMax: int(cf.global), lastGood: -1, reqTime: 1000}
			probe := func() int {
				fc := lim.GetOrDefault("s")
				n := 0
				var held []flowcontrol.FlowControl
				for i := 0; i < 9; i++ {
					if !fc.TryAcquire() {
						break
					}
					held = append(held, fc)
					n++
				}
				for _, h := range held {
					h.Release()
				}
				return n
			}
			steps := allocateSteps("mif")
			if strategy == proxyv1alpha1.GlobalCountLimit {
				steps = countSteps("mif")
			}
			var hist []string
			judge := func(usable bool) {
				c.Add("boundary_probes", 1)
				var A int
				if p := kit.Try(func() { A = probe() }); p != "" {
					c.Violation(fmt.Sprintf("mif-%s/boundary/panic", strategy), fmt.Sprintf("local %d / global %d, %v: a request panicked in the limiter: %s", cf.local, cf.global, hist, first(p)), nil)
					return
				}
				c.Outcome("probe_outcomes", fmt.Sprintf("boundary/%s/%d-%d/%v/%d", strategy, cf.local, cf.global, usable, A))
				if A > int(cf.global) {
					c.Violation(fmt.Sprintf("mif-%s/boundary/exceeds-global-limit", strategy), fmt.Sprintf("schema with local limit %d / global limit %d, after %v: %d requests are admitted concurrently", cf.local, cf.global, hist, A),
						map[string]interface{}{"strategy": string(strategy), "local": cf.local, "global": cf.global, "steps": hist})
				}
				if !usable && A != int(cf.local) {
					c.Violation(fmt.Sprintf("mif-%s/boundary/no-local-fallback", strategy), fmt.Sprintf("schema with local limit %d / global limit %d, after %v: the server is not usable but %d requests are admitted", cf.local, cf.global, hist, A),
						map[string]interface{}{"strategy": string(strategy), "local": cf.local, "global": cf.global, "steps": hist})
				}
			}
			hist = append(hist, "(start)")
			judge(true)
			for _, name := range []string{"answer quota=5", "acquire answer accept=true limit=5", "answer quota=0", "acquire answer accept=false limit=0", "acquire answer error=timeout", "round fails (server error)", "server not ready", "server ready", "answer quota=2147483647", "acquire answer accept=true limit=2147483647"} {
				for _, stp := range steps {
					if stp.name != name {
						continue
					}
					hist = append(hist, name)
					if p := kit.Try(func() { stp.do(w) }); p != "" {
						c.Violation(fmt.Sprintf("mif-%s/boundary/panic", strategy), fmt.Sprintf("local %d / global %d, %v: the gateway-side limiter panicked: %s", cf.local, cf.global, hist, first(p)), nil)
						continue
					}
					judge(st.ready && !st.noShard)
				}
			}
			lim.Sync(proxyv1alpha1.FlowControl{})
			cancel()
		}
	}
	vtime.SetReal()
}

func harnessFirstAnswer(c *ev.Check, bound int) xa.Harness {
	body := func() interface{} {
		var w *world
		vsched.Passthrough(func() { w = newWorld("mif", proxyv1alpha1.GlobalAllocateLimit) })
		admitted := 0
		vsched.GoNamed("reconcile", func() {
			w.stub.reply = func(c *proxyv1alpha1.RateLimitCondition) (*proxyv1alpha1.RateLimitCondition, error) {
				c.Spec.LimitItemConfigurations = []proxyv1alpha1.RateLimitItemConfiguration{{Name: "s", Strategy: proxyv1alpha1.GlobalAllocateLimit,
					LimitItemDetail: proxyv1alpha1.LimitItemDetail{MaxRequestsInflight: &proxyv1alpha1.MaxRequestsInflightFlowControlSchema{Max: 3}}}}
				return c, nil
			}
			remote.VerifReconcileOnce(flowcontrols.VerifReconcile(w.lim))
		})
		vsched.GoNamed("request", func() {
			var held []flowcontrol.FlowControl
			for i := 0; i < 2; i++ {
				fc := w.lim.GetOrDefault("s")
				if fc.TryAcquire() {
					held = append(held, fc)
					admitted++
				}
			}
			for _, h := range held {
				h.Release()
			}
		})
		vsched.Join()
		var after int
		after = w.probeMIF()
		vsched.Passthrough(func() { w.close() })
		return [2]int{admitted, after}
	}
	check := func(x *vsched.Exec) error {
		o := x.Obs.([2]int)
		c.Outcome("first_answer_outcomes", fmt.Sprint(o))
		if o[1] != 3 {
			return fmt.Errorf("quota-not-applied: the first answer granted 3, afterwards %d requests are admitted concurrently", o[1])
		}
		return nil
	}
	return xa.Harness{Name: "first-answer-vs-requests", Bound: bound, Shards: 1, Horizon: 30000, Body: body, Check: check}
}

func main() {
	c := ev.Start("C09", "fault_enumeration")
	c.Assume = []string{
		"the limiter server is a stub ClientSets (scripted readiness, shard knowledge and client) whose fake clientset answers the status update of a reconcile round from the script; reconcile rounds and acquire answers are delivered by the driver (add-only hooks VerifReconcileOnce, VerifNewAcquireResult); no background reconcile loop is started (constructor path NewUpstreamLimiter(..., \"remote\", ...))",
		"schemas: max-in-flight local 2 / global 5 and token bucket local 2/2 / global 4/8, strategies globalAllocate and globalCount; the token bucket runs on the virtual clock (client-go clock seam as in C06); the wait for the next acquire answer is shortened to 1 ms",
		"every prefix of a sequence is probed; a probe acquires until refused (max-in-flight) or on a refilled bucket at a frozen clock and over the next second (token bucket); what a failing but still 'ready' server leaves in force is only bounded from above (global) - the local fallback is demanded when the server is not ready or unknown",
	}
	if c.ReplayFile() != "" {
		xstate.ReplayIfAsked(c, []xstate.Spec{specWire(c, "mif"), specWire(c, "tb")})
		xa.ReplayIfAsked(c, []xa.Harness{harnessFirstAnswer(c, 0)})
	}
	L := c.Pick(3, 4)
	var tasks []ev.Task
	tasks = append(tasks, xstate.Tasks(c, specWire(c, "mif"), c.Pick(4, 5), 12)...)
	tasks = append(tasks, xstate.Tasks(c, specWire(c, "tb"), c.Pick(4, 5), 6)...)
	for _, typ := range []string{"mif", "tb"} {
		for _, strategy := range []proxyv1alpha1.LimitStrategy{proxyv1alpha1.GlobalAllocateLimit, proxyv1alpha1.GlobalCountLimit} {
			n := len(allocateSteps(typ))
			if strategy == proxyv1alpha1.GlobalCountLimit {
				n = len(countSteps(typ))
			}
			for k := 0; k < n; k++ {
				for _, synced := range []bool{false, true} {
					if synced && strategy == proxyv1alpha1.GlobalCountLimit {
						continue
					}
					typ, strategy, k, synced := typ, strategy, k, synced
					l := L
					if typ == "tb" && strategy == proxyv1alpha1.GlobalAllocateLimit {
						l = L - 1 // 36 steps: one less
						if l < 2 {
							l = 2
						}
					}
					tasks = append(tasks, ev.Task{Name: fmt.Sprintf("%s-%s-first%d-synced%v", typ, strategy, k, synced), Run: func() { enumerate(c, typ, strategy, l, k, synced) }})
				}
			}
		}
	}
	for _, b := range []int{0, 1, 2} {
		tasks = append(tasks, xa.Tasks(c, harnessFirstAnswer(c, b))...)
	}
	tasks = append(tasks, ev.Task{Name: "real-loops-silent-server", Run: func() { silentServer(c) }})
	tasks = append(tasks, ev.Task{Name: "in-flight-across-flaps", Run: func() { acrossFlaps(c) }})
	tasks = append(tasks, ev.Task{Name: "boundary-configs", Run: func() { boundaryConfigs(c) }})
	tasks = append(tasks, ev.Task{Name: "low-burst-token-bucket", Run: func() { lowBurstTokenBucket(c) }})
	tasks = append(tasks, ev.Task{Name: "in-flight-across-steps", Run: func() { acrossSteps(c) }})
	tasks = append(tasks, ev.Task{Name: "directed-sequences", Run: func() { directedSequences(c) }})
	c.RunTasks(tasks)
	c.Finish(map[string]interface{}{
		"evaluations":         c.Counter("probes") + c.Counter("schedules"),
		"distinct_nontrivial": c.DistinctCount("probe_outcomes"),
		"rule":                "every sequence of length L (each prefix probed) over the reply/environment alphabet: allocate strategy - quotas {-1,0,1,2,5,6,2^31-1} (token bucket: x 4 bursts), item of the wrong type, item missing, unknown schema, failed round, server not ready / ready, shard unknown / known, from 'never synced' and from 'quota 2 granted'; count strategy - acquire answers accept/reject x the same limits, errors RequestIDTooOld / timeout / other, a stale answer, not ready / ready. Distinct = (type, strategy, server usable, admitted counts) classes.",
		"sequence_len":        L,
	})
}
