// C16 — admission validation is total, and what it accepts the data plane can apply.
// Engine C: UpstreamCluster objects are enumerated section by section (and for
// pairs of coupled sections) around a valid base; for every object validation
// must terminate without panic; every accepted object is then applied by the
// gateway (CreateClusterInfo, re-Sync, the controller's create and update path,
// a probe on every flow-control schema) and by the limiter server (cluster
// handler, a report, an acquire); listed classes of breaking objects must be
// rejected.
package main

import (
	"context"
	"fmt"
	"strings"
	"time"

	metav1 "k8s.io/apimachinery/pkg/apis/meta/v1"
	"k8s.io/apiserver/pkg/admission"

	"github.com/kubewharf/apiserver-runtime/pkg/scheme"

	gatewayinstall "github.com/kubewharf/kubegateway/pkg/apis/install"
	proxyv1alpha1 "github.com/kubewharf/kubegateway/pkg/apis/proxy/v1alpha1"
	"github.com/kubewharf/kubegateway/pkg/apis/proxy/v1alpha1/validation"
	gwinformers "github.com/kubewharf/kubegateway/pkg/client/informers"
	gwfake "github.com/kubewharf/kubegateway/pkg/client/kubernetes/fake"
	"github.com/kubewharf/kubegateway/pkg/clusters"
	"github.com/kubewharf/kubegateway/pkg/gateway/controlplane/admission/initializer"
	upstreamclusteradmission "github.com/kubewharf/kubegateway/plugin/admission/upstreamcluster"

	"verifh/ctlrig"
	"verifh/ev"
	"verifh/kit"
	"verifh/limrig"
)

var mat, mat2 = ctlrig.NewMaterial("c16"), ctlrig.NewMaterial("c16-other")

var garbage = []byte("-----BEGIN CERTIFICATE-----\nbm90IGEgY2VydA==\n-----END CERTIFICATE-----\n")

func base() *proxyv1alpha1.UpstreamCluster {
	o := &proxyv1alpha1.UpstreamCluster{ObjectMeta: metav1.ObjectMeta{Name: "c1"}}
	o.Spec.Servers = []proxyv1alpha1.UpstreamClusterServer{{Endpoint: "https://127.0.0.1:1"}, {Endpoint: "https://127.0.0.1:2"}}
	o.Spec.ClientConfig = proxyv1alpha1.ClientConfig{Insecure: true, BearerToken: []byte("t")}
	o.Spec.FlowControl = proxyv1alpha1.FlowControl{Schemas: []proxyv1alpha1.FlowControlSchema{{Name: "s", FlowControlSchemaConfiguration: proxyv1alpha1.FlowControlSchemaConfiguration{MaxRequestsInflight: &proxyv1alpha1.MaxRequestsInflightFlowControlSchema{Max: 2}}}}}
	o.Spec.DispatchPolicies = []proxyv1alpha1.DispatchPolicy{{Strategy: proxyv1alpha1.RoundRobin, FlowControlSchemaName: "s",
		Rules: []proxyv1alpha1.DispatchPolicyRule{{Verbs: []string{"*"}, APIGroups: []string{"*"}, Resources: []string{"*"}, NonResourceURLs: []string{"*"}}}}}
	return o
}

type variant struct {
	section string
	label   string
	mut     func(o *proxyv1alpha1.UpstreamCluster)
	// mustReject: the property lists this class as one that would break the data plane
	mustReject string
}

func srv(eps ...string) []proxyv1alpha1.UpstreamClusterServer {
	var out []proxyv1alpha1.UpstreamClusterServer
	for _, e := range eps {
		out = append(out, proxyv1alpha1.UpstreamClusterServer{Endpoint: e})
	}
	return out
}

func variants(thorough bool) []variant {
	var vs []variant
	add := func(section, label, reject string, mut func(o *proxyv1alpha1.UpstreamCluster)) {
		vs = append(vs, variant{section, label, mut, reject})
	}
	// ---- name
	add("name", "empty", "", func(o *proxyv1alpha1.UpstreamCluster) { o.Name = "" })
	add("name", "upper", "", func(o *proxyv1alpha1.UpstreamCluster) { o.Name = "UPPER" })
	add("name", "254chars", "", func(o *proxyv1alpha1.UpstreamCluster) { o.Name = strings.Repeat("a", 254) })
	add("name", "dotted", "", func(o *proxyv1alpha1.UpstreamCluster) { o.Name = "a.b-c.example.com" })
	// ---- servers
	type s struct {
		label, reject string
		eps           []string
	}
	for _, x := range []s{
		{"none", "", nil}, {"http", "", []string{"http://h:1"}}, {"https", "", []string{"https://h:1"}},
		{"mixed", "mixed schemes", []string{"http://h:1", "https://h:2"}}, {"dup", "", []string{"https://h:1", "https://h:1"}},
		{"no-scheme", "unparseable endpoint URL", []string{"h:1"}}, {"scheme-only", "unparseable endpoint URL", []string{"http://"}},
		{"bad-escape", "unparseable endpoint URL", []string{"https://%zz"}}, {"space", "unparseable endpoint URL", []string{"http://a b"}},
		{"bad-ipv6", "unparseable endpoint URL", []string{"https://[::1"}}, {"with-path", "", []string{"https://h:1/prefix"}},
		{"ftp", "unparseable endpoint URL", []string{"ftp://h:1"}}, {"empty-string", "unparseable endpoint URL", []string{""}},
	} {
		x := x
		add("servers", x.label, x.reject, func(o *proxyv1alpha1.UpstreamCluster) {
			o.Spec.Servers = srv(x.eps...)
			o.Spec.DispatchPolicies[0].UpstreamSubset = nil
		})
		if len(x.eps) == 0 {
			continue
		}
		// the same lists with the `disabled` flag in play: a disabled server is still parsed, given a transport and
		// counted for the scheme by the data plane, so the flag excuses nothing
		for _, mode := range []string{"flag=false", "all disabled", "disabled after a good one", "disabled before a good one"} {
			mode := mode
			reject := x.reject
			if reject == "" && strings.Contains(mode, "good one") && strings.HasPrefix(x.eps[0], "http://") {
				reject = "mixed schemes"
			}
			add("servers", x.label+" ("+mode+")", reject, func(o *proxyv1alpha1.UpstreamCluster) {
				listed := srv(x.eps...)
				yes, no := true, false
				for i := range listed {
					if mode == "flag=false" {
						listed[i].Disabled = &no
					} else {
						listed[i].Disabled = &yes
					}
				}
				good := srv("https://good:9")
				switch mode {
				case "disabled after a good one":
					listed = append(good, listed...)
				case "disabled before a good one":
					listed = append(listed, good...)
				}
				o.Spec.Servers = listed
				o.Spec.DispatchPolicies[0].UpstreamSubset = nil
			})
		}
	}
	// ---- clientConfig (https base)
	nums := []int32{-1, 0, 1, 5}
	for _, allDisabled := range []bool{false, true} {
		for _, insecure := range []bool{true, false} {
			for _, token := range []string{"", "t"} {
				for _, kp := range []string{"none", "key-only", "cert-only", "pair", "garbage-pair", "mismatched-pair"} {
					for _, ca := range []string{"none", "ok", "garbage"} {
						qs := [][3]int32{{0, 0, 0}}
						if token == "t" && kp == "none" && ca == "none" {
							qs = nil
							for _, q := range nums {
								for _, b := range nums {
									for _, d := range nums {
										qs = append(qs, [3]int32{q, b, d})
									}
								}
							}
						}
						for _, q := range qs {
							insecure, token, kp, ca, q, allDisabled := insecure, token, kp, ca, q, allDisabled
							reject := ""
							switch {
							case kp == "garbage-pair" || kp == "mismatched-pair" || kp == "key-only" || kp == "cert-only":
								reject = "unusable client key/certificate"
							case ca == "garbage":
								reject = "unusable CA data"
							case q[0] < 0 || q[1] < 0 || q[2] < 0:
								reject = "negative client limits"
							}
							add("clientConfig", fmt.Sprintf("insecure=%v token=%q keypair=%s ca=%s qps/burst/div=%v allServersDisabled=%v", insecure, token, kp, ca, q, allDisabled), reject, func(o *proxyv1alpha1.UpstreamCluster) {
								if allDisabled {
									yes := true
									for i := range o.Spec.Servers {
										o.Spec.Servers[i].Disabled = &yes
									}
								}
								cc := proxyv1alpha1.ClientConfig{Insecure: insecure, BearerToken: []byte(token), QPS: q[0], Burst: q[1], QPSDivisor: q[2]}
								switch kp {
								case "key-only":
									cc.KeyData = mat.KeyPEM
								case "cert-only":
									cc.CertData = mat.CertPEM
								case "pair":
									cc.KeyData, cc.CertData = mat.KeyPEM, mat.CertPEM
								case "garbage-pair":
									cc.KeyData, cc.CertData = garbage, garbage
								case "mismatched-pair":
									cc.KeyData, cc.CertData = mat2.KeyPEM, mat.CertPEM
								}
								switch ca {
								case "ok":
									cc.CAData = mat.CAPEM
								case "garbage":
									cc.CAData = garbage
								}
								o.Spec.ClientConfig = cc
							})
						}
					}
				}
			}
		}
	}
	// ---- secureServing
	for _, kp := range []string{"none", "pair", "cert-only", "key-only", "garbage-pair", "mismatched-pair"} {
		for _, ca := range []string{"none", "ok", "garbage"} {
			kp, ca := kp, ca
			reject := ""
			if kp != "none" && kp != "pair" {
				reject = "unusable serving key/certificate"
			}
			if ca == "garbage" {
				reject = "unusable CA data"
			}
			add("secureServing", "keypair="+kp+" clientCA="+ca, reject, func(o *proxyv1alpha1.UpstreamCluster) {
				ss := proxyv1alpha1.SecureServing{}
				switch kp {
				case "pair":
					ss.KeyData, ss.CertData = mat.KeyPEM, mat.CertPEM
				case "cert-only":
					ss.CertData = mat.CertPEM
				case "key-only":
					ss.KeyData = mat.KeyPEM
				case "garbage-pair":
					ss.KeyData, ss.CertData = garbage, garbage
				case "mismatched-pair":
					ss.KeyData, ss.CertData = mat2.KeyPEM, mat.CertPEM
				}
				switch ca {
				case "ok":
					ss.ClientCAData = mat.CAPEM
				case "garbage":
					ss.ClientCAData = garbage
				}
				o.Spec.SecureServing = ss
			})
		}
	}
	// ---- flow-control schema: every combination of the five members x strategy x name
	tbVals := [][2]int32{{-1, -1}, {-1, 5}, {0, 0}, {0, 5}, {1, 0}, {1, 1}, {1, 5}, {5, 1}, {5, 5}, {5, -1}}
	mifVals := []int32{-1, 0, 1, 5}
	if !thorough {
		tbVals = [][2]int32{{-1, 5}, {0, 5}, {1, 1}, {1, 5}, {5, 1}, {5, -1}}
	}
	strategies := []proxyv1alpha1.LimitStrategy{"", proxyv1alpha1.LocalLimit, proxyv1alpha1.GlobalAllocateLimit, proxyv1alpha1.GlobalCountLimit, "bogus"}
	for _, ex := range []bool{false, true} {
		for mi := -1; mi < len(mifVals); mi++ {
			for gi := -1; gi < len(mifVals); gi++ {
				for ti := -1; ti < len(tbVals); ti++ {
					for gti := -1; gti < len(tbVals); gti++ {
						for _, st := range strategies {
							ex, mi, gi, ti, gti, st := ex, mi, gi, ti, gti, st
							members := 0
							neg := false
							cfg := proxyv1alpha1.FlowControlSchemaConfiguration{}
							lbl := []string{}
							if ex {
								cfg.Exempt = &proxyv1alpha1.ExemptFlowControlSchema{}
								members++
								lbl = append(lbl, "exempt")
							}
							if mi >= 0 {
								cfg.MaxRequestsInflight = &proxyv1alpha1.MaxRequestsInflightFlowControlSchema{Max: mifVals[mi]}
								members++
								neg = neg || mifVals[mi] < 0
								lbl = append(lbl, fmt.Sprintf("mif=%d", mifVals[mi]))
							}
							if gi >= 0 {
								cfg.GlobalMaxRequestsInflight = &proxyv1alpha1.MaxRequestsInflightFlowControlSchema{Max: mifVals[gi]}
								neg = neg || mifVals[gi] < 0
								lbl = append(lbl, fmt.Sprintf("gmif=%d", mifVals[gi]))
							}
							if ti >= 0 {
								cfg.TokenBucket = &proxyv1alpha1.TokenBucketFlowControlSchema{QPS: tbVals[ti][0], Burst: tbVals[ti][1]}
								members++
								neg = neg || tbVals[ti][0] < 0 || tbVals[ti][1] < 0
								lbl = append(lbl, fmt.Sprintf("tb=%v", tbVals[ti]))
							}
							if gti >= 0 {
								cfg.GlobalTokenBucket = &proxyv1alpha1.TokenBucketFlowControlSchema{QPS: tbVals[gti][0], Burst: tbVals[gti][1]}
								neg = neg || tbVals[gti][0] < 0 || tbVals[gti][1] < 0
								lbl = append(lbl, fmt.Sprintf("gtb=%v", tbVals[gti]))
							}
							reject := ""
							global := st == proxyv1alpha1.GlobalAllocateLimit || st == proxyv1alpha1.GlobalCountLimit
							switch {
							case members > 1:
								reject = "more than one flow-control configuration member"
							case members == 0:
								reject = "no flow-control configuration member"
							case neg:
								reject = "negative flow-control limit"
							case st == "bogus":
								reject = "unknown strategy"
							case global && cfg.MaxRequestsInflight != nil && cfg.GlobalMaxRequestsInflight == nil, global && cfg.TokenBucket != nil && cfg.GlobalTokenBucket == nil:
								reject = "global strategy without its global member"
							case gi >= 0 && cfg.MaxRequestsInflight == nil, gti >= 0 && cfg.TokenBucket == nil:
								reject = "global member without its local member"
							}
							add("flowControl", fmt.Sprintf("strategy=%q %s", st, strings.Join(lbl, " ")), reject, func(o *proxyv1alpha1.UpstreamCluster) {
								o.Spec.FlowControl.Schemas = []proxyv1alpha1.FlowControlSchema{{Name: "s", Strategy: st, FlowControlSchemaConfiguration: cfg}}
							})
						}
					}
				}
			}
		}
	}
	add("flowControl", "schema without name", "", func(o *proxyv1alpha1.UpstreamCluster) { o.Spec.FlowControl.Schemas[0].Name = "" })
	add("flowControl", "duplicate schema name", "", func(o *proxyv1alpha1.UpstreamCluster) {
		o.Spec.FlowControl.Schemas = append(o.Spec.FlowControl.Schemas, o.Spec.FlowControl.Schemas[0])
	})
	add("flowControl", "no schemas", "unknown schema reference", func(o *proxyv1alpha1.UpstreamCluster) { o.Spec.FlowControl.Schemas = nil })
	// ---- dispatch policies
	for _, st := range []proxyv1alpha1.Strategy{proxyv1alpha1.RoundRobin, "", "x"} {
		// near misses of a known endpoint are unknown endpoints too: the data plane looks a subset entry up by the exact
		// string of spec.servers[].endpoint
		for _, sub := range []string{"none", "known", "unknown", "known+unknown", "unknown:trailing-slash", "unknown:upper-case-host", "unknown:other-scheme", "unknown:empty-string", "known+unknown:trailing-slash"} {
			for _, sn := range []string{"", "s", "unknown"} {
				for _, rules := range []int{0, 1} {
					for _, lm := range []proxyv1alpha1.LogMode{"", proxyv1alpha1.LogOn, proxyv1alpha1.LogOff, "bad"} {
						st, sub, sn, rules, lm := st, sub, sn, rules, lm
						reject := ""
						switch {
						case strings.Contains(sub, "unknown"):
							reject = "policy refers to an unknown endpoint"
						case sn == "unknown":
							reject = "unknown schema reference"
						}
						add("policies", fmt.Sprintf("strategy=%q subset=%s schema=%q rules=%d log=%q", st, sub, sn, rules, lm), reject, func(o *proxyv1alpha1.UpstreamCluster) {
							p := proxyv1alpha1.DispatchPolicy{Strategy: st, FlowControlSchemaName: sn, LogMode: lm}
							switch sub {
							case "known":
								p.UpstreamSubset = []string{"https://127.0.0.1:1"}
							case "unknown":
								p.UpstreamSubset = []string{"https://127.0.0.1:9"}
							case "known+unknown":
								p.UpstreamSubset = []string{"https://127.0.0.1:1", "https://127.0.0.1:9"}
							case "unknown:trailing-slash":
								p.UpstreamSubset = []string{"https://127.0.0.1:1/"}
							case "unknown:upper-case-host":
								p.UpstreamSubset = []string{"HTTPS://127.0.0.1:1"}
							case "unknown:other-scheme":
								p.UpstreamSubset = []string{"http://127.0.0.1:1"}
							case "unknown:empty-string":
								p.UpstreamSubset = []string{""}
							case "known+unknown:trailing-slash":
								p.UpstreamSubset = []string{"https://127.0.0.1:2", "https://127.0.0.1:1//"}
							}
							if rules == 1 {
								p.Rules = o.Spec.DispatchPolicies[0].Rules
							}
							o.Spec.DispatchPolicies = []proxyv1alpha1.DispatchPolicy{p}
						})
					}
				}
			}
		}
	}
	add("policies", "no policies", "", func(o *proxyv1alpha1.UpstreamCluster) { o.Spec.DispatchPolicies = nil })
	// ---- logging / annotations
	for _, m := range []proxyv1alpha1.LogMode{"", proxyv1alpha1.LogOn, proxyv1alpha1.LogOff, "bad"} {
		m := m
		add("logging", string(m), "", func(o *proxyv1alpha1.UpstreamCluster) { o.Spec.Logging.Mode = m })
	}
	for _, fg := range []string{"", "DenyAllRequests=true", "Tracing=true,GlobalRateLimiter=true", "Nope=true", "DenyAllRequests=maybe", "=", ","} {
		fg := fg
		add("annotations", fg, "", func(o *proxyv1alpha1.UpstreamCluster) {
			o.Annotations = map[string]string{"proxy.kubegateway.io/feature-gates": fg}
		})
	}
	return vs
}

// ------------------------------------------------------------------ judging one object

var plugin admission.ValidationInterface
var objIfaces admission.ObjectInterfaces

func setupPlugin() {
	gatewayinstall.Install(scheme.Scheme)
	objIfaces = admission.NewObjectInterfacesFromScheme(scheme.Scheme)
	p := upstreamclusteradmission.NewUpstreamClusterPlugin()
	gw := gwfake.NewSimpleClientset()
	f := gwinformers.NewSharedInformerFactory(gw, 0)
	initializer.New(gw, f).Initialize(p)
	stop := make(chan struct{})
	f.Start(stop)
	f.WaitForCacheSync(stop)
	plugin = p.(admission.ValidationInterface)
}

func accepted(o *proxyv1alpha1.UpstreamCluster) (ok bool, panicked string) {
	var errs int
	if p := kit.Try(func() { errs = len(validation.ValidateUpstreamCluster(o)) }); p != "" {
		return false, "ValidateUpstreamCluster: " + p
	}
	var perr error
	if p := kit.Try(func() {
		gvk := proxyv1alpha1.SchemeGroupVersion.WithKind("UpstreamCluster")
		gvr := proxyv1alpha1.SchemeGroupVersion.WithResource("upstreamclusters")
		a := admission.NewAttributesRecord(o, nil, gvk, "", o.Name, gvr, "", admission.Create, &metav1.CreateOptions{}, false, nil)
		perr = plugin.Validate(context.TODO(), a, objIfaces)
	}); p != "" {
		return false, "admission plugin Validate: " + p
	}
	return errs == 0 && perr == nil, ""
}

// applyEverywhere: the gateway and the limiter server must be able to apply an accepted object
func applyEverywhere(o *proxyv1alpha1.UpstreamCluster) (where, what string) {
	w1, m1 := applyGateway(o)
	w2, m2 := applyControllerAndLimiter(o)
	switch {
	case w1 != "" && w2 != "":
		return w1 + "+" + w2, m1 + " ; " + m2
	case w1 != "":
		return w1, m1
	}
	return w2, m2
}

func applyGateway(o *proxyv1alpha1.UpstreamCluster) (where, what string) {
	// gateway: ClusterInfo
	var ci *clusters.ClusterInfo
	var err error
	if p := kit.Try(func() { ci, err = clusters.CreateClusterInfo(o.DeepCopy(), kit.NoopCheck, "", nil) }); p != "" {
		return "gateway-create-panic", p
	}
	if err != nil {
		return "gateway-create-error", err.Error()
	}
	defer ci.Stop()
	if p := kit.Try(func() { err = ci.Sync(o.DeepCopy()) }); p != "" {
		return "gateway-sync-panic", p
	}
	if err != nil {
		return "gateway-sync-error", err.Error()
	}
	for _, s := range o.Spec.FlowControl.Schemas {
		if p := kit.Try(func() {
			fc := ci.GetFlowSchema(s.Name)
			if fc.TryAcquire() {
				fc.Release()
			}
			_ = fc.String()
		}); p != "" {
			return "gateway-flowcontrol-panic", p
		}
	}
	return "", ""
}

func applyControllerAndLimiter(o *proxyv1alpha1.UpstreamCluster) (where, what string) {
	var err error
	// gateway: controller create path and update path
	rig := ctlrig.New()
	defer rig.Close()
	for _, path := range []string{"create", "update"} {
		var requeue bool
		if p := kit.Try(func() {
			res, err := rig.Apply(o.DeepCopy())
			requeue = err != nil || res.Requeue || res.RequeueAfter > 0
		}); p != "" {
			return "controller-" + path + "-panic", p
		}
		if requeue {
			return "controller-" + path + "-refused", "the controller could not apply the accepted object and requeued it"
		}
	}
	// limiter server
	lr := limrig.New(1, "local")
	lr.Gain(0)
	if p := kit.Try(func() { err = lr.ApplyCluster(o.DeepCopy()) }); p != "" {
		return "limiter-handler-panic", p
	}
	if err != nil {
		return "limiter-handler-error", err.Error()
	}
	for _, s := range o.Spec.FlowControl.Schemas {
		typ := proxyv1alpha1.MaxRequestsInflight
		if s.TokenBucket != nil {
			typ = proxyv1alpha1.TokenBucket
		}
		if s.GlobalMaxRequestsInflight == nil && s.GlobalTokenBucket == nil {
			continue
		}
		_ = lr.L.Heartbeat("gw1")
		if p := kit.Try(func() {
			rep := limrig.Report(o.Name, "gw1", s.Name, typ, s.Strategy, 0, 0, 0, 0)
			rep.Spec.LimitItemConfigurations[0].LimitItemDetail = proxyv1alpha1.LimitItemDetail{}
			_, err = lr.L.UpdateRateLimitConditionStatus(o.Name, rep)
		}); p != "" {
			return "limiter-report-panic", p
		}
		if err != nil {
			return "limiter-report-error", err.Error()
		}
		if p := kit.Try(func() {
			_, err = lr.L.DoAcquire(o.Name, limrig.Acquire(o.Name, "gw1", s.Name, time.Now().UnixNano(), 1))
		}); p != "" {
			return "limiter-acquire-panic", p
		}
		if err != nil {
			return "limiter-acquire-error", err.Error()
		}
	}
	return "", ""
}

func judge(c *ev.Check, label, reject string, o *proxyv1alpha1.UpstreamCluster, section string) {
	c.Add("objects", 1)
	ok, panicked := accepted(o)
	if panicked != "" {
		c.Violation("validation-panics/"+section, fmt.Sprintf("validating the object [%s] panicked: %s", label, firstLine(panicked)), map[string]interface{}{"variant": label, "object": o})
		return
	}
	c.Outcome("verdicts", fmt.Sprintf("%s/%v", section, ok))
	if !ok {
		c.Add("rejected", 1)
		return
	}
	c.Add("accepted", 1)
	c.Outcome("accepted_variants", label)
	if reject != "" {
		c.Violation("accepts-breaking-object/"+reject, fmt.Sprintf("validation accepts [%s], an object of a class that must be rejected (%s)", label, reject), map[string]interface{}{"variant": label, "object": o})
	}
	if where, what := applyEverywhere(o); where != "" {
		c.Violation("accepted-but-not-applicable/"+where, fmt.Sprintf("validation accepts [%s] but applying it fails (%s): %s", label, where, firstLine(what)), map[string]interface{}{"variant": label, "object": o})
	} else if reject == "" {
		c.Sample("accepted-and-applied", label)
	}
}

func firstLine(s string) string {
	if i := strings.Index(s, " | "); i > 0 {
		return s[:i]
	}
	if len(s) > 300 {
		return s[:300]
	}
	return s
}

// updatePairs: "can be applied" also when the object replaces another accepted one on a running system. For every
// ordered pair (X, Y) of accepted flow-control sections: the limiter server applies X, two instances report under X,
// the server applies Y, one instance reports (and acquires) under Y; the gateway syncs X then Y and probes every
// schema. Nothing may panic or fail.
func updatePairs(c *ev.Check, fcs []variant, lo, hi int) {
	for _, vx := range fcs[lo:hi] {
		for _, vy := range fcs {
			x, y := base(), base()
			vx.mut(x)
			vy.mut(y)
			c.Add("update_pairs", 1)
			label := "flowControl: " + vx.label + " -> " + vy.label
			where, what := "", ""
			report := func(lr *limrig.Rig, o *proxyv1alpha1.UpstreamCluster, inst string, acquire bool) {
				for _, s := range o.Spec.FlowControl.Schemas {
					if s.GlobalMaxRequestsInflight == nil && s.GlobalTokenBucket == nil {
						continue
					}
					typ := proxyv1alpha1.MaxRequestsInflight
					if s.TokenBucket != nil {
						typ = proxyv1alpha1.TokenBucket
					}
					_ = lr.L.Heartbeat(inst)
					var err error
					if p := kit.Try(func() {
						rep := limrig.Report(o.Name, inst, s.Name, typ, s.Strategy, 0, 0, 1, 50)
						rep.Spec.LimitItemConfigurations[0].LimitItemDetail = proxyv1alpha1.LimitItemDetail{}
						_, err = lr.L.UpdateRateLimitConditionStatus(o.Name, rep)
					}); p != "" && where == "" {
						where, what = "limiter-report-after-update-panic", p
					} else if err != nil && where == "" {
						where, what = "limiter-report-after-update-error", err.Error()
					}
					if !acquire {
						continue
					}
					if p := kit.Try(func() {
						_, err = lr.L.DoAcquire(o.Name, limrig.Acquire(o.Name, inst, s.Name, time.Now().UnixNano(), 1))
					}); p != "" && where == "" {
						where, what = "limiter-acquire-after-update-panic", p
					} else if err != nil && where == "" {
						where, what = "limiter-acquire-after-update-error", err.Error()
					}
				}
			}
			lr := limrig.New(1, "local")
			lr.Gain(0)
			var err error
			if p := kit.Try(func() { err = lr.ApplyCluster(x.DeepCopy()) }); p != "" || err != nil {
				continue // (X alone is judged by the single-object enumeration)
			}
			report(lr, x, "gw1", true)
			report(lr, x, "gw2", true)
			if where != "" {
				continue // (likewise)
			}
			if p := kit.Try(func() { err = lr.ApplyCluster(y.DeepCopy()) }); p != "" {
				where, what = "limiter-handler-update-panic", p
			} else if err != nil {
				where, what = "limiter-handler-update-error", err.Error()
			}
			if where == "" {
				report(lr, y, "gw1", true)
			}
			if where == "" {
				report(lr, y, "gw2", true)
			}
			// gateway
			if where == "" {
				var ci *clusters.ClusterInfo
				if p := kit.Try(func() { ci, err = clusters.CreateClusterInfo(x.DeepCopy(), kit.NoopCheck, "", nil) }); p == "" && err == nil {
					if p := kit.Try(func() { err = ci.Sync(y.DeepCopy()) }); p != "" {
						where, what = "gateway-update-panic", p
					} else if err != nil {
						where, what = "gateway-update-error", err.Error()
					}
					for _, s := range y.Spec.FlowControl.Schemas {
						if p := kit.Try(func() {
							fc := ci.GetFlowSchema(s.Name)
							if fc.TryAcquire() {
								fc.Release()
							}
						}); p != "" && where == "" {
							where, what = "gateway-flowcontrol-after-update-panic", p
						}
					}
					ci.Stop()
				}
			}
			if where != "" {
				c.Violation("accepted-but-not-applicable-as-update/"+where, fmt.Sprintf("validation accepts both objects of [%s] but applying the second over the first fails (%s): %s", label, where, firstLine(what)), map[string]interface{}{"variant": label, "from": x, "to": y})
			}
		}
	}
}

func main() {
	c := ev.Start("C16", "exploration")
	c.Assume = []string{
		"objects are enumerated section by section around a valid base object, plus all pairs over the coupled sections (servers x clientConfig, servers x policies, flowControl x policies); values are the boundary values of each validation clause (nil / empty / negative / zero / mismatched / unparseable)",
		"'the data plane can apply it' = CreateClusterInfo, a second Sync, the controller's create and update path, a probe on every flow-control schema, and on the limiter server the cluster handler plus one report and one acquire per global schema, all without error or panic; the gateway-side remote flow-control path is exercised in C09's rig",
		"which classes must be rejected is taken from the property's list; objects the property does not call breaking may be accepted or rejected",
	}
	setupPlugin()
	vs := variants(c.Thorough())
	if a, p := accepted(base()); !a || p != "" {
		c.EngineError("the base object is not accepted on this tree: the enumeration would be vacuous " + p)
	}
	// singles, chunked into tasks
	var tasks []ev.Task
	chunk := 400
	for i := 0; i < len(vs); i += chunk {
		lo, hi := i, i+chunk
		if hi > len(vs) {
			hi = len(vs)
		}
		tasks = append(tasks, ev.Task{Name: fmt.Sprintf("single-%d", lo), Run: func() {
			for _, v := range vs[lo:hi] {
				o := base()
				v.mut(o)
				judge(c, v.section+": "+v.label, v.mustReject, o, v.section)
			}
		}})
	}
	// pairs of coupled sections (small per-section subsets: one per distinct shape)
	bySection := map[string][]variant{}
	for _, v := range vs {
		bySection[v.section] = append(bySection[v.section], v)
	}
	pick := func(section string, every int) []variant {
		var out []variant
		for i, v := range bySection[section] {
			if i%every == 0 {
				out = append(out, v)
			}
		}
		return out
	}
	pairs := [][2][]variant{
		{bySection["servers"], pick("clientConfig", c.Pick(7, 3))},
		{bySection["servers"], pick("policies", c.Pick(5, 2))},
		{pick("flowControl", c.Pick(97, 23)), pick("policies", c.Pick(5, 2))},
	}
	for pi, pr := range pairs {
		pr := pr
		for ai := 0; ai < len(pr[0]); ai += 4 {
			lo, hi := ai, ai+4
			if hi > len(pr[0]) {
				hi = len(pr[0])
			}
			tasks = append(tasks, ev.Task{Name: fmt.Sprintf("pair%d-%d", pi, lo), Run: func() {
				for _, va := range pr[0][lo:hi] {
					for _, vb := range pr[1] {
						o := base()
						va.mut(o)
						vb.mut(o)
						rej := va.mustReject
						if rej == "" {
							rej = vb.mustReject
						}
						// a combination may turn an otherwise fine value into a breaking one (subset of a removed server); only the
						// single-section classes are demanded to be rejected, the soundness check covers the rest
						judge(c, va.section+": "+va.label+" & "+vb.section+": "+vb.label, rej, o, va.section+"+"+vb.section)
					}
				}
			}})
		}
	}
	// accepted flow-control sections, every ordered pair as an update
	var fcs []variant
	for _, v := range bySection["flowControl"] {
		o := base()
		v.mut(o)
		if ok, p := accepted(o); ok && p == "" {
			fcs = append(fcs, v)
		}
	}
	c.Note("accepted_flow_control_sections", len(fcs))
	for i := 0; i < len(fcs); i += 4 {
		lo, hi := i, i+4
		if hi > len(fcs) {
			hi = len(fcs)
		}
		tasks = append(tasks, ev.Task{Name: fmt.Sprintf("update-pairs-%d", lo), Run: func() { updatePairs(c, fcs, lo, hi) }})
	}
	c.RunTasks(tasks)
	c.Finish(map[string]interface{}{
		"evaluations":         c.Counter("objects"),
		"distinct_nontrivial": c.DistinctCount("accepted_variants"),
		"rule":                "objects = base object with one section replaced by each value of that section's alphabet (name, servers, clientConfig incl. 64 qps/burst/divisor triples, secureServing, every combination of the five flow-control members x strategy, policies, logging, feature-gate annotation) plus products over the coupled section pairs; non-trivial/distinct = accepted objects (each is applied to the gateway and the limiter server).",
	})
}
