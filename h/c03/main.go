// C03 — endpoint selection: only enabled, healthy endpoints of the policy get traffic.
//
//	B (xstate): histories of spec updates (servers added / removed / disabled,
//	  policy subsets changed), probe outcomes, and requests split into their two
//	  steps (match a policy, pick an endpoint) on a real ClusterInfo.
//	C (enum): every (absent / disabled / unhealthy / ready)^3 endpoint state x
//	  policy subset through the real handler chain: where requests land, 503
//	  otherwise; probing stops for disabled endpoints (wall-clock bounded).
//	A (vsched): a pick racing a disable / an unhealthy probe result / the removal
//	  of the endpoint.
//	plus a free-running stress of the request path against probe updates (no panic).
package main

import (
	"fmt"
	"net/http"
	"runtime"
	"sort"
	"strings"
	"sync"
	"sync/atomic"
	"time"

	"k8s.io/apiserver/pkg/authentication/user"
	"k8s.io/apiserver/pkg/authorization/authorizer"

	proxyv1alpha1 "github.com/kubewharf/kubegateway/pkg/apis/proxy/v1alpha1"
	"github.com/kubewharf/kubegateway/pkg/clusters"
	"github.com/kubewharf/kubegateway/pkg/zzverif/vsched"

	"verifh/ctlrig"
	"verifh/e2e"
	"verifh/ev"
	"verifh/kit"
	"verifh/xa"
	"verifh/xstate"
)

var attrs = authorizer.AttributesRecord{User: &user.DefaultInfo{Name: "alice"}, Verb: "get", Resource: "pods", ResourceRequest: true}

func ep(i int) string { return fmt.Sprintf("http://127.0.0.1:%d", 2001+i) }

func epIndex(e string) int {
	var i int
	fmt.Sscanf(e, "http://127.0.0.1:%d", &i)
	return i - 2001
}

type specv struct {
	servers  []int // endpoint indexes present
	disabled int   // -1 none
	subset   []int // nil = no subset
	also     []int // further disabled endpoints (two at once, all of them)
	spelled  bool  // enabled servers carry an explicit disabled=false
	// twice > 0: endpoint twice-1 is listed in two entries (validation accepts that), one with disabled: true and one
	// without - the disabled one first or last. An endpoint the list marks disabled anywhere is disabled.
	twice         int
	disabledFirst bool
}

func (s specv) String() string {
	x := fmt.Sprintf("servers=%v disabled=%d subset=%v", s.servers, s.disabled, s.subset)
	if len(s.also) > 0 {
		x += fmt.Sprintf(" also-disabled=%v", s.also)
	}
	if s.spelled {
		x += " flag-spelled-out"
	}
	if s.twice > 0 {
		x += fmt.Sprintf(" endpoint-%d-listed-twice(disabled entry first=%v)", s.twice-1, s.disabledFirst)
	}
	return x
}

func (s specv) dis(i int) bool {
	return i >= 0 && (i == s.disabled || has(s.also, i) || (s.twice > 0 && i == s.twice-1))
}

func (s specv) object() *proxyv1alpha1.UpstreamCluster {
	var servers []proxyv1alpha1.UpstreamClusterServer
	t := true
	for _, i := range s.servers {
		sv := proxyv1alpha1.UpstreamClusterServer{Endpoint: ep(i)}
		if s.twice > 0 && i == s.twice-1 {
			// the second entry for this endpoint goes to the end of the list
			if s.disabledFirst {
				sv.Disabled = &t
			}
			servers = append(servers, sv)
			continue
		}
		if s.dis(i) {
			sv.Disabled = &t
		} else if s.spelled {
			no := false
			sv.Disabled = &no
		}
		servers = append(servers, sv)
	}
	if s.twice > 0 {
		sv := proxyv1alpha1.UpstreamClusterServer{Endpoint: ep(s.twice - 1)}
		if !s.disabledFirst {
			sv.Disabled = &t
		}
		servers = append(servers, sv)
	}
	pol := proxyv1alpha1.DispatchPolicy{Strategy: proxyv1alpha1.RoundRobin, Rules: []proxyv1alpha1.DispatchPolicyRule{{Verbs: []string{"*"}, APIGroups: []string{"*"}, Resources: []string{"*"}, NonResourceURLs: []string{"*"}}}}
	for _, i := range s.subset {
		pol.UpstreamSubset = append(pol.UpstreamSubset, ep(i))
	}
	return kit.Upstream("c3", servers, []proxyv1alpha1.DispatchPolicy{pol})
}

func has(l []int, x int) bool {
	for _, y := range l {
		if y == x {
			return true
		}
	}
	return false
}

func allSpecs() []specv {
	var out []specv
	for _, sv := range [][]int{{0}, {0, 1}, {1, 2}, {0, 1, 2}, {2}} {
		for _, d := range []int{-1, 0, 1, 2} {
			if d >= 0 && !has(sv, d) {
				continue
			}
			for _, sub := range [][]int{nil, {0}, {0, 1}, {2}} {
				ok := true
				for _, x := range sub {
					ok = ok && has(sv, x) // validation refuses a subset that names an unknown endpoint
				}
				if ok {
					out = append(out, specv{servers: sv, disabled: d, subset: sub})
				}
			}
		}
	}
	// shapes of "disabled": two at once, all of them, and the flag spelled out as false on the enabled ones
	out = append(out, specv{servers: []int{0, 1}, disabled: 0, also: []int{1}}, specv{servers: []int{0, 1, 2}, disabled: 0, also: []int{1}}, specv{servers: []int{0, 1, 2}, disabled: 1, also: []int{2}, subset: []int{0, 1}},
		specv{servers: []int{0, 1, 2}, disabled: 0, also: []int{1, 2}}, specv{servers: []int{0, 1}, disabled: -1, spelled: true}, specv{servers: []int{0, 1, 2}, disabled: 1, spelled: true, subset: []int{0, 1}})
	// an endpoint listed twice, disabled in one of its entries
	for _, first := range []bool{true, false} {
		out = append(out, specv{servers: []int{0, 1}, disabled: -1, twice: 1, disabledFirst: first}, specv{servers: []int{0, 1, 2}, disabled: -1, twice: 2, disabledFirst: first, subset: []int{0, 1}})
	}
	return out
}

// ------------------------------------------------------------------ engine B

type pending struct {
	picker clusters.EndpointPicker
	subset []int // the matched policy's subset
	synced bool  // the spec changed after the policy was matched
}

type sysB struct {
	ci      *clusters.ClusterInfo
	spec    specv
	healthy [3]bool
	reqs    []*pending
	probes  *probeLog
}

type probeLog struct {
	mu sync.Mutex
	n  map[string]int
}

func (p *probeLog) check(e *clusters.EndpointInfo) bool {
	p.mu.Lock()
	p.n[e.Endpoint]++
	p.mu.Unlock()
	return true // leaves the status alone: health is what the driver's probe-outcome events say
}

func (s *sysB) readySet(subset []int) []int {
	var out []int
	for _, i := range s.spec.servers {
		if s.spec.dis(i) || !s.healthy[i] {
			continue
		}
		if subset != nil && !has(subset, i) {
			continue
		}
		out = append(out, i)
	}
	return out
}

func specB() xstate.Spec {
	specs := allSpecs()
	return xstate.Spec{
		Name: "select-histories",
		New: func() interface{} {
			s := &sysB{spec: specs[0], probes: &probeLog{n: map[string]int{}}}
			ci, err := clusters.CreateClusterInfo(s.spec.object(), s.probes.check, "", nil)
			if err != nil {
				panic(err)
			}
			s.ci = ci
			return s
		},
		Events: func(si interface{}) []string {
			s := si.(*sysB)
			var evs []string
			for i, sp := range specs {
				if sp.String() != s.spec.String() {
					evs = append(evs, fmt.Sprintf("sync %d", i))
				}
			}
			for i := 0; i < 3; i++ {
				evs = append(evs, fmt.Sprintf("probe %d up", i), fmt.Sprintf("probe %d down", i))
			}
			if len(s.reqs) < 2 {
				evs = append(evs, "match")
			}
			for i := range s.reqs {
				evs = append(evs, fmt.Sprintf("pick %d", i))
			}
			return evs
		},
		Apply: func(si interface{}, e string) error {
			s := si.(*sysB)
			f := strings.Fields(e)
			switch f[0] {
			case "sync":
				var i int
				fmt.Sscanf(f[1], "%d", &i)
				old := s.spec
				s.spec = specs[i]
				for _, r := range s.reqs {
					r.synced = true
				}
				if err := s.ci.Sync(s.spec.object()); err != nil {
					return fmt.Errorf("sync-failed: %v", err)
				}
				for k := 0; k < 3; k++ {
					if !has(old.servers, k) || !has(s.spec.servers, k) {
						s.healthy[k] = false // an endpoint that is (re-)added starts unhealthy until probed
					}
				}
				// probing is installed exactly for the present, enabled endpoints
				for _, k := range s.spec.servers {
					info, ok := s.ci.Endpoints.Load(ep(k))
					if !ok {
						return fmt.Errorf("endpoint-missing: %s is in the server list but unknown to the cluster", ep(k))
					}
					if info.VerifProbing() != !s.spec.dis(k) {
						return fmt.Errorf("probing-state: after %s endpoint %d disabled=%v but a health-check loop installed=%v", s.spec, k, s.spec.dis(k), info.VerifProbing())
					}
				}
				for k := 0; k < 3; k++ {
					if _, ok := s.ci.Endpoints.Load(ep(k)); ok && !has(s.spec.servers, k) {
						return fmt.Errorf("removed-endpoint-kept: endpoint %d was removed from the server list but the cluster still knows it", k)
					}
				}
			case "probe":
				var i int
				fmt.Sscanf(f[1], "%d", &i)
				info, ok := s.ci.Endpoints.Load(ep(i))
				if !ok || s.spec.dis(i) {
					return nil // absent or disabled endpoints are not probed
				}
				info.UpdateStatus(f[2] == "up", "Failure", "probe")
				s.healthy[i] = f[2] == "up"
			case "match":
				p, err := s.ci.MatchAttributes(attrs)
				if err != nil {
					return fmt.Errorf("match-failed: %v", err)
				}
				s.reqs = append(s.reqs, &pending{picker: p, subset: s.spec.subset})
			case "pick":
				var i int
				fmt.Sscanf(f[1], "%d", &i)
				r := s.reqs[i]
				s.reqs = append(s.reqs[:i], s.reqs[i+1:]...)
				want := s.readySet(r.subset)
				got, err := r.picker.Pop()
				if err != nil {
					// (a request matched before a spec change may miss endpoints added since: the property only says where
					// requests may go and that they are refused when nothing is eligible, so that transient is not judged)
					if len(want) > 0 && !r.synced {
						return fmt.Errorf("refused-although-ready: endpoints %v are in the list, in the policy's subset %v, enabled and healthy, but the pick failed: %v", want, r.subset, err)
					}
					return nil
				}
				k := epIndex(got.Endpoint)
				switch {
				case !has(s.spec.servers, k):
					return fmt.Errorf("picked-removed-endpoint: %s is not in the cluster's current server list %v", got.Endpoint, s.spec.servers)
				case r.subset != nil && !has(r.subset, k):
					return fmt.Errorf("picked-outside-subset: endpoint %d is not in the matched policy's subset %v", k, r.subset)
				case s.spec.dis(k):
					return fmt.Errorf("picked-disabled-endpoint: endpoint %d is disabled", k)
				case !s.healthy[k]:
					return fmt.Errorf("picked-unhealthy-endpoint: endpoint %d is unhealthy", k)
				}
			}
			return nil
		},
		Canon: func(si interface{}) string {
			s := si.(*sysB)
			var rq []string
			for _, r := range s.reqs {
				rq = append(rq, fmt.Sprint(r.subset))
			}
			sort.Strings(rq)
			var st []string
			for k := 0; k < 3; k++ {
				if info, ok := s.ci.Endpoints.Load(ep(k)); ok {
					st = append(st, fmt.Sprintf("%d:%v:%v:%v", k, info.IstDisabled(), info.IsReady(), info.VerifProbing()))
				}
			}
			return fmt.Sprint(s.spec, s.healthy, rq, st)
		},
		Close: func(si interface{}) { si.(*sysB).ci.Stop() },
	}
}

// ------------------------------------------------------------------ engine C: through the handler chain

func throughChain(c *ev.Check) {
	r := e2e.New()
	defer r.Close()
	ups := []*e2e.Upstream{e2e.NewUpstream("e0"), e2e.NewUpstream("e1"), e2e.NewUpstream("e2")}
	defer func() {
		for _, u := range ups {
			u.Close()
		}
	}()
	states := []string{"absent", "disabled", "unhealthy", "ready"}
	var ci *clusters.ClusterInfo
	noProbe := func(*clusters.EndpointInfo) bool { return true }
	for code := 0; code < 64; code++ {
		st := [3]string{states[code%4], states[(code/4)%4], states[(code/16)%4]}
		for _, sub := range [][]int{nil, {0}, {0, 1}, {2}} {
			var present []*e2e.Upstream
			ok := true
			for i := 0; i < 3; i++ {
				if st[i] != "absent" {
					present = append(present, ups[i])
				}
			}
			for _, x := range sub {
				ok = ok && st[x] != "absent"
			}
			if !ok || len(present) == 0 {
				continue
			}
			o := e2e.ClusterObject("c3", present...)
			t := true
			for i := range o.Spec.Servers {
				for k := 0; k < 3; k++ {
					if o.Spec.Servers[i].Endpoint == ups[k].URL() && st[k] == "disabled" {
						o.Spec.Servers[i].Disabled = &t
					}
				}
			}
			for _, x := range sub {
				o.Spec.DispatchPolicies[0].UpstreamSubset = append(o.Spec.DispatchPolicies[0].UpstreamSubset, ups[x].URL())
			}
			if ci == nil {
				ci = r.AddCluster(o, noProbe)
			} else if err := ci.Sync(o); err != nil {
				c.Violation("chain/sync-failed", err.Error(), nil)
				continue
			}
			var want []int
			for k := 0; k < 3; k++ {
				if info, okk := ci.Endpoints.Load(ups[k].URL()); okk {
					info.UpdateStatus(st[k] != "unhealthy", "Failure", "x")
				}
				if st[k] == "ready" && (sub == nil || has(sub, k)) {
					want = append(want, k)
				}
				ups[k].Requests()
			}
			c.Add("chain_cases", 1)
			hits := [3]int{}
			codes := map[int]int{}
			for n := 0; n < 6; n++ {
				resp, _, err := r.Do("GET", "c3", "/api/v1/pods", nil, nil)
				if err != nil {
					c.Violation("chain/client-error", err.Error(), nil)
					continue
				}
				codes[resp.StatusCode]++
				if resp.StatusCode == 503 && resp.Header.Get("Retry-After") == "" {
					c.Violation("chain/503-without-retry-after", fmt.Sprintf("endpoint states %v subset %v", st, sub), nil)
				}
			}
			for k := 0; k < 3; k++ {
				hits[k] = len(ups[k].Requests())
			}
			label := fmt.Sprintf("endpoint states %v, policy subset %v: hits %v, status codes %v", st, sub, hits, codes)
			c.Outcome("chain_outcomes", fmt.Sprintf("%v/%v/%v", st, sub, codes))
			for k := 0; k < 3; k++ {
				if hits[k] > 0 && !has(want, k) {
					c.Violation("chain/forwarded-to-ineligible-endpoint", label+fmt.Sprintf(": endpoint %d received traffic", k), label)
				}
			}
			if len(want) == 0 {
				if codes[503] != 6 {
					c.Violation("chain/not-503-without-ready-endpoint", label, label)
				}
			} else {
				if codes[200] != 6 {
					c.Violation("chain/refused-although-ready", label, label)
				}
				for _, k := range want {
					if hits[k] == 0 {
						c.Violation("chain/ready-endpoint-starved", label+fmt.Sprintf(": ready endpoint %d got nothing out of 6", k), label)
					}
				}
			}
		}
	}
}

// probing stops for a disabled endpoint and resumes when it is enabled again (real probe loop, 5 ms interval)
func probing(c *ev.Check) {
	var mu sync.Mutex
	count := map[string]int{}
	check := func(e *clusters.EndpointInfo) bool {
		mu.Lock()
		count[e.Endpoint]++
		mu.Unlock()
		e.UpdateStatus(true, "", "")
		return true
	}
	sp := specv{servers: []int{0, 1}, disabled: -1}
	ci := clusters.NewEmptyClusterInfo("c3", nil, check, "", nil)
	ci.VerifSetHealthCheckInterval(5 * time.Millisecond)
	// NewEmptyClusterInfo with a nil rest config skips endpoints; build through CreateClusterInfo instead and shorten the interval before endpoints exist
	ci.Stop()
	cl, err := clusters.CreateClusterInfo(specv{servers: []int{2}, disabled: -1}.object(), check, "", nil)
	if err != nil {
		c.EngineError("probing: " + err.Error())
		return
	}
	defer cl.Stop()
	cl.VerifSetHealthCheckInterval(5 * time.Millisecond)
	window := func(d time.Duration) map[string]int {
		mu.Lock()
		for k := range count {
			count[k] = 0
		}
		mu.Unlock()
		time.Sleep(d)
		mu.Lock()
		defer mu.Unlock()
		out := map[string]int{}
		for k, v := range count {
			out[k] = v
		}
		return out
	}
	steps := []specv{sp, {servers: []int{0, 1}, disabled: 0}, {servers: []int{0, 1}, disabled: -1}, {servers: []int{0, 1}, disabled: 1}, {servers: []int{1}, disabled: 1}, {servers: []int{0, 1}, disabled: -1}}
	for _, s := range steps {
		if err := cl.Sync(s.object()); err != nil {
			c.Violation("probing/sync-failed", err.Error(), nil)
			return
		}
		time.Sleep(60 * time.Millisecond) // grace: a probe already queued when the flag flips counts as in flight
		got := window(150 * time.Millisecond)
		c.Add("probe_states_checked", 1)
		for k := 0; k < 3; k++ {
			n := got[ep(k)]
			enabled := has(s.servers, k) && !s.dis(k)
			// a stopped loop can still deliver the probe in flight, the token buffered in its channel and one racing tick -
			// whatever the timing; a live loop delivers about 30 in the window
			if !enabled && n > 3 {
				c.Violation("probing/probes-continue", fmt.Sprintf("after %s endpoint %d (disabled or removed) was probed %d times in 150 ms (interval 5 ms; a stopped loop delivers at most 3)", s, k, n), s.String())
			}
			if enabled && n == 0 {
				// not a short wall-clock verdict: wait generously for the first probe before saying there is none
				deadline := time.Now().Add(20 * time.Second)
				for time.Now().Before(deadline) && n == 0 {
					time.Sleep(5 * time.Millisecond)
					mu.Lock()
					n = count[ep(k)]
					mu.Unlock()
				}
				if n == 0 {
					c.Violation("probing/probes-missing", fmt.Sprintf("after %s the enabled endpoint %d was not probed within 20 s (interval 5 ms)", s, k), s.String())
				}
			}
		}
	}
}

// triggered probes: besides its ticker an endpoint's probe loop is fed by TriggerHealthCheck (the proxy's error path
// calls it when a request to the endpoint fails). A disabled or removed endpoint must not be probed through that door
// either. Deterministic by construction: with a one-hour interval only the initial "probe at once" token exists; once
// that probe has been seen nothing is buffered and no ticker will fire, so after the disable NOTHING can probe a
// correctly stopped loop - any probe counted afterwards was sent to a disabled endpoint.
func triggeredProbes(c *ev.Check) {
	type step struct {
		spec   specv
		settle bool // wait for the probe(s) of (re-)enabled endpoints before going on
	}
	e01 := func(dis int) specv { return specv{servers: []int{0, 1}, disabled: dis} }
	scenarios := []struct {
		name   string
		create specv
		steps  []specv
		victim int
	}{
		{"enabled, then disabled", e01(-1), []specv{e01(0)}, 0},
		{"created disabled", e01(0), nil, 0},
		{"disabled, enabled, disabled again", e01(-1), []specv{e01(0), e01(-1), e01(0)}, 0},
		{"added disabled by an update", specv{servers: []int{1}, disabled: -1}, []specv{e01(0)}, 0},
		{"enabled, then both disabled", e01(-1), []specv{{servers: []int{0, 1}, disabled: 0, also: []int{1}}}, 1},
		{"enabled, then removed from the server list", e01(-1), []specv{{servers: []int{1}, disabled: -1}}, 0},
	}
	for _, sc := range scenarios {
		var mu sync.Mutex
		count := map[string]int{}
		check := func(e *clusters.EndpointInfo) bool {
			mu.Lock()
			count[e.Endpoint]++
			mu.Unlock()
			e.UpdateStatus(true, "", "")
			return true
		}
		get := func(k int) int {
			mu.Lock()
			defer mu.Unlock()
			return count[ep(k)]
		}
		// every endpoint that is enabled right now has been probed at least `floor` times: nothing is left buffered
		settle := func(sp specv, floor map[int]int) bool {
			deadline := time.Now().Add(20 * time.Second)
			for time.Now().Before(deadline) {
				ok := true
				for _, k := range sp.servers {
					if !sp.dis(k) && get(k) <= floor[k] {
						ok = false
					}
				}
				if ok {
					return true
				}
				time.Sleep(2 * time.Millisecond)
			}
			return false
		}
		boot, err := clusters.CreateClusterInfo(specv{servers: []int{2}, disabled: -1}.object(), check, "", nil)
		if err != nil {
			c.EngineError("triggered-probes: " + err.Error())
			return
		}
		boot.VerifSetHealthCheckInterval(time.Hour)
		cur := sc.create
		floor := map[int]int{}
		if err := boot.Sync(cur.object()); err != nil {
			c.EngineError("triggered-probes: " + err.Error())
			boot.Stop()
			return
		}
		okRig := settle(cur, floor)
		var victimInfo *clusters.EndpointInfo
		if info, ok := boot.Endpoints.Load(ep(sc.victim)); ok {
			victimInfo = info
		}
		for _, st := range sc.steps {
			for _, k := range cur.servers {
				floor[k] = get(k)
			}
			prev := cur
			cur = st
			if err := boot.Sync(cur.object()); err != nil {
				c.EngineError("triggered-probes: " + err.Error())
				okRig = false
				break
			}
			// endpoints that were just (re-)enabled probe at once: wait for that probe so nothing stays buffered
			re := specv{servers: nil, disabled: -1}
			for _, k := range cur.servers {
				if !cur.dis(k) && (prev.dis(k) || !has(prev.servers, k)) {
					re.servers = append(re.servers, k)
				}
			}
			okRig = okRig && settle(re, floor)
			if info, ok := boot.Endpoints.Load(ep(sc.victim)); ok {
				victimInfo = info
			}
		}
		if !okRig || victimInfo == nil {
			c.EngineError("triggered-probes [" + sc.name + "]: the rig's endpoints were not probed after being enabled; nothing can be concluded")
			boot.Stop()
			continue
		}
		// give a loop that was stopped while idle a moment to be gone, then knock on the door
		time.Sleep(20 * time.Millisecond)
		before := get(sc.victim)
		for i := 0; i < 3; i++ {
			victimInfo.TriggerHealthCheck()
			time.Sleep(40 * time.Millisecond)
		}
		after := get(sc.victim)
		c.Add("triggered_probe_scenarios", 1)
		c.Outcome("triggered", fmt.Sprintf("%s/%d", sc.name, after-before))
		if after != before {
			c.Violation("probing/disabled-endpoint-probed-on-trigger", fmt.Sprintf("[%s] endpoint %d is disabled/removed, yet %d health probe(s) were sent to it after TriggerHealthCheck (the proxy's error path calls it when a request to the endpoint fails)", sc.name, sc.victim, after-before), sc.name)
		}
		boot.Stop()
	}
}

// probe target: an endpoint's health is decided by probes that reach THAT endpoint - also after its transport was
// rebuilt (ResetTransport, what the real health check does after three hung probes) and whatever was added to the
// cluster afterwards. Real GatewayHealthCheck through the controller, stub API servers counting /healthz arrivals.
func probeTargets(c *ev.Check) {
	ctl := ctlrig.New()
	r := e2e.NewWithManager(ctl.C)
	ups := []*e2e.Upstream{e2e.NewUpstream("e1"), e2e.NewUpstream("e2"), e2e.NewUpstream("e3")}
	// e0 only exists so that the cluster can be created before the probe interval is set: e1..e3 join afterwards with
	// one-hour probe loops, so the only probes they ever get are the first one and the triggered ones (deterministic
	// arrival matching); e0's own 5 s loop probes e0's stub, which is not looked at
	e0 := e2e.NewUpstream("e0")
	defer func() {
		r.Close()
		e0.Close()
		for _, u := range ups {
			u.Close()
		}
	}()
	if _, err := ctl.Apply(e2e.ClusterObject("pt", e0)); err != nil {
		c.EngineError("probe-targets: " + err.Error())
		return
	}
	ci, _ := ctl.C.Get("pt")
	if ci == nil {
		c.EngineError("probe-targets: cluster not created")
		return
	}
	ci.VerifSetHealthCheckInterval(time.Hour)
	if _, err := ctl.Apply(e2e.ClusterObject("pt", e0, ups[0], ups[1])); err != nil {
		c.EngineError("probe-targets: " + err.Error())
		return
	}
	waitReady := func(us ...*e2e.Upstream) bool {
		deadline := time.Now().Add(20 * time.Second)
		for time.Now().Before(deadline) {
			ok := true
			for _, u := range us {
				info, found := ci.Endpoints.Load(u.URL())
				ok = ok && found && info.IsReady()
			}
			if ok {
				return true
			}
			time.Sleep(5 * time.Millisecond)
		}
		return false
	}
	if !waitReady(ups[0], ups[1]) {
		c.EngineError("probe-targets: the rig's cluster did not become ready")
		return
	}
	time.Sleep(50 * time.Millisecond) // the first probes have been answered; nothing else will probe e1..e3
	// one triggered probe of endpoint k must arrive at stub k and nowhere else
	probeOnce := func(stage string, k int) {
		info, ok := ci.Endpoints.Load(ups[k].URL())
		if !ok {
			c.EngineError("probe-targets: endpoint unknown")
			return
		}
		before := [3]int64{ups[0].ProbeCount(), ups[1].ProbeCount(), ups[2].ProbeCount()}
		info.TriggerHealthCheck()
		deadline := time.Now().Add(20 * time.Second)
		arrived := -1
		for time.Now().Before(deadline) && arrived < 0 {
			for i, u := range ups {
				if u.ProbeCount() > before[i] {
					arrived = i
				}
			}
			time.Sleep(2 * time.Millisecond)
		}
		c.Add("probe_target_cases", 1)
		c.Outcome("probe_targets", fmt.Sprintf("%s/e%d->e%d", stage, k+1, arrived+1))
		if arrived != k {
			c.Violation("probing/probe-sent-to-another-endpoint", fmt.Sprintf("[%s] a health probe of endpoint e%d arrived at e%d: e%d's health is then decided by another server's answers", stage, k+1, arrived+1, k+1), stage)
		}
	}
	probeOnce("fresh", 0)
	probeOnce("fresh", 1)
	for k := 0; k < 2; k++ {
		info, _ := ci.Endpoints.Load(ups[k].URL())
		if err := info.ResetTransport(); err != nil {
			c.EngineError("probe-targets: ResetTransport: " + err.Error())
			return
		}
		probeOnce(fmt.Sprintf("after resetting e%d's transport", k+1), 0)
		probeOnce(fmt.Sprintf("after resetting e%d's transport", k+1), 1)
	}
	// a third server joins, then the first one's transport is rebuilt again
	if _, err := ctl.Apply(e2e.ClusterObject("pt", e0, ups[0], ups[1], ups[2])); err != nil || !waitReady(ups[2]) {
		c.EngineError("probe-targets: adding e3 failed")
		return
	}
	time.Sleep(50 * time.Millisecond)
	info, _ := ci.Endpoints.Load(ups[0].URL())
	_ = info.ResetTransport()
	for k := 0; k < 3; k++ {
		probeOnce("after e3 joined and e1's transport was reset", k)
	}
	// and proxied traffic follows the same transports
	for _, u := range ups {
		u.Requests()
	}
	e0.Requests()
	for i := 0; i < 12; i++ {
		_, _, _ = r.Do("GET", "pt", "/api/v1/pods", nil, nil)
	}
	got := []int{len(e0.Requests())}
	for _, u := range ups {
		got = append(got, len(u.Requests()))
	}
	for k, n := range got {
		if n == 0 {
			c.Violation("probing/endpoint-without-traffic-after-reset", fmt.Sprintf("after the transport resets 12 requests over 4 ready endpoints were distributed %v: e%d received none", got, k), nil)
		}
	}
}

// probeOutcomes: "healthy" is what the endpoint's last probe said - with the real probe function (GatewayHealthCheck
// through the controller) and every way a probe can end: 200, 500, 404, no answer at all until the prober's own
// deadline, headers but never the whole body, connection refused, and recovery after each. After every probe the
// endpoint's readiness must be what that probe showed, and traffic must follow (no request at an unhealthy endpoint,
// the healthy one is served).
func probeOutcomes(c *ev.Check) {
	ctl := ctlrig.New()
	r := e2e.NewWithManager(ctl.C)
	e0, u := e2e.NewUpstream("e0"), e2e.NewUpstream("e1")
	defer func() {
		r.Close()
		e0.Close()
		u.Close()
	}()
	if _, err := ctl.Apply(e2e.ClusterObject("po", e0)); err != nil {
		c.EngineError("probe-outcomes: " + err.Error())
		return
	}
	ci, _ := ctl.C.Get("po")
	if ci == nil {
		c.EngineError("probe-outcomes: cluster not created")
		return
	}
	ci.VerifSetHealthCheckInterval(time.Hour) // e1 joins with a one-hour loop: after its first probe only triggered probes reach it
	if _, err := ctl.Apply(e2e.ClusterObject("po", e0, u)); err != nil {
		c.EngineError("probe-outcomes: " + err.Error())
		return
	}
	info, _ := ci.Endpoints.Load(u.URL())
	ready := func(want bool, d time.Duration) bool {
		deadline := time.Now().Add(d)
		for time.Now().Before(deadline) {
			if info.IsReady() == want {
				return true
			}
			time.Sleep(5 * time.Millisecond)
		}
		return info.IsReady() == want
	}
	i0, _ := ci.Endpoints.Load(e0.URL())
	for d := time.Now().Add(20 * time.Second); time.Now().Before(d) && !(info.IsReady() && i0.IsReady()); {
		time.Sleep(5 * time.Millisecond)
	}
	if !info.IsReady() || !i0.IsReady() {
		c.EngineError("probe-outcomes: the rig's cluster did not become ready")
		return
	}
	time.Sleep(50 * time.Millisecond)
	steps := []struct {
		mode string
		want bool
	}{{"500", false}, {"", true}, {"hang", false}, {"", true}, {"404", false}, {"", true}, {"slow-body", false}, {"", true}, {"refused", false}}
	for _, st := range steps {
		if st.mode == "refused" {
			u.Server.CloseClientConnections()
			u.Server.Listener.Close()
		} else {
			u.SetProbeMode(st.mode)
		}
		before := u.ProbeCount()
		info.TriggerHealthCheck()
		if st.mode != "refused" {
			for d := time.Now().Add(20 * time.Second); time.Now().Before(d) && u.ProbeCount() == before; {
				time.Sleep(2 * time.Millisecond)
			}
			if u.ProbeCount() == before {
				c.EngineError("probe-outcomes: the triggered probe never arrived")
				return
			}
		}
		label := map[string]string{"": "200 ok", "500": "500", "404": "404", "hang": "no answer until the prober gives up", "slow-body": "200 with a body that never completes", "refused": "connection refused"}[st.mode]
		c.Add("probe_outcome_cases", 1)
		// the probe's own deadline is 5 s; 30 s is a generous upper bound, not an oracle
		if !ready(st.want, 30*time.Second) {
			c.Violation("probing/probe-outcome-not-recorded", fmt.Sprintf("the endpoint's health probe ended with [%s]; 30 s later the endpoint is ready=%v (the probe showed ready=%v)", label, info.IsReady(), st.want), map[string]string{"probe_answer": st.mode})
			return
		}
		c.Outcome("probe_outcomes", fmt.Sprintf("%s->ready=%v", label, st.want))
		u.Requests()
		e0.Requests()
		for i := 0; i < 6; i++ {
			if resp, _, err := r.Do("GET", "po", "/api/v1/pods", nil, nil); err != nil || resp.StatusCode != 200 {
				code := 0
				if resp != nil {
					code = resp.StatusCode
				}
				c.Violation("probing/request-fails-beside-unhealthy-endpoint", fmt.Sprintf("after a probe of e1 ended with [%s] a request for the cluster (e0 is healthy) ended with status %d err %v", label, code, err), map[string]string{"probe_answer": st.mode})
				return
			}
		}
		n1, n0 := 0, len(e0.Requests())
		if st.mode != "refused" {
			n1 = len(u.Requests())
		}
		if !st.want && n1 > 0 {
			c.Violation("probing/unhealthy-endpoint-picked", fmt.Sprintf("after a probe of e1 ended with [%s] %d of 6 requests were forwarded to e1", label, n1), map[string]string{"probe_answer": st.mode})
		}
		if st.want && (n1 == 0 || n0 == 0) {
			c.Violation("probing/healthy-endpoint-not-served", fmt.Sprintf("after a probe of e1 ended with [%s] 6 requests were distributed e0=%d e1=%d", label, n0, n1), map[string]string{"probe_answer": st.mode})
		}
	}
}

// probeOrder: the endpoint's health is what its LAST probe said - also when a probe is slow. A probe that will be
// answered 200 after 1.5 s is under way; a second probe is triggered (the proxy error path does that) and the
// upstream answers it 500 at once. When both are done the endpoint is not ready: the later probe said so.
func probeOrder(c *ev.Check) {
	ctl := ctlrig.New()
	r := e2e.NewWithManager(ctl.C)
	e0, u := e2e.NewUpstream("e0"), e2e.NewUpstream("e1")
	defer func() {
		r.Close()
		e0.Close()
		u.Close()
	}()
	if _, err := ctl.Apply(e2e.ClusterObject("pq", e0)); err != nil {
		c.EngineError("probe-order: " + err.Error())
		return
	}
	ci, _ := ctl.C.Get("pq")
	if ci == nil {
		c.EngineError("probe-order: cluster not created")
		return
	}
	ci.VerifSetHealthCheckInterval(time.Hour)
	if _, err := ctl.Apply(e2e.ClusterObject("pq", e0, u)); err != nil {
		c.EngineError("probe-order: " + err.Error())
		return
	}
	info, _ := ci.Endpoints.Load(u.URL())
	for d := time.Now().Add(20 * time.Second); time.Now().Before(d) && !info.IsReady(); {
		time.Sleep(5 * time.Millisecond)
	}
	if !info.IsReady() {
		c.EngineError("probe-order: the endpoint did not become ready")
		return
	}
	time.Sleep(50 * time.Millisecond)
	waitProbes := func(n int64) bool {
		for d := time.Now().Add(30 * time.Second); time.Now().Before(d); time.Sleep(2 * time.Millisecond) {
			if u.ProbeCount() >= n {
				return true
			}
		}
		return false
	}
	base := u.ProbeCount()
	u.SetProbeMode("slow-ok")
	info.TriggerHealthCheck()
	if !waitProbes(base + 1) {
		c.EngineError("probe-order: the first triggered probe never arrived")
		return
	}
	u.SetProbeMode("500")
	info.TriggerHealthCheck()
	if !waitProbes(base + 2) {
		c.EngineError("probe-order: the second triggered probe never arrived")
		return
	}
	time.Sleep(2 * time.Second) // both answers are in by now (1.5 s for the slow one)
	c.Add("probe_order_cases", 1)
	if info.IsReady() {
		c.Violation("probing/stale-probe-outcome-recorded-last", "a probe that was answered 200 after 1.5 s was under way when a second probe was sent and answered 500 at once; with both finished the endpoint is ready - the outcome of the earlier probe was recorded over that of the later one", nil)
	}
}

// ------------------------------------------------------------------ engine A

type obsA struct {
	picked            int // -1 error
	popCall, popRet   int
	flipCall, flipRet int
}

func harnessA(c *ev.Check, kind string, bound int) xa.Harness {
	name := "pick-vs-" + kind
	body := func() interface{} {
		var ci *clusters.ClusterInfo
		sp := specv{servers: []int{0, 1}, disabled: -1, subset: []int{0, 1}}
		vsched.Passthrough(func() {
			var err error
			ci, err = clusters.CreateClusterInfo(sp.object(), func(*clusters.EndpointInfo) bool { return true }, "", nil)
			if err != nil {
				panic(err)
			}
			for _, k := range sp.servers {
				info, _ := ci.Endpoints.Load(ep(k))
				info.UpdateStatus(true, "", "")
			}
			// endpoint 1 is made unready first so that the pick can only return endpoint 0, the one that is flipped
			info, _ := ci.Endpoints.Load(ep(1))
			info.UpdateStatus(false, "Failure", "down")
		})
		clk := 0
		o := &obsA{picked: -2}
		picker, _ := ci.MatchAttributes(attrs)
		vsched.GoNamed("pick", func() {
			clk++
			o.popCall = clk
			e, err := picker.Pop()
			clk++
			o.popRet = clk
			o.picked = -1
			if err == nil {
				o.picked = epIndex(e.Endpoint)
			}
			vsched.Logf("picked %d", o.picked)
		})
		vsched.GoNamed("flip", func() {
			clk++
			o.flipCall = clk
			switch kind {
			case "disable":
				d := sp
				d.disabled = 0
				_ = ci.Sync(d.object())
			case "unhealthy":
				info, _ := ci.Endpoints.Load(ep(0))
				info.UpdateStatus(false, "Failure", "down")
			case "remove":
				d := specv{servers: []int{1}, disabled: -1, subset: []int{1}}
				_ = ci.Sync(d.object())
			}
			clk++
			o.flipRet = clk
			vsched.Logf("flipped")
		})
		vsched.Join()
		vsched.Passthrough(func() { ci.Stop() })
		return o
	}
	check := func(x *vsched.Exec) error {
		o := x.Obs.(*obsA)
		c.Outcome("pick_race_outcomes", fmt.Sprint(name, o.picked, o.flipRet < o.popCall))
		if o.picked == 0 && o.flipRet < o.popCall {
			return fmt.Errorf("picked-after-%s: the endpoint was made ineligible (%s) before the pick started, yet it was picked", kind, kind)
		}
		if o.picked == -1 && o.popRet < o.flipCall {
			return fmt.Errorf("refused-although-ready: the pick finished before the endpoint was made ineligible, yet it failed")
		}
		return nil
	}
	return xa.Harness{Name: name, Bound: bound, Shards: 1, Horizon: 20000, Body: body, Check: check}
}

// a whole request (match, then pick) racing a Sync that removes the old policy's only endpoint and moves the subset:
// inside Sync the endpoints change before the policies do, so the request can meet the OLD policy (subset {0}) with
// the NEW endpoints ({1,2}). Whatever it meets, endpoint 2 is in neither policy's subset and must never get it.
func harnessMatchVsSubsetMove(c *ev.Check, bound int) xa.Harness {
	name := "request-vs-subset-move"
	body := func() interface{} {
		var ci *clusters.ClusterInfo
		sp := specv{servers: []int{0, 1, 2}, disabled: -1, subset: []int{0}}
		vsched.Passthrough(func() {
			var err error
			ci, err = clusters.CreateClusterInfo(sp.object(), func(*clusters.EndpointInfo) bool { return true }, "", nil)
			if err != nil {
				panic(err)
			}
			for _, k := range sp.servers {
				info, _ := ci.Endpoints.Load(ep(k))
				info.UpdateStatus(true, "", "")
			}
		})
		clk := 0
		o := &obsA{picked: -2}
		vsched.GoNamed("request", func() {
			clk++
			o.popCall = clk
			o.picked = -1
			if picker, err := ci.MatchAttributes(attrs); err == nil {
				if e, err := picker.Pop(); err == nil {
					o.picked = epIndex(e.Endpoint)
				}
			}
			clk++
			o.popRet = clk
			vsched.Logf("picked %d", o.picked)
		})
		vsched.GoNamed("sync", func() {
			clk++
			o.flipCall = clk
			d := specv{servers: []int{1, 2}, disabled: -1, subset: []int{1}}
			vsched.Passthrough(func() {}) // (keeps the shape of the other harnesses: the Sync itself runs under the scheduler)
			_ = ci.Sync(d.object())
			// endpoints start unhealthy when (re-)added; 1 and 2 were present before and keep their health
			clk++
			o.flipRet = clk
			vsched.Logf("synced")
		})
		vsched.Join()
		vsched.Passthrough(func() { ci.Stop() })
		return o
	}
	check := func(x *vsched.Exec) error {
		o := x.Obs.(*obsA)
		c.Outcome("pick_race_outcomes", fmt.Sprint(name, o.picked, o.flipRet < o.popCall))
		if o.picked == 2 {
			return fmt.Errorf("picked-outside-every-subset: the old policy lists endpoint 0, the new one endpoint 1; the request was forwarded to endpoint 2, which no policy of this cluster ever allowed")
		}
		if o.picked == 0 && o.flipRet < o.popCall {
			return fmt.Errorf("picked-after-remove: endpoint 0 was removed before the request started, yet it was picked")
		}
		if o.picked == -1 && o.popRet < o.flipCall {
			return fmt.Errorf("refused-although-ready: the request finished before the update started, yet it failed")
		}
		return nil
	}
	return xa.Harness{Name: name, Bound: bound, Shards: 1, Horizon: 20000, Body: body, Check: check}
}

func harnesses(c *ev.Check, b int) []xa.Harness {
	return []xa.Harness{harnessA(c, "disable", b), harnessA(c, "unhealthy", b), harnessA(c, "remove", b), harnessMatchVsSubsetMove(c, b)}
}

// ------------------------------------------------------------------ free-running stress: the request path never panics

func stress(c *ev.Check, d time.Duration) {
	runtime.GOMAXPROCS(4)
	sp := specv{servers: []int{0, 1}, disabled: -1}
	ci, err := clusters.CreateClusterInfo(sp.object(), func(*clusters.EndpointInfo) bool { return true }, "", nil)
	if err != nil {
		return
	}
	defer ci.Stop()
	var stop int32
	var iters int64
	var panics []string
	var mu sync.Mutex
	var wg sync.WaitGroup
	for w := 0; w < 2; w++ {
		wg.Add(1)
		go func() {
			defer wg.Done()
			for atomic.LoadInt32(&stop) == 0 {
				if p := kit.TryShort(func() {
					pk, err := ci.MatchAttributes(attrs)
					if err == nil {
						_, _ = pk.Pop()
					}
				}); p != "" {
					mu.Lock()
					panics = append(panics, p)
					mu.Unlock()
				}
				atomic.AddInt64(&iters, 1)
			}
		}()
	}
	wg.Add(1)
	go func() {
		defer wg.Done()
		msgs := []string{"", "probe failed: connection refused", strings.Repeat("timeout ", 12)}
		for i := 0; atomic.LoadInt32(&stop) == 0; i++ {
			for _, k := range sp.servers {
				info, _ := ci.Endpoints.Load(ep(k))
				info.UpdateStatus(false, []string{"Failure", "Timeout", "NotReady"}[i%3], msgs[i%3])
			}
		}
	}()
	time.Sleep(d)
	atomic.StoreInt32(&stop, 1)
	wg.Wait()
	c.Add("stress_iterations", atomic.LoadInt64(&iters))
	if len(panics) > 0 {
		c.Violation("request-path-panics", fmt.Sprintf("picking an endpoint while probe results are recorded panicked %d times in %d picks: %s", len(panics), iters, panics[0]), nil)
	}
}

var _ = http.StatusOK

func main() {
	c := ev.Start("C03", "model_checking")
	c.Assume = []string{
		"probe outcomes are delivered by calling EndpointInfo.UpdateStatus (what GatewayHealthCheck does); the health-check callback given to the cluster only counts probes; a request is split into its two steps (MatchAttributes, then Pop) so that updates can fall in between, as they can in the dispatcher",
		"'probing stops for a disabled endpoint' is decided on state (a health-check loop is installed iff the endpoint is present and enabled, read through an add-only hook) in every state of the search, and confirmed on the real probe loop with a 5 ms interval under generous wall-clock bounds (probe_states_checked)",
		"engine A: clusterinfo.go and endpoint.go instrumented, statement-level points in Pop and syncEndpoints; the free-running stress of the request path is supporting evidence only (it can show a panic, it cannot show absence)",
	}
	if c.ReplayFile() != "" {
		xstate.ReplayIfAsked(c, []xstate.Spec{specB()})
		xa.ReplayIfAsked(c, harnesses(c, 0))
	}
	var tasks []ev.Task
	tasks = append(tasks, xstate.Tasks(c, specB(), c.Pick(4, 5), 16)...)
	tasks = append(tasks, ev.Task{Name: "through-the-handler-chain", Run: func() { throughChain(c) }})
	tasks = append(tasks, ev.Task{Name: "probing", Run: func() { probing(c) }})
	tasks = append(tasks, ev.Task{Name: "triggered-probes", Run: func() { triggeredProbes(c) }})
	tasks = append(tasks, ev.Task{Name: "probe-targets", Run: func() { probeTargets(c) }})
	tasks = append(tasks, ev.Task{Name: "probe-outcomes", Run: func() { probeOutcomes(c) }})
	tasks = append(tasks, ev.Task{Name: "probe-order", Run: func() { probeOrder(c) }})
	tasks = append(tasks, ev.Task{Name: "stress", Run: func() { stress(c, time.Duration(c.Pick(1500, 6000))*time.Millisecond) }})
	bounds := []int{0, 1, 2}
	if c.Thorough() {
		bounds = []int{0, 1, 2, 3}
	}
	for _, b := range bounds {
		for _, h := range harnesses(c, b) {
			tasks = append(tasks, xa.Tasks(c, h)...)
		}
	}
	c.RunTasks(tasks)
	c.Finish(map[string]interface{}{
		"states":                        c.Counter("states") + c.Counter("choice_points"),
		"transitions":                   c.Counter("transitions") + c.Counter("steps"),
		"traces_validated_against_impl": c.Counter("replays") + c.Counter("schedules") + c.Counter("chain_cases"),
	})
}
