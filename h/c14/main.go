// C14 — round-robin: ready endpoints of a policy share its traffic evenly.
//
//	B (xstate): pick / readiness-flip histories on a real ClusterInfo with an
//	  explicit upstream subset (strict round-robin in every stable window), and
//	  the no-subset case in which the iteration order of the endpoint map is an
//	  enumerated choice (bounded deviation, BFS to a fixpoint).
//	A (vsched): concurrent pickers on the instrumented clusterinfo.go, every
//	  interleaving up to a preemption bound.
package main

import (
	"fmt"
	"sort"
	"strings"

	"k8s.io/apiserver/pkg/authentication/user"
	"k8s.io/apiserver/pkg/authorization/authorizer"

	proxyv1alpha1 "github.com/kubewharf/kubegateway/pkg/apis/proxy/v1alpha1"
	"github.com/kubewharf/kubegateway/pkg/clusters"
	"github.com/kubewharf/kubegateway/pkg/zzverif/vsched"
	"github.com/kubewharf/kubegateway/pkg/zzverif/vsync"

	"verifh/ev"
	"verifh/kit"
	"verifh/xa"
	"verifh/xstate"
)

var attrs = authorizer.AttributesRecord{User: &user.DefaultInfo{Name: "alice"}, Verb: "get", Resource: "pods", ResourceRequest: true}

func epName(i int) string { return fmt.Sprintf("http://127.0.0.1:%d", 1001+i) }

// mkCluster builds a real ClusterInfo with n endpoints (all healthy, enabled)
// and one catch-all policy; subset=true lists the endpoints explicitly.
func mkCluster(n int, subset bool) *clusters.ClusterInfo {
	var servers []proxyv1alpha1.UpstreamClusterServer
	var names []string
	for i := 0; i < n; i++ {
		servers = append(servers, proxyv1alpha1.UpstreamClusterServer{Endpoint: epName(i)})
		names = append(names, epName(i))
	}
	pol := proxyv1alpha1.DispatchPolicy{Rules: []proxyv1alpha1.DispatchPolicyRule{{Verbs: []string{"*"}, APIGroups: []string{"*"}, Resources: []string{"*"}, NonResourceURLs: []string{"*"}}}}
	if subset {
		pol.UpstreamSubset = names
	}
	ci := kit.NewClusterInfo("c14", servers, []proxyv1alpha1.DispatchPolicy{pol})
	for _, nme := range names {
		e, _ := ci.Endpoints.Load(nme)
		e.UpdateStatus(true, "", "")
	}
	return ci
}

func pick(ci *clusters.ClusterInfo) (int, error) {
	p, err := ci.MatchAttributes(attrs)
	if err != nil {
		return -1, err
	}
	e, err := p.Pop()
	if err != nil {
		return -1, err
	}
	var i int
	fmt.Sscanf(e.Endpoint, "http://127.0.0.1:%d", &i)
	return i - 1001, nil
}

// ------------------------------------------------------------------ engine B, subset case

type sysSub struct {
	ci    *clusters.ClusterInfo
	n     int
	ready []bool
	// picks of the current stable window
	window []int
}

func balanced(window []int, ready []bool) error {
	k := 0
	for _, r := range ready {
		if r {
			k++
		}
	}
	if k == 0 {
		return nil
	}
	// every sub-window of consecutive picks
	for i := 0; i < len(window); i++ {
		cnt := map[int]int{}
		for j := i; j < len(window); j++ {
			cnt[window[j]]++
			N := j - i + 1
			lo, hi := N/k, (N+k-1)/k
			for e, r := range ready {
				if !r {
					continue
				}
				if cnt[e] < lo || cnt[e] > hi {
					return fmt.Errorf("uneven-strict: with ready set %v the %d consecutive picks %v chose endpoint %d %d times (allowed %d..%d)", ready, N, window[i:j+1], e, cnt[e], lo, hi)
				}
			}
		}
	}
	return nil
}

func specSubset(n int) xstate.Spec { return specSubsetVia(n, "health") }

// objectWith: n servers, the subset lists them all, some carry `disabled: true`
func objectWith(n int, disabled []bool) *proxyv1alpha1.UpstreamCluster {
	var servers []proxyv1alpha1.UpstreamClusterServer
	var names []string
	for i := 0; i < n; i++ {
		sv := proxyv1alpha1.UpstreamClusterServer{Endpoint: epName(i)}
		if disabled[i] {
			yes := true
			sv.Disabled = &yes
		}
		servers = append(servers, sv)
		names = append(names, epName(i))
	}
	pol := proxyv1alpha1.DispatchPolicy{UpstreamSubset: names, Rules: []proxyv1alpha1.DispatchPolicyRule{{Verbs: []string{"*"}, APIGroups: []string{"*"}, Resources: []string{"*"}, NonResourceURLs: []string{"*"}}}}
	return kit.Upstream("c14", servers, []proxyv1alpha1.DispatchPolicy{pol})
}

// specSubsetVia: how an endpoint leaves and re-enters the ready set - "health" (probe results) or "disabled-flag" (the
// operator sets / clears `disabled: true` on a server that the subset keeps listing; applied by Sync)
func specSubsetVia(n int, via string) xstate.Spec {
	name := fmt.Sprintf("subset-k%d", n)
	if via != "health" {
		name += "-" + via
	}
	return xstate.Spec{
		Name: name,
		New: func() interface{} {
			s := &sysSub{ci: mkCluster(n, true), n: n, ready: make([]bool, n)}
			for i := range s.ready {
				s.ready[i] = true
			}
			return s
		},
		Events: func(s interface{}) []string {
			evs := []string{"pick"}
			for i := 0; i < n; i++ {
				evs = append(evs, fmt.Sprintf("flip %d", i))
			}
			return evs
		},
		Apply: func(si interface{}, e string) error {
			s := si.(*sysSub)
			if strings.HasPrefix(e, "flip") {
				var i int
				fmt.Sscanf(e, "flip %d", &i)
				s.ready[i] = !s.ready[i]
				if via == "disabled-flag" {
					dis := make([]bool, n)
					for k, r := range s.ready {
						dis[k] = !r
					}
					if err := s.ci.Sync(objectWith(n, dis)); err != nil {
						return fmt.Errorf("sync-failed: %v", err)
					}
					s.window = nil
					return nil
				}
				ep, _ := s.ci.Endpoints.Load(epName(i))
				ep.UpdateStatus(s.ready[i], "", "")
				s.window = nil
				return nil
			}
			got, err := pick(s.ci)
			k := 0
			for _, r := range s.ready {
				if r {
					k++
				}
			}
			if k == 0 {
				if err == nil {
					return fmt.Errorf("picked-unready: no endpoint is ready but endpoint %d was picked", got)
				}
				return nil
			}
			if err != nil {
				return fmt.Errorf("pick-failed: %d endpoints ready but pick failed: %v", k, err)
			}
			if !s.ready[got] {
				return fmt.Errorf("picked-unready: endpoint %d is not ready (ready=%v)", got, s.ready)
			}
			s.window = append(s.window, got)
			return balanced(s.window, s.ready)
		},
		Canon: func(si interface{}) string {
			s := si.(*sysSub)
			// cursors of every ready-set ordering that can occur with an explicit subset (subset order restricted to ready ones)
			var cur []string
			for mask := 1; mask < 1<<uint(n); mask++ {
				var order []string
				for i := 0; i < n; i++ {
					if mask&(1<<uint(i)) != 0 {
						order = append(order, epName(i))
					}
				}
				if v, ok := s.ci.VerifCursor(order); ok {
					cur = append(cur, fmt.Sprintf("%d:%d", mask, v%uint64(len(order))))
				}
			}
			// the window matters only through its per-endpoint counts relative to the minimum and its length mod k... keep it exact but short
			w := s.window
			if len(w) > 2*n {
				w = w[len(w)-2*n:]
			}
			return fmt.Sprint(s.ready, cur, w)
		},
		Close: func(si interface{}) { si.(*sysSub).ci.Stop() },
	}
}

// specResync: the strict case with UpstreamCluster events that touch neither the policy's endpoints nor their
// readiness delivered between picks - the same object again (informer resync), a logging switch, a flow-control
// edit - on a cluster that also has a disabled server outside the subset. The policy's ready set is stable across
// them, so the window of consecutive picks runs across them.
func specResync() xstate.Spec {
	const n = 2
	type sysR struct {
		sysSub
		obj  *proxyv1alpha1.UpstreamCluster
		tick int
	}
	build := func(tick int) *proxyv1alpha1.UpstreamCluster {
		yes := true
		servers := []proxyv1alpha1.UpstreamClusterServer{{Endpoint: epName(0)}, {Endpoint: epName(1)}, {Endpoint: epName(2), Disabled: &yes}}
		pol := proxyv1alpha1.DispatchPolicy{UpstreamSubset: []string{epName(0), epName(1)}, Rules: []proxyv1alpha1.DispatchPolicyRule{{Verbs: []string{"*"}, APIGroups: []string{"*"}, Resources: []string{"*"}, NonResourceURLs: []string{"*"}}}}
		o := kit.Upstream("c14", servers, []proxyv1alpha1.DispatchPolicy{pol})
		if tick%2 == 1 {
			o.Spec.Logging.Mode = proxyv1alpha1.LogOn
		}
		if tick/2%2 == 1 {
			o.Spec.FlowControl.Schemas = []proxyv1alpha1.FlowControlSchema{{Name: "extra", FlowControlSchemaConfiguration: proxyv1alpha1.FlowControlSchemaConfiguration{Exempt: &proxyv1alpha1.ExemptFlowControlSchema{}}}}
		}
		return o
	}
	return xstate.Spec{
		Name: "subset-k2-with-unrelated-syncs",
		New: func() interface{} {
			s := &sysR{obj: build(0)}
			ci, err := clusters.CreateClusterInfo(s.obj, kit.NoopCheck, "", nil)
			if err != nil {
				panic(err)
			}
			s.ci, s.n, s.ready = ci, n, []bool{true, true}
			for i := 0; i < n; i++ {
				e, _ := ci.Endpoints.Load(epName(i))
				e.UpdateStatus(true, "", "")
			}
			return s
		},
		Events: func(interface{}) []string {
			return []string{"pick", "flip 0", "flip 1", "resync", "sync-logging", "sync-flowcontrol"}
		},
		Apply: func(si interface{}, e string) error {
			s := si.(*sysR)
			switch {
			case strings.HasPrefix(e, "flip"):
				var i int
				fmt.Sscanf(e, "flip %d", &i)
				s.ready[i] = !s.ready[i]
				ep, _ := s.ci.Endpoints.Load(epName(i))
				ep.UpdateStatus(s.ready[i], "", "")
				s.window = nil
				return nil
			case e == "resync" || e == "sync-logging" || e == "sync-flowcontrol":
				if e == "sync-logging" {
					s.tick ^= 1
				}
				if e == "sync-flowcontrol" {
					s.tick ^= 2
				}
				s.obj = build(s.tick)
				if err := s.ci.Sync(s.obj); err != nil {
					return fmt.Errorf("sync-failed: %v", err)
				}
				// an endpoint keeps its health across a Sync that does not touch it
				for i := 0; i < n; i++ {
					ep, _ := s.ci.Endpoints.Load(epName(i))
					if ep == nil || ep.IsReady() != s.ready[i] {
						return fmt.Errorf("readiness-changed-by-unrelated-sync: endpoint %d ready=%v expected %v after %s", i, ep != nil && ep.IsReady(), s.ready[i], e)
					}
				}
				return nil // the policy's ready set is unchanged: the window goes on
			}
			got, err := pick(s.ci)
			k := 0
			for _, r := range s.ready {
				if r {
					k++
				}
			}
			if k == 0 {
				if err == nil {
					return fmt.Errorf("picked-unready: no endpoint is ready but endpoint %d was picked", got)
				}
				return nil
			}
			if err != nil {
				return fmt.Errorf("pick-failed: %d endpoints ready but pick failed: %v", k, err)
			}
			if got >= n || !s.ready[got] {
				return fmt.Errorf("picked-unready: endpoint %d is not a ready endpoint of the subset (ready=%v)", got, s.ready)
			}
			s.window = append(s.window, got)
			return balanced(s.window, s.ready)
		},
		Canon: func(si interface{}) string {
			s := si.(*sysR)
			var cur []string
			for mask := 1; mask < 1<<uint(n); mask++ {
				var order []string
				for i := 0; i < n; i++ {
					if mask&(1<<uint(i)) != 0 {
						order = append(order, epName(i))
					}
				}
				if v, ok := s.ci.VerifCursor(order); ok {
					cur = append(cur, fmt.Sprintf("%d:%d", mask, v%uint64(len(order))))
				}
			}
			w := s.window
			if len(w) > 2*n {
				w = w[len(w)-2*n:]
			}
			return fmt.Sprint(s.ready, cur, w, s.tick)
		},
		Close: func(si interface{}) { si.(*sysR).ci.Stop() },
	}
}

// manyPolicies: scale is an input too. One strict policy (subset {e0,e1}) is observed while the same cluster serves
// many other policies with other subsets (each keeps a cursor of its own): whatever the number of the others and
// however their picks fall between the observed ones, the observed policy's consecutive picks stay strictly balanced.
func manyPolicies(c *ev.Check) {
	const nEP = 8
	for _, others := range []int{1, 20, 70, 150} {
		var servers []proxyv1alpha1.UpstreamClusterServer
		for i := 0; i < nEP; i++ {
			servers = append(servers, proxyv1alpha1.UpstreamClusterServer{Endpoint: epName(i)})
		}
		rule := func(res string) []proxyv1alpha1.DispatchPolicyRule {
			return []proxyv1alpha1.DispatchPolicyRule{{Verbs: []string{"*"}, APIGroups: []string{"*"}, Resources: []string{res}}}
		}
		pols := []proxyv1alpha1.DispatchPolicy{{UpstreamSubset: []string{epName(0), epName(1)}, Rules: rule("observed")}}
		// distinct subsets of size >= 2 over e2..e7 and mixed ones, in a fixed order
		var subsets [][]string
		for mask := 3; mask < 1<<nEP && len(subsets) < others; mask++ {
			var sub []string
			for i := 0; i < nEP; i++ {
				if mask&(1<<uint(i)) != 0 {
					sub = append(sub, epName(i))
				}
			}
			if len(sub) >= 2 && !(len(sub) == 2 && sub[0] == epName(0) && sub[1] == epName(1)) {
				subsets = append(subsets, sub)
			}
		}
		for i, sub := range subsets {
			pols = append(pols, proxyv1alpha1.DispatchPolicy{UpstreamSubset: sub, Rules: rule(fmt.Sprintf("r%d", i))})
		}
		ci := kit.NewClusterInfo("c14", servers, pols)
		for i := 0; i < nEP; i++ {
			e, _ := ci.Endpoints.Load(epName(i))
			e.UpdateStatus(true, "", "")
		}
		pickFor := func(res string) (int, error) {
			p, err := ci.MatchAttributes(authorizer.AttributesRecord{User: &user.DefaultInfo{Name: "alice"}, Verb: "get", Resource: res, ResourceRequest: true})
			if err != nil {
				return -1, err
			}
			e, err := p.Pop()
			if err != nil {
				return -1, err
			}
			var i int
			fmt.Sscanf(e.Endpoint, "http://127.0.0.1:%d", &i)
			return i - 1001, nil
		}
		var window []int
		bad := false
		for round := 0; round < 6 && !bad; round++ {
			// between two observed picks: all the others once (rounds 0-2), a growing prefix of them (rounds 3-5)
			got, err := pickFor("observed")
			if err != nil {
				c.EngineError("many-policies: " + err.Error())
				break
			}
			window = append(window, got)
			n := len(subsets)
			if round >= 3 {
				n = n * (round - 2) / 4
			}
			for i := 0; i < n; i++ {
				_, _ = pickFor(fmt.Sprintf("r%d", i))
			}
			if err := balanced(window, []bool{true, true}); err != nil {
				c.Violation("many-policies/uneven-strict", fmt.Sprintf("a strict policy over {e0,e1} on a cluster that serves %d other policies with other subsets: its consecutive picks %v are not balanced (%v)", others, window, err), map[string]interface{}{"other_policies": others})
				bad = true
			}
		}
		c.Add("many_policy_runs", 1)
		c.Outcome("many_policies", fmt.Sprintf("%d/%v", others, window))
		ci.Stop()
	}
}

// ------------------------------------------------------------------ engine B, no-subset case (map order is a choice)

type sysAll struct {
	ci     *clusters.ClusterInfo
	n      int
	counts []int
	total  int
	order  int // next Range permutation (set by the event before the pick)
}

func fact(n int) int {
	r := 1
	for i := 2; i <= n; i++ {
		r *= i
	}
	return r
}

func specAll(n int) xstate.Spec {
	bound := fact(n) // one strict cursor per ordering: each ordering contributes at most 1 to the deviation
	return xstate.Spec{
		Name: fmt.Sprintf("allendpoints-k%d", n),
		New: func() interface{} {
			s := &sysAll{ci: mkCluster(n, false), n: n, counts: make([]int, n)}
			return s
		},
		Events: func(si interface{}) []string {
			var evs []string
			for o := 0; o < fact(n); o++ {
				evs = append(evs, fmt.Sprintf("pick order=%d", o))
			}
			return evs
		},
		Apply: func(si interface{}, e string) error {
			s := si.(*sysAll)
			fmt.Sscanf(e, "pick order=%d", &s.order)
			vsync.RangeOrderChoice = true
			vsync.RangeChooser = func(k int) int { return s.order % k }
			got, err := pick(s.ci)
			vsync.RangeOrderChoice = false
			if err != nil {
				return fmt.Errorf("pick-failed: all %d endpoints ready but pick failed: %v", n, err)
			}
			s.counts[got]++
			s.total++
			for i, c := range s.counts {
				dev := float64(c) - float64(s.total)/float64(n)
				if dev > float64(bound) || dev < -float64(bound) {
					return fmt.Errorf("unbounded-deviation: after %d picks endpoint %d was chosen %d times (N/k=%.2f, allowed deviation %d) counts=%v", s.total, i, c, float64(s.total)/float64(n), bound, s.counts)
				}
			}
			return nil
		},
		Canon: func(si interface{}) string {
			s := si.(*sysAll)
			min := s.counts[0]
			for _, c := range s.counts {
				if c < min {
					min = c
				}
			}
			var rel []int
			for _, c := range s.counts {
				rel = append(rel, c-min)
			}
			// cursors of every ordering of all endpoints, mod k
			var cur []string
			names := make([]string, n)
			for i := range names {
				names[i] = epName(i)
			}
			permute(names, func(p []string) {
				if v, ok := s.ci.VerifCursor(p); ok {
					cur = append(cur, fmt.Sprintf("%s=%d", short(p), v%uint64(n)))
				}
			})
			sort.Strings(cur)
			return fmt.Sprint(rel, s.total%n, cur)
		},
		Close: func(si interface{}) { si.(*sysAll).ci.Stop() },
	}
}

func short(p []string) string {
	var s []string
	for _, x := range p {
		s = append(s, x[len(x)-1:])
	}
	return strings.Join(s, "")
}

func permute(a []string, f func([]string)) {
	var rec func(i int)
	rec = func(i int) {
		if i == len(a) {
			f(append([]string{}, a...))
			return
		}
		for j := i; j < len(a); j++ {
			a[i], a[j] = a[j], a[i]
			rec(i + 1)
			a[i], a[j] = a[j], a[i]
		}
	}
	rec(0)
}

// ------------------------------------------------------------------ engine A: concurrent pickers

type obsA struct {
	counts []int
	errs   int
}

func harnessA(c *ev.Check, k, threads, picksEach, unready, bound, shards int) xa.Harness {
	name := fmt.Sprintf("pickers-k%d-t%d-p%d-unready%d", k, threads, picksEach, unready)
	body := func() interface{} {
		var ci *clusters.ClusterInfo
		vsched.Passthrough(func() {
			ci = mkCluster(k, true)
			for i := 0; i < unready; i++ {
				e, _ := ci.Endpoints.Load(epName(i))
				e.UpdateStatus(false, "x", "")
			}
		})
		o := &obsA{counts: make([]int, k)}
		for t := 0; t < threads; t++ {
			vsched.GoNamed(fmt.Sprintf("P%d", t+1), func() {
				for i := 0; i < picksEach; i++ {
					got, err := pick(ci)
					if err != nil {
						o.errs++
						continue
					}
					o.counts[got]++
					vsched.Logf("picked %d", got)
				}
			})
		}
		vsched.Join()
		vsched.Passthrough(func() { ci.Stop() })
		return o
	}
	check := func(x *vsched.Exec) error {
		o := x.Obs.(*obsA)
		c.Outcome("pick_distributions", name+fmt.Sprint(o.counts))
		c.Outcome("pick_orders", name+strings.Join(x.Log, ","))
		if o.errs > 0 {
			return fmt.Errorf("pick-failed: %d picks failed although %d endpoints are ready", o.errs, k-unready)
		}
		N := threads * picksEach
		kr := k - unready
		lo, hi := N/kr, (N+kr-1)/kr
		for i, cnt := range o.counts {
			if i < unready {
				if cnt != 0 {
					return fmt.Errorf("picked-unready: unready endpoint %d picked %d times", i, cnt)
				}
				continue
			}
			if cnt < lo || cnt > hi {
				return fmt.Errorf("uneven-concurrent: %d concurrent picks over %d ready endpoints were distributed %v (each must get %d..%d)", N, kr, o.counts[unready:], lo, hi)
			}
		}
		return nil
	}
	return xa.Harness{Name: name, Bound: bound, Shards: shards, Horizon: 20000, Body: body, Check: check}
}

// harnessSync: picks racing an update that ADDS a server (the policy has no subset, or its subset grows with the
// list). Whatever the picks meet inside the non-atomic update, once the update is complete and the new endpoint is
// ready the following picks are shared between all ready endpoints - a new server must not be left out.
func harnessSync(c *ev.Check, subset bool, picks, bound, shards int) xa.Harness {
	name := fmt.Sprintf("picks-vs-server-added-subset%v-p%d", subset, picks)
	object := func(n int) *proxyv1alpha1.UpstreamCluster {
		var servers []proxyv1alpha1.UpstreamClusterServer
		var names []string
		for i := 0; i < n; i++ {
			servers = append(servers, proxyv1alpha1.UpstreamClusterServer{Endpoint: epName(i)})
			names = append(names, epName(i))
		}
		pol := proxyv1alpha1.DispatchPolicy{Rules: []proxyv1alpha1.DispatchPolicyRule{{Verbs: []string{"*"}, APIGroups: []string{"*"}, Resources: []string{"*"}, NonResourceURLs: []string{"*"}}}}
		if subset {
			pol.UpstreamSubset = names
		}
		return kit.Upstream("c14", servers, []proxyv1alpha1.DispatchPolicy{pol})
	}
	type obsS struct {
		during []int
		after  [2]int
		errs   []string
	}
	body := func() interface{} {
		var ci *clusters.ClusterInfo
		vsched.Passthrough(func() { ci = mkCluster(1, subset) })
		o := &obsS{}
		vsched.GoNamed("update", func() {
			if err := ci.Sync(object(2)); err != nil {
				o.errs = append(o.errs, "Sync: "+err.Error())
			}
		})
		vsched.GoNamed("picker", func() {
			for i := 0; i < picks; i++ {
				got, err := pick(ci)
				if err != nil {
					o.errs = append(o.errs, "pick during the update: "+err.Error())
					continue
				}
				o.during = append(o.during, got)
			}
		})
		vsched.JoinChildren() // (the probe loop goroutines of the added endpoint are daemons)
		if e, ok := ci.Endpoints.Load(epName(1)); ok {
			e.UpdateStatus(true, "", "")
		} else {
			o.errs = append(o.errs, "the added server is unknown after the update")
		}
		for i := 0; i < 4; i++ {
			got, err := pick(ci)
			if err != nil || got < 0 || got > 1 {
				o.errs = append(o.errs, fmt.Sprintf("pick after the update: %v %v", got, err))
				continue
			}
			o.after[got]++
		}
		vsched.Passthrough(func() { ci.Stop() })
		return o
	}
	check := func(x *vsched.Exec) error {
		o := x.Obs.(*obsS)
		c.Outcome("pick_distributions", name+fmt.Sprint(o.during, o.after))
		if len(o.errs) > 0 {
			return fmt.Errorf("pick-or-update-failed: %s", o.errs[0])
		}
		if o.after != [2]int{2, 2} {
			return fmt.Errorf("added-server-left-out: a server was added while %d picks ran (they got %v); once the update was complete and both endpoints were ready, 4 picks were distributed %v (each must get 2)", picks, o.during, o.after)
		}
		return nil
	}
	return xa.Harness{Name: name, Bound: bound, Shards: shards, Horizon: 20000, Body: body, Check: check}
}

// harnessHealthWrite: picks racing a health probe that RE-RECORDS an endpoint as healthy (nothing changes: the ready
// set is stable). Whatever the pick meets while the probe result is being written, every ready endpoint keeps its
// turn: the picks are balanced and none fails.
func harnessHealthWrite(c *ev.Check, k, picks, bound int) xa.Harness {
	name := fmt.Sprintf("picks-vs-health-rerecorded-k%d-p%d", k, picks)
	body := func() interface{} {
		var ci *clusters.ClusterInfo
		vsched.Passthrough(func() { ci = mkCluster(k, true) })
		o := &obsA{counts: make([]int, k)}
		vsched.GoNamed("probe", func() {
			if e, ok := ci.Endpoints.Load(epName(0)); ok {
				e.UpdateStatus(true, "", "")
			}
		})
		vsched.GoNamed("picker", func() {
			for i := 0; i < picks; i++ {
				got, err := pick(ci)
				if err != nil {
					o.errs++
					continue
				}
				o.counts[got]++
			}
		})
		vsched.Join()
		vsched.Passthrough(func() { ci.Stop() })
		return o
	}
	check := func(x *vsched.Exec) error {
		o := x.Obs.(*obsA)
		c.Outcome("pick_distributions", name+fmt.Sprint(o.counts))
		if o.errs > 0 {
			return fmt.Errorf("pick-failed: %d picks failed although all %d endpoints are ready", o.errs, k)
		}
		lo, hi := picks/k, (picks+k-1)/k
		for _, cnt := range o.counts {
			if cnt < lo || cnt > hi {
				return fmt.Errorf("uneven-during-health-write: %d picks over %d ready endpoints, while a probe re-recorded one of them as healthy, were distributed %v (each must get %d..%d)", picks, k, o.counts, lo, hi)
			}
		}
		return nil
	}
	return xa.Harness{Name: name, Bound: bound, Shards: 1, Horizon: 20000, Body: body, Check: check}
}

func allHarnesses(c *ev.Check, bound int) []xa.Harness {
	sh := 1
	if bound >= 2 {
		sh = 4
	}
	hs := []xa.Harness{
		harnessA(c, 2, 2, 2, 0, bound, sh),
		harnessA(c, 3, 2, 2, 0, bound, sh),
		harnessA(c, 3, 3, 1, 0, bound, sh),
		harnessA(c, 3, 2, 2, 1, bound, sh),
		harnessHealthWrite(c, 2, 2, bound),
		harnessHealthWrite(c, 3, 3, bound),
	}
	// (Sync is long: hundreds of schedule points. Preemption bound 1 in the quick tier - one switch into the update
	// and the free switch back -, bound 2 with one pick in the thorough tier)
	if bound <= 1 {
		hs = append(hs, harnessSync(c, false, 1, bound, 1), harnessSync(c, true, 1, bound, 1), harnessSync(c, false, 2, bound, 1))
	} else if bound == 2 && (c.Thorough() || c.ReplayFile() != "") {
		hs = append(hs, harnessSync(c, false, 1, bound, 16), harnessSync(c, true, 1, bound, 16))
	}
	if c.Thorough() || c.ReplayFile() != "" {
		hs = append(hs,
			harnessA(c, 2, 3, 2, 0, bound, sh*4),
			harnessA(c, 3, 2, 3, 0, bound, sh*4),
			harnessA(c, 3, 3, 2, 1, bound, sh*4))
	}
	return hs
}

func main() {
	c := ev.Start("C14", "model_checking")
	c.Assume = []string{
		"engine A: clusterinfo.go and endpoint.go instrumented (sync, sync/atomic, sync.Map operations and every statement are schedule points); set-up/tear-down of the ClusterInfo runs outside the scheduler",
		"no-subset case: Go leaves sync.Map.Range order unspecified; the shim makes each Range order an enumerated choice; the allowed constant is k! (one strict cursor per ordering)",
		"readiness flips are applied with EndpointInfo.UpdateStatus (what a probe outcome does)",
	}
	specs := []xstate.Spec{specSubset(2), specSubset(3), specSubset(4), specAll(2), specAll(3), specResync(), specSubsetVia(3, "disabled-flag"), specSubsetVia(4, "disabled-flag")}
	if c.ReplayFile() != "" {
		xstate.ReplayIfAsked(c, specs)
		xa.ReplayIfAsked(c, allHarnesses(c, 0))
	}
	var tasks []ev.Task
	tasks = append(tasks, xstate.Tasks(c, specSubset(2), c.Pick(9, 12), 1)...)
	tasks = append(tasks, xstate.Tasks(c, specSubset(3), c.Pick(9, 12), 4)...)
	tasks = append(tasks, xstate.Tasks(c, specSubset(4), c.Pick(8, 11), 5)...)
	tasks = append(tasks, xstate.Tasks(c, specSubsetVia(3, "disabled-flag"), c.Pick(7, 9), 4)...)
	tasks = append(tasks, xstate.Tasks(c, specSubsetVia(4, "disabled-flag"), c.Pick(6, 8), 5)...)
	tasks = append(tasks, xstate.Tasks(c, specResync(), c.Pick(8, 11), 6)...)
	tasks = append(tasks, ev.Task{Name: "many-policies", Run: func() { manyPolicies(c) }})
	tasks = append(tasks, xstate.Tasks(c, specAll(2), c.Pick(40, 60), 1)...)
	tasks = append(tasks, xstate.Tasks(c, specAll(3), c.Pick(14, 20), 6)...)
	bounds := []int{0, 1, 2}
	if c.Thorough() {
		bounds = []int{0, 1, 2, 3}
	}
	for _, b := range bounds {
		for _, h := range allHarnesses(c, b) {
			tasks = append(tasks, xa.Tasks(c, h)...)
		}
	}
	c.RunTasks(tasks)
	c.Finish(map[string]interface{}{
		"states":                        c.Counter("states") + c.Counter("choice_points"),
		"transitions":                   c.Counter("transitions") + c.Counter("steps"),
		"traces_validated_against_impl": c.Counter("schedules") + c.Counter("replays"),
		"explanation":                   "states = canonical states of the pick/flip searches (ready set, real cursor values mod k read through an add-only hook, recent window) + scheduling decision points of the concurrent-picker harnesses; every trace is an execution of the real ClusterInfo.",
	})
}
