// C08 — global count strategy: the server's max-in-flight accounting is exact
// and never grants beyond the limit; token grants are bounded.
//
//	A (vsched): racing SetState calls on the real globalMaxInflight, every
//	  interleaving up to a preemption bound; oracle = quiescent invariants +
//	  brute-force linearizability against a sequential model.
//	B (xstate): every sequence of reports / removals / resizes, BFS to a
//	  fixpoint of the canonical state, step-wise against the deterministic model.
//	C (enum): token-bucket grants through the real rateLimiter-independent
//	  globalTokenBucket on a virtual clock.
package main

import (
	"fmt"
	"regexp"
	"sort"
	"strconv"
	"strings"
	"time"

	proxyv1alpha1 "github.com/kubewharf/kubegateway/pkg/apis/proxy/v1alpha1"
	gfc "github.com/kubewharf/kubegateway/pkg/ratelimiter/store/flowcontrol"
	"github.com/kubewharf/kubegateway/pkg/zzverif/vsched"
	"github.com/kubewharf/kubegateway/pkg/zzverif/vtime"

	"verifh/ev"
	"verifh/limrig"
	"verifh/lin"
	"verifh/xa"
	"verifh/xstate"
)

var instNames = []string{"a", "b", "c"}

type opIn struct {
	Kind string // report | remove | resize | dump
	Inst int
	ID   int64
	Cur  int32
}

func (o opIn) String() string {
	switch o.Kind {
	case "report":
		return fmt.Sprintf("report(%s,id=%d,cur=%d)", instNames[o.Inst], o.ID, o.Cur)
	case "remove":
		return fmt.Sprintf("remove(%s)", instNames[o.Inst])
	case "resize":
		return fmt.Sprintf("resize(%d)", o.Cur)
	}
	return o.Kind
}

type opOut struct {
	Accept bool
	Latest int32
	Err    string
	Count  int32    // dump
	Per    [3]int32 // dump
	Max    int32    // dump
}

// mstate is the sequential reference model.
type mstate struct {
	Max   int32
	Count [3]int32
	ID    [3]int64
}

// total: the specification counts in unbounded integers (int64 is enough for three int32s)
func (s mstate) total() int64 { return int64(s.Count[0]) + int64(s.Count[1]) + int64(s.Count[2]) }
func (s mstate) key() string  { return fmt.Sprint(s) }

// step returns the possible successor states given the observed output.
// spurious: an increase may be refused although it would fit (allowed while
// operations overlap; never in the sequential engine-B comparison).
func step(s mstate, in opIn, out opOut, spurious bool) []mstate {
	switch in.Kind {
	case "resize":
		s.Max = in.Cur
		return []mstate{s}
	case "remove":
		if out.Accept || out.Latest != -1 || out.Err != "" {
			return nil
		}
		s.Count[in.Inst] = 0
		s.ID[in.Inst] = 0
		return []mstate{s}
	case "dump":
		if int64(out.Count) != s.total() || out.Per != s.Count || out.Max != s.Max {
			return nil
		}
		return []mstate{s}
	case "report":
		i := in.Inst
		if in.ID > 0 && in.ID <= s.ID[i] {
			// not newer than one already processed: must be refused, nothing changes
			if out.Err == gfc.RequestIDTooOld.Error() && !out.Accept {
				return []mstate{s}
			}
			return nil
		}
		if out.Err != "" {
			return nil // a fresh id must not be refused as too old
		}
		if in.ID > 0 {
			s.ID[i] = in.ID
		}
		old := s.Count[i]
		delta := in.Cur - old
		applied := s
		applied.Count[i] = in.Cur
		var res []mstate
		// applied: the answer must name the reported value
		fits := delta <= 0 || applied.total() <= int64(s.Max)
		if fits && out.Latest == in.Cur {
			// accept flag: the code answers "not accepted, limit=current" at the exact limit although the count is
			// recorded; the statement leaves the flag open at/above the limit, and overlapping operations may see a
			// transient total, so only "accepted below the limit" is demanded in the sequential comparison.
			atOrAbove := applied.total() >= int64(s.Max) && in.Cur > 0
			if out.Accept || atOrAbove || spurious || delta == 0 {
				res = append(res, applied)
			}
		}
		// refused: only an increase may be refused, and then nothing changes (answer = previous count)
		if delta > 0 && !out.Accept && out.Latest == old && (!fits || spurious) {
			res = append(res, s)
		}
		return res
	}
	return nil
}

var dumpRe = regexp.MustCompile(`max=(-?\d+) count=(-?\d+) total=(-?\d+) details=(.*)$`)
var instRe = regexp.MustCompile(`\[(\w+): (-?\d+)\]`)

func dump(fc gfc.GlobalFlowControl) opOut {
	info := fc.DebugInfo()
	m := dumpRe.FindStringSubmatch(info)
	var o opOut
	if m == nil {
		o.Err = "unparsable DebugInfo: " + info
		return o
	}
	mx, _ := strconv.Atoi(m[1])
	cnt, _ := strconv.Atoi(m[2])
	o.Max, o.Count = int32(mx), int32(cnt)
	for _, im := range instRe.FindAllStringSubmatch(m[4], -1) {
		v, _ := strconv.Atoi(im[2])
		for k, n := range instNames {
			if n == im[1] {
				o.Per[k] = int32(v)
			}
		}
	}
	return o
}

func apply(fc gfc.GlobalFlowControl, in opIn) opOut {
	switch in.Kind {
	case "report":
		a, l, err := fc.SetState(instNames[in.Inst], in.ID, in.Cur)
		o := opOut{Accept: a, Latest: l}
		if err != nil {
			o.Err = err.Error()
		}
		return o
	case "remove":
		a, l, err := fc.SetState(instNames[in.Inst], 0, -1)
		o := opOut{Accept: a, Latest: l}
		if err != nil {
			o.Err = err.Error()
		}
		return o
	case "resize":
		fc.Resize(in.Cur, 0)
		return opOut{}
	case "dump":
		return dump(fc)
	}
	panic("bad op")
}

func newMIF(max int32) gfc.GlobalFlowControl {
	return gfc.NewGlobalFlowControl(proxyv1alpha1.FlowControlSchema{Name: "s",
		FlowControlSchemaConfiguration: proxyv1alpha1.FlowControlSchemaConfiguration{GlobalMaxRequestsInflight: &proxyv1alpha1.MaxRequestsInflightFlowControlSchema{Max: max}}})
}

// ------------------------------------------------------------------ engine A

type scenario struct {
	name    string
	max     int32
	pre     []opIn
	threads [][]opIn
	post    []opIn
	resized bool
}

func rep(i int, id int64, cur int32) opIn { return opIn{Kind: "report", Inst: i, ID: id, Cur: cur} }
func rem(i int) opIn                      { return opIn{Kind: "remove", Inst: i} }
func rsz(m int32) opIn                    { return opIn{Kind: "resize", Cur: m} }

func scenarios() []scenario {
	return []scenario{
		{name: "h1-three-reports", max: 3, threads: [][]opIn{{rep(0, 1, 2)}, {rep(1, 1, 2)}, {rep(0, 2, 1)}}, post: []opIn{rep(0, 2, 1)}},
		{name: "h1b-two-instances-fill", max: 5, threads: [][]opIn{{rep(0, 1, 3), rep(0, 2, 1)}, {rep(1, 1, 3), rep(1, 2, 4)}}},
		{name: "h2-double-removal", max: 5, pre: []opIn{rep(0, 1, 2), rep(1, 1, 1)}, threads: [][]opIn{{rem(0)}, {rem(0)}}},
		{name: "h3-removal-vs-report", max: 5, pre: []opIn{rep(0, 1, 2)}, threads: [][]opIn{{rem(0)}, {rep(0, 2, 3)}}},
		{name: "h3b-removal-vs-report-vs-other", max: 5, pre: []opIn{rep(0, 1, 2)}, threads: [][]opIn{{rem(0)}, {rep(0, 2, 3)}, {rep(1, 1, 2)}}},
		{name: "h4-rollback-vs-swap", max: 5, pre: []opIn{rep(1, 1, 3), rep(0, 1, 1)}, threads: [][]opIn{{rep(0, 2, 4)}, {rep(0, 3, 1)}}, post: []opIn{rep(0, 3, 1)}},
		{name: "h4b-same-instance-ids", max: 5, threads: [][]opIn{{rep(0, 1, 2)}, {rep(0, 2, 1)}}, post: []opIn{rep(0, 2, 1), rep(0, 1, 1)}},
		{name: "h5-report-vs-resize", max: 5, pre: []opIn{rep(0, 1, 2)}, threads: [][]opIn{{rep(1, 1, 3), rep(1, 2, 1)}, {rsz(3), rsz(5)}}, resized: true},
		{name: "h6-decrease-vs-increase", max: 4, pre: []opIn{rep(0, 1, 3), rep(1, 1, 1)}, threads: [][]opIn{{rep(0, 2, 1)}, {rep(1, 2, 3)}, {rep(2, 1, 1)}}},
	}
}

type obsA struct {
	ops   []lin.Op
	final opOut
}

func harnessA(c *ev.Check, sc scenario, bound, shards int) xa.Harness {
	body := func() interface{} {
		fc := newMIF(sc.max)
		rec := &lin.Recorder{}
		for _, o := range sc.pre {
			o := o
			rec.Do(0, o, func() interface{} { return apply(fc, o) })
		}
		for ti, ops := range sc.threads {
			ti, ops := ti, ops
			vsched.GoNamed(fmt.Sprintf("T%d", ti+1), func() {
				for _, o := range ops {
					o := o
					out := rec.Do(ti+1, o, func() interface{} { return apply(fc, o) })
					vsched.Logf("%s -> %+v", o, out)
				}
			})
		}
		vsched.Join()
		for _, o := range sc.post {
			o := o
			out := rec.Do(0, o, func() interface{} { return apply(fc, o) })
			vsched.Logf("%s -> %+v", o, out)
		}
		d := opIn{Kind: "dump"}
		fin := rec.Do(0, d, func() interface{} { return apply(fc, d) }).(opOut)
		vsched.Logf("final %+v", fin)
		return &obsA{ops: rec.Ops, final: fin}
	}
	model := lin.Model{
		Init: func() interface{} { return mstate{Max: sc.max} },
		Step: func(s interface{}, op lin.Op) []interface{} {
			var out []interface{}
			for _, n := range step(s.(mstate), op.In.(opIn), op.Out.(opOut), true) {
				out = append(out, n)
			}
			return out
		},
		Key: func(s interface{}) string { return s.(mstate).key() },
	}
	check := func(x *vsched.Exec) error {
		o := x.Obs.(*obsA)
		f := o.final
		c.Outcome("final_states", sc.name+fmt.Sprintf("%+v", f))
		if f.Err != "" {
			return fmt.Errorf("engine: %s", f.Err)
		}
		sum := f.Per[0] + f.Per[1] + f.Per[2]
		if f.Count != sum {
			return fmt.Errorf("total-ne-sum: running total %d != sum of per-instance counts %d (%v) at quiescence", f.Count, sum, f.Per)
		}
		for i, v := range f.Per {
			if v < 0 {
				return fmt.Errorf("negative-instance-count: instance %s has count %d", instNames[i], v)
			}
		}
		if !sc.resized && sum > sc.max {
			return fmt.Errorf("over-limit: accepted counts sum to %d > limit %d", sum, sc.max)
		}
		if ok, _ := lin.Check(model, o.ops); !ok {
			return fmt.Errorf("not-linearizable: no sequential order of the operations explains the answers and the final state: %s", opsString(o.ops))
		}
		return nil
	}
	return xa.Harness{Name: sc.name, Bound: bound, Shards: shards, Horizon: 5000, Body: body, Check: check}
}

func opsString(ops []lin.Op) string {
	var s []string
	for _, o := range ops {
		s = append(s, fmt.Sprintf("T%d[%d,%d] %s -> %+v", o.Thread, o.Call, o.Ret, o.In, o.Out))
	}
	return strings.Join(s, "; ")
}

// ------------------------------------------------------------------ engine B

type sysB struct {
	fc gfc.GlobalFlowControl
	m  mstate
}

func specB() xstate.Spec {
	maxes := []int32{2, 5, 8, 0}               // (0: an edit to "nothing may be in flight" is an edit like any other)
	curs := []int32{0, 1, 3, 5, 6, 2147483647} // (the count is a client-supplied int32: its largest value is a report like any other)
	return xstate.Spec{
		Name: "seq-maxinflight",
		New:  func() interface{} { return &sysB{fc: newMIF(5), m: mstate{Max: 5}} },
		Events: func(s interface{}) []string {
			var evs []string
			for i := 0; i < 2; i++ {
				for _, cur := range curs {
					for _, rel := range []string{"none", "next", "same", "older"} {
						evs = append(evs, fmt.Sprintf("report %d %s %d", i, rel, cur))
					}
				}
				evs = append(evs, fmt.Sprintf("remove %d", i))
			}
			for _, m := range maxes {
				evs = append(evs, fmt.Sprintf("resize %d", m))
			}
			return evs
		},
		Apply: func(s interface{}, e string) error {
			sys := s.(*sysB)
			f := strings.Fields(e)
			var in opIn
			switch f[0] {
			case "report":
				i, _ := strconv.Atoi(f[1])
				cur, _ := strconv.Atoi(f[3])
				last := sys.m.ID[i]
				var id int64
				switch f[2] {
				case "none":
					id = 0
				case "next":
					id = last + 1
				case "same":
					id = last
				case "older":
					id = last - 1
				}
				if id < 0 {
					id = 0
				}
				in = rep(i, id, int32(cur))
			case "remove":
				i, _ := strconv.Atoi(f[1])
				in = rem(i)
			case "resize":
				m, _ := strconv.Atoi(f[1])
				in = rsz(int32(m))
			}
			out := apply(sys.fc, in)
			next := step(sys.m, in, out, false)
			if len(next) == 0 {
				return fmt.Errorf("%s: model state %+v, %s answered %+v which the sequential specification does not allow", classify(sys.m, in, out), sys.m, in, out)
			}
			sys.m = next[0]
			d := dump(sys.fc)
			if int64(d.Count) != sys.m.total() || d.Per != sys.m.Count || d.Max != sys.m.Max {
				return fmt.Errorf("%s: after %s (answer %+v) recorded state is count=%d per=%v max=%d, specification says count=%d per=%v max=%d",
					classify(sys.m, in, out), in, out, d.Count, d.Per, d.Max, sys.m.total(), sys.m.Count, sys.m.Max)
			}
			return nil
		},
		Canon: func(s interface{}) string {
			sys := s.(*sysB)
			// request ids matter only relative to the last processed one (the code compares, never computes with them)
			has := [3]bool{sys.m.ID[0] > 0, sys.m.ID[1] > 0, sys.m.ID[2] > 0}
			gt1 := [3]bool{sys.m.ID[0] > 1, sys.m.ID[1] > 1, sys.m.ID[2] > 1}
			return fmt.Sprint(sys.m.Max, sys.m.Count, has, gt1, dump(sys.fc))
		},
	}
}

// ------------------------------------------------------------------ engine B over the request path
// The same sequential specification, but every report travels the way a gateway's report does: through the real
// rateLimiter.DoAcquire (leader check, store lookup, answer construction) on limrig - the accounting rules must hold
// at the door, not only inside globalMaxInflight.

type sysP struct {
	rig *limrig.Rig
	m   mstate
}

const upP = "up-c08"

func (s *sysP) fc() gfc.GlobalFlowControl {
	fc, err := s.rig.H.Store(0).GetFlowControl(upP, "s")
	if err != nil {
		return nil
	}
	return fc
}

func specPath() xstate.Spec {
	curs := []int32{0, 3, 6}
	return xstate.Spec{
		Name: "seq-request-path",
		New: func() interface{} {
			s := &sysP{rig: limrig.New(1, "local"), m: mstate{Max: 5}}
			s.rig.Gain(0)
			if err := s.rig.ApplyCluster(limrig.MIFCluster(upP, "s", proxyv1alpha1.GlobalCountLimit, 1, 5)); err != nil {
				panic(err)
			}
			return s
		},
		Events: func(interface{}) []string {
			var evs []string
			for i := 0; i < 2; i++ {
				for _, cur := range curs {
					for _, rel := range []string{"next", "same", "older"} {
						evs = append(evs, fmt.Sprintf("report %d %s %d", i, rel, cur))
					}
				}
			}
			return append(evs, "resize 2", "resize 8", "resize 0")
		},
		Apply: func(si interface{}, e string) error {
			sys := si.(*sysP)
			f := strings.Fields(e)
			var in opIn
			var out opOut
			switch f[0] {
			case "report":
				i, _ := strconv.Atoi(f[1])
				cur, _ := strconv.Atoi(f[3])
				last := sys.m.ID[i]
				id := last + 1
				switch f[2] {
				case "same":
					id = last
				case "older":
					id = last - 1
				}
				if id < 1 {
					id = 1
				}
				in = rep(i, id, int32(cur))
				res, err := sys.rig.L.DoAcquire(upP, limrig.Acquire(upP, instNames[i], "s", id, int32(cur)))
				if err != nil || len(res.Status.Results) != 1 {
					return fmt.Errorf("request-path/acquire-failed: %s: %v", in, err)
				}
				r := res.Status.Results[0]
				out = opOut{Accept: r.Accept, Latest: r.Limit, Err: r.Error}
			case "resize":
				m, _ := strconv.Atoi(f[1])
				in = rsz(int32(m))
				if err := sys.rig.ApplyCluster(limrig.MIFCluster(upP, "s", proxyv1alpha1.GlobalCountLimit, 1, int32(m))); err != nil {
					return fmt.Errorf("request-path/resize-failed: %v", err)
				}
			}
			next := step(sys.m, in, out, false)
			if len(next) == 0 {
				return fmt.Errorf("request-path/%s: model state %+v, %s answered %+v through DoAcquire, which the sequential specification does not allow", classify(sys.m, in, out), sys.m, in, out)
			}
			sys.m = next[0]
			fc := sys.fc()
			if fc == nil {
				return fmt.Errorf("request-path/no-flowcontrol: the server holds no counter for the schema")
			}
			d := dump(fc)
			if int64(d.Count) != sys.m.total() || d.Per != sys.m.Count || d.Max != sys.m.Max {
				return fmt.Errorf("request-path/%s: after %s (answer %+v) the server records count=%d per=%v max=%d, the specification says count=%d per=%v max=%d",
					classify(sys.m, in, out), in, out, d.Count, d.Per, d.Max, sys.m.total(), sys.m.Count, sys.m.Max)
			}
			return nil
		},
		Canon: func(si interface{}) string {
			sys := si.(*sysP)
			has := [3]bool{sys.m.ID[0] > 0, sys.m.ID[1] > 0, sys.m.ID[2] > 0}
			gt1 := [3]bool{sys.m.ID[0] > 1, sys.m.ID[1] > 1, sys.m.ID[2] > 1}
			d := opOut{}
			if fc := sys.fc(); fc != nil {
				d = dump(fc)
			}
			return fmt.Sprint(sys.m.Max, sys.m.Count, has, gt1, d)
		},
		Close: func(si interface{}) {},
	}
}

func classify(m mstate, in opIn, out opOut) string {
	if in.Kind == "report" {
		delta := in.Cur - m.Count[in.Inst]
		switch {
		case out.Err != "" || in.ID > 0 && in.ID <= m.ID[in.Inst]:
			return "request-id"
		case delta < 0 && m.total() > int64(m.Max):
			return "decrease-refused-above-lowered-limit"
		case delta < 0:
			return "decrease-not-applied"
		case delta > 0:
			return "increase"
		}
	}
	return in.Kind
}

// ------------------------------------------------------------------ engine C: token bucket on a virtual clock

func tokenBucket(c *ev.Check, maxLen int) {
	type cfg struct{ qps, burst int32 }
	// incl. burst < qps and burst 0 (validation admits both), and a limit change in the middle (steps beyond asks+advs)
	cfgs := []cfg{{1, 1}, {1, 3}, {2, 2}, {4, 8}, {2, 5}, {4, 2}, {8, 1}, {3, 0}}
	asks := []int32{0, 1, 2, 5, 9, 100, 2147483647}
	advs := []time.Duration{125 * time.Millisecond, 500 * time.Millisecond, time.Second, 10 * time.Second}
	// (the last two are edits of ONE number: {0, -1} halves the burst and keeps the rate, {-1, 0} halves the rate and keeps the burst)
	resizes := []cfg{{8, 2}, {2, 6}, {0, -1}, {-1, 0}}
	nsteps := len(asks) + len(advs) + len(resizes)
	t0 := time.Unix(1700000000, 0)
	for _, cf := range cfgs {
		idx := make([]int, 0, maxLen)
		var rec func()
		rec = func() {
			if len(idx) > 0 {
				// run the sequence on a fresh bucket
				vtime.SetVirtual(t0)
				fc := gfc.NewGlobalFlowControl(proxyv1alpha1.FlowControlSchema{Name: "tb", FlowControlSchemaConfiguration: proxyv1alpha1.FlowControlSchemaConfiguration{
					GlobalTokenBucket: &proxyv1alpha1.TokenBucketFlowControlSchema{QPS: cf.qps, Burst: cf.burst}}})
				type grant struct {
					at time.Duration
					n  int32
				}
				var grants []grant
				var now time.Duration
				cur := cf
				judge := func() {
					// every window [t_i, t_j] of the segment: sum of grants <= burst + qps*T
					for i := range grants {
						var sum int64
						for j := i; j < len(grants); j++ {
							sum += int64(grants[j].n)
							T := (grants[j].at - grants[i].at).Seconds()
							if float64(sum) > float64(cur.burst)+float64(cur.qps)*T+1e-9 {
								c.Violation("tokenbucket/over-rate", fmt.Sprintf("qps=%d burst=%d: %d tokens granted within %.3fs (bound %.3f)", cur.qps, cur.burst, sum, T, float64(cur.burst)+float64(cur.qps)*T),
									map[string]interface{}{"cfg": cf, "steps": append([]int{}, idx...)})
							}
						}
					}
				}
				var total int64
				for _, s := range idx {
					if s >= len(asks)+len(advs) {
						// the global limit changes: the grants so far are judged under the old limit, a new segment starts
						to := resizes[s-len(asks)-len(advs)]
						if to.qps == 0 && to.burst == -1 {
							to = cfg{cur.qps, cur.burst / 2}
							if to.burst < 1 {
								to.burst = 1
							}
						} else if to.qps == -1 && to.burst == 0 {
							to = cfg{cur.qps / 2, cur.burst}
							if to.qps < 1 {
								to.qps = 1
							}
						}
						if to == cur {
							continue
						}
						judge()
						for _, g := range grants {
							total += int64(g.n)
						}
						grants = nil
						cur = to
						fc.Resize(to.qps, to.burst)
						continue
					}
					if s < len(asks) {
						// the acquire loop of rateLimiter.DoAcquire: n, n/2, n/4, n/8
						token := asks[s]
						var got int32
						for i := 0; i < 4; i++ {
							if fc.TryAcquireN("a", token) {
								got = token
								break
							}
							token /= 2
							if token <= 0 {
								break
							}
						}
						if got < 0 || got > asks[s] {
							c.Violation("tokenbucket/grant-out-of-range", fmt.Sprintf("asked %d granted %d", asks[s], got), idx)
						}
						if got > 0 {
							grants = append(grants, grant{now, got})
						}
					} else {
						d := advs[s-len(asks)]
						vtime.Advance(d)
						now += d
					}
				}
				c.Add("tokenbucket_sequences", 1)
				judge()
				for _, g := range grants {
					total += int64(g.n)
				}
				c.Outcome("tokenbucket_outcomes", fmt.Sprintf("%v:%d:%d", cf, len(grants), total))
			}
			if len(idx) == maxLen {
				return
			}
			for s := 0; s < nsteps; s++ {
				idx = append(idx, s)
				rec()
				idx = idx[:len(idx)-1]
			}
		}
		rec()
	}
	vtime.SetReal()
}

func main() {
	c := ev.Start("C08", "model_checking")
	c.Assume = []string{
		"interleavings are explored at statement / sync-operation granularity under sequential consistency (instrumented maxinflight.go: sync, sync/atomic redirected to shims, a schedule point before every statement)",
		"the accept flag at the exact limit (recorded but answered 'not accepted, limit=current') is left open by the statement and not judged; recorded state and error kind are",
		"request ids only matter relative to the last processed id (the code only compares them), so engine B canonicalises them to {none, 1, >1}",
		"negative asks are refused by rateLimiter.DoAcquire before the bucket is reached (checked in C13/C18's limiter rig), the bucket itself is driven with asks >= 0",
	}
	if c.ReplayFile() != "" {
		var hs []xa.Harness
		for _, sc := range scenarios() {
			hs = append(hs, harnessA(c, sc, 0, 1))
		}
		xstate.ReplayIfAsked(c, []xstate.Spec{specB(), specPath()})
		xa.ReplayIfAsked(c, hs)
	}
	var tasks []ev.Task
	bounds := []int{0, 1, 2}
	if c.Thorough() {
		bounds = []int{0, 1, 2, 3, 4}
	}
	for _, sc := range scenarios() {
		for _, b := range bounds {
			shards := 1
			if b == 2 && len(sc.threads) >= 3 {
				shards = 4
			}
			if b >= 3 {
				shards = 8
			}
			tasks = append(tasks, xa.Tasks(c, harnessA(c, sc, b, shards))...)
		}
	}
	tasks = append(tasks, xstate.Tasks(c, specB(), c.Pick(5, 7), 8)...)
	tasks = append(tasks, xstate.Tasks(c, specPath(), c.Pick(4, 6), 10)...)
	tasks = append(tasks, ev.Task{Name: "tokenbucket", Run: func() { tokenBucket(c, c.Pick(5, 6)) }})
	sort.SliceStable(tasks, func(i, j int) bool { return false })
	c.RunTasks(tasks)
	c.Finish(map[string]interface{}{
		"states":                        c.Counter("states") + c.Counter("choice_points"),
		"transitions":                   c.Counter("transitions") + c.Counter("steps"),
		"traces_validated_against_impl": c.Counter("schedules") + c.Counter("replays") + c.Counter("tokenbucket_sequences"),
		"explanation":                   "states = canonical states of the sequential search (engine B, per shard) + scheduling decision points visited (engine A); transitions = events applied (B) + schedule steps executed (A). Every explored trace is an execution of the real code, so all of them count as validated against the implementation.",
	})
}
