// C18 — quota of dead gateway instances is reclaimed; live instances are left alone.
// Engine B: histories of instances joining, reporting (global-allocate schema),
// acquiring (global-count schema), going silent, coming back, interleaved with
// the two periodic cleanup passes, on the real rateLimiter. Engine A: the
// cleanup goroutine racing reports/acquires of live and dying instances.
package main

import (
	"fmt"
	"sort"
	"strings"
	"time"

	metav1 "k8s.io/apimachinery/pkg/apis/meta/v1"
	"k8s.io/apimachinery/pkg/labels"

	proxyv1alpha1 "github.com/kubewharf/kubegateway/pkg/apis/proxy/v1alpha1"
	"github.com/kubewharf/kubegateway/pkg/zzverif/vsched"
	"github.com/kubewharf/kubegateway/pkg/zzverif/vtime"

	"verifh/ev"
	"verifh/kit"
	"verifh/limrig"
	"verifh/xa"
	"verifh/xstate"
)

const up = "u1"

func cluster() *proxyv1alpha1.UpstreamCluster { return clusterWith(proxyv1alpha1.GlobalCountLimit) }

// clusterWith: the count schema's strategy is an operator-editable field; the counts the server holds for it must be
// reclaimed whatever it says at the moment an instance dies
func tbCount(name string) proxyv1alpha1.FlowControlSchema {
	return proxyv1alpha1.FlowControlSchema{Name: name, Strategy: proxyv1alpha1.GlobalCountLimit, FlowControlSchemaConfiguration: proxyv1alpha1.FlowControlSchemaConfiguration{
		TokenBucket: &proxyv1alpha1.TokenBucketFlowControlSchema{QPS: 1, Burst: 1}, GlobalTokenBucket: &proxyv1alpha1.TokenBucketFlowControlSchema{QPS: 10, Burst: 10}}}
}

func clusterWith(cStrategy proxyv1alpha1.LimitStrategy) *proxyv1alpha1.UpstreamCluster {
	mif := func(n int32) *proxyv1alpha1.MaxRequestsInflightFlowControlSchema {
		return &proxyv1alpha1.MaxRequestsInflightFlowControlSchema{Max: n}
	}
	return &proxyv1alpha1.UpstreamCluster{ObjectMeta: metav1.ObjectMeta{Name: up}, Spec: proxyv1alpha1.UpstreamClusterSpec{
		Servers: []proxyv1alpha1.UpstreamClusterServer{{Endpoint: "https://127.0.0.1:1"}},
		FlowControl: proxyv1alpha1.FlowControl{Schemas: []proxyv1alpha1.FlowControlSchema{
			{Name: "a", Strategy: proxyv1alpha1.GlobalAllocateLimit, FlowControlSchemaConfiguration: proxyv1alpha1.FlowControlSchemaConfiguration{MaxRequestsInflight: mif(1), GlobalMaxRequestsInflight: mif(40)}},
			{Name: "c", Strategy: cStrategy, FlowControlSchemaConfiguration: proxyv1alpha1.FlowControlSchemaConfiguration{MaxRequestsInflight: mif(1), GlobalMaxRequestsInflight: mif(6)}},
			// schemas of the other type next to them (whatever walks an upstream's flow controls meets these too - before or
			// after "c", the store's map order decides)
			tbCount("b1"), tbCount("b2"), tbCount("d1"), tbCount("d2"),
		}}}}
}

type inst struct {
	name    string
	fresh   bool  // heartbeat within the timeout
	known   bool  // ever sent a heartbeat that has not been cleaned yet
	quota   int32 // last answered quota for schema a
	counted int32 // in-flight the server accepted for schema c
	gen     int
	id      int64
}

type sys struct {
	rig   *limrig.Rig
	inst  []inst
	shape string // identity shape of the instances (idShapes)
}

func (s *sys) store() string { return s.rig.Dump([]string{up}, []string{"a", "c"}) }

// view returns what the server holds for one instance: condition dump and counted in-flight
func (s *sys) view(name string) (string, int32, bool) {
	st := s.rig.H.Store(0)
	cond := ""
	for _, c := range st.List(labels.Everything()) {
		if c.Spec.Instance == name {
			cond += c.Name + kit.JSON(c.Spec) + kit.JSON(c.Status)
		}
	}
	var counted int32
	present := false
	if fc, err := st.GetFlowControl(up, "c"); err == nil {
		info := fc.DebugInfo()
		i := strings.Index(info, "["+name+": ")
		if i >= 0 {
			present = true
			fmt.Sscanf(info[i+len(name)+3:], "%d", &counted)
		}
	}
	return cond, counted, present
}

func (s *sys) totals() (count, total int32, ok bool) {
	st := s.rig.H.Store(0)
	fc, err := st.GetFlowControl(up, "c")
	if err != nil {
		return 0, 0, false
	}
	info := fc.DebugInfo()
	i := strings.Index(info, "count=")
	if i < 0 {
		return 0, 0, false
	}
	fmt.Sscanf(info[i:], "count=%d total=%d", &count, &total)
	return count, total, true
}

func (s *sys) stateSum() (int32, int32) {
	st := s.rig.H.Store(0)
	var state, sum int32 = -1, 0
	for _, c := range st.ListUpstream(up) {
		if strings.HasSuffix(c.Name, ".state") {
			for _, it := range c.Status.LimitItemStatuses {
				if it.Name == "a" && it.MaxRequestsInflight != nil {
					state = it.MaxRequestsInflight.Max
				}
			}
			continue
		}
		for _, it := range c.Spec.LimitItemConfigurations {
			if it.Name == "a" && it.MaxRequestsInflight != nil {
				sum += it.MaxRequestsInflight.Max
			}
		}
	}
	return state, sum
}

func newSys(k int) *sys { return newSysOn(k, "local") }

// identity shapes: what a gateway calls itself is "<--client-id-prefix>-<pid>-<random>"; the prefix is free text
// (operators put host names, URLs, pod names there), so identities are not always valid label values
var idShapes = map[string]func(i int) string{
	"plain": func(i int) string { return fmt.Sprintf("gw%d", i) },
	"url-prefix": func(i int) string {
		if i == 1 {
			return "https://gateway.prod.example.com:6443-4242-x7k2p"
		}
		return fmt.Sprintf("gw%d", i)
	},
	"long": func(i int) string {
		if i == 1 {
			return "kube-gateway-production-eu-central-1-deployment-7d9f8b6c5d-abcde-4242-x7k2p"
		}
		return fmt.Sprintf("gw%d", i)
	},
}

var idShape = "plain"

func newSysOn(k int, store string) *sys {
	vsched.InlineGo = true
	vtime.SetVirtual(time.Unix(1700000000, 0))
	s := &sys{rig: limrig.New(1, "local")}
	s.shape = idShape
	if store == "k8s-writeback" {
		s.rig = limrig.NewWithSyncPeriod(1, "k8s", 24*time.Hour)
	}
	s.rig.Gain(0)
	if err := s.rig.ApplyCluster(cluster()); err != nil {
		panic(err)
	}
	for i := 0; i < k; i++ {
		s.inst = append(s.inst, inst{name: idShapes[idShape](i)})
	}
	return s
}

func (s *sys) report(i int) error {
	in := &s.inst[i]
	rep := limrig.Report(up, in.name, "a", proxyv1alpha1.MaxRequestsInflight, proxyv1alpha1.GlobalAllocateLimit, in.quota, 0, in.quota, 100)
	rep.Name = up + "." + in.name
	if in.quota == 0 {
		rep.Spec.LimitItemConfigurations[0].LimitItemDetail = proxyv1alpha1.LimitItemDetail{}
	}
	ans, err := s.rig.L.UpdateRateLimitConditionStatus(up, rep)
	if err != nil {
		return err
	}
	for _, it := range ans.Spec.LimitItemConfigurations {
		if it.Name == "a" && it.MaxRequestsInflight != nil {
			in.quota = it.MaxRequestsInflight.Max
		}
	}
	return nil
}

func (s *sys) acquire(i int, n int32) error {
	in := &s.inst[i]
	in.id++
	res, err := s.rig.L.DoAcquire(up, limrig.Acquire(up, in.name, "c", in.id, n))
	if err != nil {
		return err
	}
	r := res.Status.Results[0]
	if r.Error != "" {
		return fmt.Errorf("%s", r.Error)
	}
	if r.Accept || r.Limit == n {
		in.counted = n
	}
	return nil
}

// checkGone: nothing of a silent instance may be left after both passes
func (s *sys) checkGone(i int) error {
	in := &s.inst[i]
	cond, counted, _ := s.view(in.name)
	if cond != "" {
		return fmt.Errorf("dead-quota-kept: %s went silent and both cleanup passes ran, but the server still records %s", in.name, cond)
	}
	if counted != 0 {
		return fmt.Errorf("dead-inflight-kept: %s went silent and both cleanup passes ran, but %d in-flight requests are still counted for it", in.name, counted)
	}
	return nil
}

func spec(k int) xstate.Spec { return specOn(k, "local") }

// heartbeatTimings: "stops sending heartbeats" is a matter of time. On the virtual clock, every placement on a 200 ms
// grid of: a report + acquire (with heartbeat) at 0, zero / one / two later heartbeats, and the cleanup passes at t -
// the instance's record must survive exactly when its LAST RECEIVED heartbeat is at most the timeout (3 s) old, and be
// gone when it is older (the exact boundary instant is not judged).
func heartbeatTimings(c *ev.Check) {
	const step = 200 * time.Millisecond
	timeout := 3 * time.Second
	run := func(hbs []time.Duration, at time.Duration) {
		s := newSys(2)
		t0 := vtime.Now()
		advanceTo := func(d time.Duration) { vtime.Advance(t0.Add(d).Sub(vtime.Now())) }
		name := s.inst[0].name
		_ = s.rig.L.Heartbeat(name)
		if err := s.report(0); err != nil {
			c.EngineError("heartbeat-timings: " + err.Error())
			return
		}
		_ = s.acquire(0, 2)
		// a second, always-live instance keeps the passes honest
		other := s.inst[1].name
		_ = s.rig.L.Heartbeat(other)
		last := time.Duration(0)
		for _, h := range hbs {
			advanceTo(h)
			_ = s.rig.L.Heartbeat(name)
			_ = s.rig.L.Heartbeat(other)
			last = h
		}
		advanceTo(at)
		_ = s.rig.L.Heartbeat(other)
		condBefore, countedBefore, _ := s.view(name)
		s.rig.H.CleanupTimeoutClient()
		s.rig.H.CleanupUnknownCondition()
		cond, counted, _ := s.view(name)
		age := at - last
		c.Add("heartbeat_timing_cases", 1)
		label := fmt.Sprintf("heartbeats of the instance at 0%v, cleanup passes at %v (last heartbeat %v old, timeout %v)", hbs, at, age, timeout)
		switch {
		case age < timeout:
			c.Outcome("heartbeat_timings", fmt.Sprintf("live/%v", cond == condBefore && counted == countedBefore))
			if cond != condBefore || counted != countedBefore {
				c.Violation("heartbeat-timings/live-instance-touched", label+fmt.Sprintf(": the instance is alive, yet its record changed: %s/%d -> %s/%d", condBefore, countedBefore, cond, counted), map[string]interface{}{"heartbeats": fmt.Sprint(hbs), "cleanup_at": at.String()})
			}
		case age > timeout:
			c.Outcome("heartbeat_timings", fmt.Sprintf("dead/%v", cond == "" && counted == 0))
			if cond != "" || counted != 0 {
				c.Violation("heartbeat-timings/dead-state-kept", label+fmt.Sprintf(": the instance is silent for longer than the timeout, yet the server still records %s / %d in-flight", cond, counted), map[string]interface{}{"heartbeats": fmt.Sprint(hbs), "cleanup_at": at.String()})
			}
		}
	}
	grid := func(from, to time.Duration) []time.Duration {
		var out []time.Duration
		for d := from; d <= to; d += step {
			out = append(out, d)
		}
		return out
	}
	for _, at := range grid(step, 7*time.Second) {
		run(nil, at)
		for _, h1 := range grid(step, 3*time.Second) {
			if h1 >= at {
				continue
			}
			run([]time.Duration{h1}, at)
			if c.Thorough() || h1%(3*step) == 0 {
				for _, h2 := range grid(h1+step, h1+3*time.Second) {
					if h2 < at {
						run([]time.Duration{h1, h2}, at)
					}
				}
			}
		}
	}
}

// specStray: the k=2 histories plus a stray heartbeat that carries no instance parameter (the endpoint does not refuse
// it: the empty identity is registered) and later falls silent like any other client - which must not cost a live
// instance anything
func specStray() xstate.Spec {
	sp := specOn(2, "local")
	sp.Name = "reclaim-k2-stray-heartbeat"
	events, apply := sp.Events, sp.Apply
	sp.Events = func(si interface{}) []string { return append(events(si), "stray-heartbeat", "stray-silent") }
	sp.Apply = func(si interface{}, e string) error {
		s := si.(*sys)
		switch e {
		case "stray-heartbeat":
			vtime.Advance(200 * time.Millisecond)
			_ = s.rig.L.Heartbeat("")
			return nil
		case "stray-silent":
			vtime.Advance(200 * time.Millisecond)
			s.rig.H.SetHeartbeat("", vtime.Now().Add(-time.Hour))
			return nil
		}
		return apply(si, e)
	}
	return sp
}

// specStrategyEdit: the k=2 histories plus an operator switching the count schema's strategy away from globalCount
// and back while instances hold counted in-flight (no acquire happens while it is switched away)
func specStrategyEdit() xstate.Spec {
	sp := specOn(2, "local")
	sp.Name = "reclaim-k2-strategy-edit"
	events, apply := sp.Events, sp.Apply
	away := map[*sys]bool{}
	sp.Events = func(si interface{}) []string {
		var out []string
		for _, e := range events(si) {
			if away[si.(*sys)] && strings.HasPrefix(e, "acquire") {
				continue
			}
			out = append(out, e)
		}
		return append(out, "strategy-switch")
	}
	sp.Apply = func(si interface{}, e string) error {
		s := si.(*sys)
		if e == "strategy-switch" {
			vtime.Advance(200 * time.Millisecond)
			away[s] = !away[s]
			st := proxyv1alpha1.GlobalCountLimit
			if away[s] {
				st = proxyv1alpha1.GlobalAllocateLimit
			}
			if err := s.rig.ApplyCluster(clusterWith(st)); err != nil {
				return fmt.Errorf("strategy-switch-failed: %v", err)
			}
			return nil
		}
		return apply(si, e)
	}
	canon := sp.Canon
	sp.Canon = func(si interface{}) string { return fmt.Sprint(canon(si), away[si.(*sys)]) }
	return sp
}

// specIDs: the k=2 histories with the second instance carrying an identity of the given shape
func specIDs(shape string) xstate.Spec {
	sp := specOn(2, "local")
	sp.Name = "reclaim-k2-identity-" + shape
	inner := sp.New
	sp.New = func() interface{} {
		idShape = shape
		defer func() { idShape = "plain" }()
		return inner()
	}
	return sp
}

// specOn: the same histories over the API-backed store in write-back mode (the limiter binary's default for
// --limit-store=k8s), with the periodic flush as one more event: conditions that were never flushed exist only in
// memory, conditions that were are in the API too - the cleanups must reclaim both kinds.
func specOn(k int, store string) xstate.Spec {
	name := fmt.Sprintf("reclaim-k%d", k)
	if store != "local" {
		name += "-" + store
	}
	return xstate.Spec{
		Name: name,
		New:  func() interface{} { return newSysOn(k, store) },
		Events: func(si interface{}) []string {
			var evs []string
			if store != "local" {
				evs = append(evs, "flush")
			}
			for i := 0; i < k; i++ {
				evs = append(evs, fmt.Sprintf("heartbeat %d", i), fmt.Sprintf("report %d", i), fmt.Sprintf("acquire %d 2", i), fmt.Sprintf("acquire %d 0", i), fmt.Sprintf("silence %d", i), fmt.Sprintf("newidentity %d", i))
			}
			evs = append(evs, "cleanupTimeout", "cleanupUnknown", "cleanupBoth")
			return evs
		},
		Apply: func(si interface{}, e string) error {
			s := si.(*sys)
			f := strings.Fields(e)
			vtime.Advance(200 * time.Millisecond) // events are 200 ms apart: a heartbeat is never checked at the very instant it was sent
			var i int
			if len(f) > 1 {
				fmt.Sscanf(f[1], "%d", &i)
			}
			if (f[0] == "heartbeat" || f[0] == "report" || f[0] == "acquire") && !s.inst[i].fresh {
				// the instance comes back after a silence: cleanup passes may already have reclaimed (part of) its state,
				// which is allowed; from now on the model follows what the server actually holds for it
				_, n, _ := s.view(s.inst[i].name)
				s.inst[i].counted = n
			}
			switch f[0] {
			case "flush":
				if fl, ok := s.rig.H.Store(0).(interface{ Flush() error }); ok {
					if err := fl.Flush(); err != nil {
						return fmt.Errorf("flush-failed: %v", err)
					}
				}
			case "heartbeat":
				_ = s.rig.L.Heartbeat(s.inst[i].name)
				s.inst[i].fresh, s.inst[i].known = true, true
			case "silence":
				if !s.inst[i].known {
					return nil
				}
				s.rig.H.SetHeartbeat(s.inst[i].name, vtime.Now().Add(-time.Hour))
				s.inst[i].fresh = false
			case "newidentity":
				// the process restarted: same gateway, new instance identity; the old one is never heard of again
				if s.inst[i].known {
					s.rig.H.SetHeartbeat(s.inst[i].name, vtime.Now().Add(-time.Hour))
				}
				s.inst = append(s.inst, inst{name: s.inst[i].name, known: s.inst[i].known, quota: s.inst[i].quota, counted: s.inst[i].counted}) // keep the dead one for the oracle
				s.inst[i].gen++
				s.inst[i] = inst{name: fmt.Sprintf("%s-r%d", idShapes[s.shape](i), s.inst[i].gen), gen: s.inst[i].gen}
			case "report":
				// gateways heartbeat every second and report every few seconds: a reporting instance is a live one
				_ = s.rig.L.Heartbeat(s.inst[i].name)
				s.inst[i].fresh, s.inst[i].known = true, true
				if err := s.report(i); err != nil {
					return fmt.Errorf("report-failed: %v", err)
				}
				state, sum := s.stateSum()
				if state != sum {
					return fmt.Errorf("state-sum-wrong: after %s's report the upstream state says %d allocated, the recorded quotas sum to %d", s.inst[i].name, state, sum)
				}
				var live int32
				for _, in := range s.inst {
					if in.fresh || in.known && !s.cleanedBoth(in.name) {
						live += in.quota
					}
				}
				_ = live
			case "acquire":
				var n int32
				fmt.Sscanf(f[2], "%d", &n)
				_ = s.rig.L.Heartbeat(s.inst[i].name)
				s.inst[i].fresh, s.inst[i].known = true, true
				if err := s.acquire(i, n); err != nil {
					return fmt.Errorf("acquire-failed: %v", err)
				}
			case "cleanupTimeout", "cleanupUnknown", "cleanupBoth":
				before := map[string][2]string{}
				for _, in := range s.inst {
					if in.fresh {
						c, n, _ := s.view(in.name)
						before[in.name] = [2]string{c, fmt.Sprint(n)}
					}
				}
				if f[0] != "cleanupUnknown" {
					s.rig.H.CleanupTimeoutClient()
				}
				if f[0] != "cleanupTimeout" {
					s.rig.H.CleanupUnknownCondition()
				}
				for _, in := range s.inst {
					if in.fresh {
						c, n, _ := s.view(in.name)
						if b := before[in.name]; b[0] != c || b[1] != fmt.Sprint(n) {
							return fmt.Errorf("live-instance-touched: %s keeps sending heartbeats but %s changed its recorded state: %s/%s -> %s/%d", in.name, f[0], b[0], b[1], c, n)
						}
					}
				}
				if f[0] == "cleanupBoth" {
					for idx := range s.inst {
						if s.inst[idx].known && !s.inst[idx].fresh {
							if err := s.checkGone(idx); err != nil {
								return err
							}
							s.inst[idx].known, s.inst[idx].quota, s.inst[idx].counted = false, 0, 0
						}
					}
					if cnt, tot, ok := s.totals(); ok && cnt != tot {
						return fmt.Errorf("total-ne-sum: after cleanup the running total is %d, the per-instance counts sum to %d", cnt, tot)
					}
					// the freed capacity is available: the counted total only contains live instances
					var live int32
					for _, in := range s.inst {
						if in.fresh {
							live += in.counted
						}
					}
					if cnt, _, ok := s.totals(); ok && cnt != live {
						return fmt.Errorf("capacity-not-freed: live instances hold %d in flight but the server counts %d", live, cnt)
					}
				}
			}
			return nil
		},
		Canon: func(si interface{}) string {
			s := si.(*sys)
			var in []string
			for _, x := range s.inst {
				in = append(in, fmt.Sprintf("%s:%v:%v:%d:%d", x.name, x.fresh, x.known, x.quota, x.counted))
			}
			sort.Strings(in)
			return fmt.Sprint(in, s.store())
		},
	}
}

// freedCapacity: "...so that the freed capacity is available to the remaining instances". k instances saturate the
// allocate schema (limit 40) until their quotas settle; one goes silent and is cleaned up; the survivors go on sending
// the very same overloaded reports (settled instances repeat themselves): within 40 more rounds the survivors'
// quotas together must have grown by what the dead instance held (up to the minimum reserve the allocator keeps).
func freedCapacity(c *ev.Check) {
	overloaded := func(s *sys, i int) error {
		in := &s.inst[i]
		_ = s.rig.L.Heartbeat(in.name)
		rep := limrig.Report(up, in.name, "a", proxyv1alpha1.MaxRequestsInflight, proxyv1alpha1.GlobalAllocateLimit, in.quota, 0, in.quota, 150)
		rep.Name = up + "." + in.name
		if in.quota == 0 {
			rep.Spec.LimitItemConfigurations[0].LimitItemDetail = proxyv1alpha1.LimitItemDetail{}
		}
		ans, err := s.rig.L.UpdateRateLimitConditionStatus(up, rep)
		if err != nil {
			return err
		}
		for _, it := range ans.Spec.LimitItemConfigurations {
			if it.Name == "a" && it.MaxRequestsInflight != nil {
				in.quota = it.MaxRequestsInflight.Max
			}
		}
		return nil
	}
	for _, store := range []string{"local", "k8s-writeback"} {
		for _, k := range []int{2, 3, 4} {
			for dead := 0; dead < k; dead++ {
				s := newSysOn(k, store)
				sum := func(skip int) (t int32) {
					for i := range s.inst {
						if i != skip {
							t += s.inst[i].quota
						}
					}
					return
				}
				for round := 0; round < 60; round++ {
					for i := 0; i < k; i++ {
						if err := overloaded(s, i); err != nil {
							c.EngineError("freed-capacity: report failed: " + err.Error())
							return
						}
					}
				}
				held, before := s.inst[dead].quota, sum(dead)
				s.rig.H.SetHeartbeat(s.inst[dead].name, vtime.Now().Add(-time.Hour))
				s.rig.H.CleanupTimeoutClient()
				s.rig.H.CleanupUnknownCondition()
				for round := 0; round < 40; round++ {
					for i := 0; i < k; i++ {
						if i != dead {
							if err := overloaded(s, i); err != nil {
								c.EngineError("freed-capacity: report failed: " + err.Error())
								return
							}
						}
					}
				}
				after := sum(dead)
				c.Add("freed_capacity_scenarios", 1)
				c.Outcome("freed_capacity", fmt.Sprintf("%s k=%d dead held %d survivors %d->%d", store, k, held, before, after))
				if held > 1 && after <= before {
					c.Violation("freed-capacity-not-available", fmt.Sprintf("%d saturated instances on a limit of 40 (%s store), quotas settled; instance %d (quota %d) went silent and both cleanup passes ran; after 40 more rounds of overloaded reports the %d survivors still hold %d together (before: %d) - the freed capacity never reached them", k, store, dead, held, k-1, after, before),
						map[string]interface{}{"store": store, "instances": k, "dead": dead})
				}
			}
		}
	}
}

// twoUpstreams: a dead instance that holds quota on TWO upstreams, and whose conditions reach the periodic pass for
// unknown clients (its last reports land after the time-out pass has forgotten it): one such pass forgets it on both.
func twoUpstreams(c *ev.Check) {
	vsched.InlineGo = true
	vtime.SetVirtual(time.Unix(1700000000, 0))
	rig := limrig.New(1, "local")
	rig.Gain(0)
	ups := []string{"up-one", "up-two"}
	for _, u := range ups {
		if err := rig.ApplyCluster(limrig.MIFCluster(u, "a", proxyv1alpha1.GlobalAllocateLimit, 1, 40)); err != nil {
			c.EngineError("two-upstreams: " + err.Error())
			return
		}
	}
	report := func(inst, u string, hb bool) {
		if hb {
			_ = rig.L.Heartbeat(inst)
		}
		rep := limrig.Report(u, inst, "a", proxyv1alpha1.MaxRequestsInflight, proxyv1alpha1.GlobalAllocateLimit, 0, 0, 0, 150)
		rep.Spec.LimitItemConfigurations[0].LimitItemDetail = proxyv1alpha1.LimitItemDetail{}
		if _, err := rig.L.UpdateRateLimitConditionStatus(u, rep); err != nil {
			c.EngineError("two-upstreams: report: " + err.Error())
		}
	}
	for _, inst := range []string{"gwA", "gwB"} {
		for _, u := range ups {
			report(inst, u, true)
		}
	}
	rig.H.SetHeartbeat("gwA", vtime.Now().Add(-time.Hour))
	rig.H.CleanupTimeoutClient()
	for _, u := range ups { // the dying instance's last reports arrive after it was forgotten (no heartbeat with them)
		report("gwA", u, false)
	}
	rig.H.CleanupUnknownCondition()
	c.Add("two_upstream_scenarios", 1)
	for _, u := range ups {
		if cd, err := rig.L.GetRateLimitCondition(u, limrig.ConditionName(u, "gwA")); err == nil && cd != nil {
			c.Violation("two-upstreams/dead-condition-kept", fmt.Sprintf("instance gwA holds quota on two upstreams, went silent and was forgotten by the time-out pass; its last reports landed afterwards; one pass for unknown clients later its condition for %s is still on record", u), map[string]interface{}{"upstream": u})
		}
		if cd, err := rig.L.GetRateLimitCondition(u, limrig.ConditionName(u, "gwB")); err != nil || cd == nil {
			c.Violation("two-upstreams/live-instance-touched", fmt.Sprintf("the live instance gwB lost its condition for %s", u), map[string]interface{}{"upstream": u})
		}
	}
}

func (s *sys) cleanedBoth(string) bool { return false }

// ------------------------------------------------------------------ engine A: the cleanup goroutine vs requests

type obsA struct {
	liveBefore, liveAfter string
	deadCond              string
	deadCounted           int32
	cnt, tot              int32
	errs                  []string
}

func harnessA(c *ev.Check, name string, liveOp, deadOp string, bound, shards int) xa.Harness {
	body := func() interface{} {
		var s *sys
		o := &obsA{}
		vsched.Passthrough(func() {
			s = newSys(2)
			vsched.InlineGo = false
			// gw0 stays live, gw1 dies; both have a quota and counted in-flight
			for i := 0; i < 2; i++ {
				_ = s.rig.L.Heartbeat(s.inst[i].name)
				_ = s.report(i)
				_ = s.report(i) // second report: the condition now carries the instance label
				_ = s.acquire(i, 2)
			}
			s.rig.H.SetHeartbeat("gw1", vtime.Now().Add(-time.Hour))
			vtime.Advance(time.Second)
		})
		vsched.GoNamed("cleanup", func() { s.rig.H.CleanupTimeoutClient() })
		if liveOp != "" {
			vsched.GoNamed("live", func() {
				var err error
				if liveOp == "report" {
					err = s.report(0)
				} else {
					err = s.acquire(0, 3)
				}
				if err != nil {
					o.errs = append(o.errs, "live: "+err.Error())
				}
			})
		}
		if deadOp != "" {
			// a last request of the dying instance that was already on its way
			vsched.GoNamed("dying", func() {
				if deadOp == "report" {
					_ = s.report(1)
				} else {
					_ = s.acquire(1, 1)
				}
			})
		}
		vsched.Join()
		vsched.Passthrough(func() {
			vsched.InlineGo = true
			// the next periodic passes run 10 s later; gw0 kept sending heartbeats, gw1 is dead and sends nothing any more
			vtime.Advance(10 * time.Second)
			_ = s.rig.L.Heartbeat("gw0")
			vtime.Advance(time.Second)
			s.rig.H.CleanupTimeoutClient()
			s.rig.H.CleanupUnknownCondition()
			c0, n0, _ := s.view("gw0")
			o.liveAfter = fmt.Sprint(c0 != "", n0)
			o.deadCond, o.deadCounted, _ = s.view("gw1")
			o.cnt, o.tot, _ = s.totals()
		})
		return o
	}
	check := func(x *vsched.Exec) error {
		o := x.Obs.(*obsA)
		c.Outcome("cleanup_race_outcomes", name+o.liveAfter+fmt.Sprint(o.deadCounted, o.cnt, o.tot, len(o.errs)))
		if len(o.errs) > 0 {
			return fmt.Errorf("live-request-failed: %v", o.errs)
		}
		if o.deadCond != "" {
			return fmt.Errorf("dead-quota-kept: the silent instance's condition survived the cleanup passes: %s", o.deadCond)
		}
		if o.deadCounted != 0 {
			return fmt.Errorf("dead-inflight-kept: %d in-flight requests are still counted for the silent instance", o.deadCounted)
		}
		if o.cnt != o.tot {
			return fmt.Errorf("total-ne-sum: running total %d != sum of instance counts %d", o.cnt, o.tot)
		}
		if !strings.HasPrefix(o.liveAfter, "true") {
			return fmt.Errorf("live-instance-touched: the live instance's condition is gone after the cleanup")
		}
		return nil
	}
	return xa.Harness{Name: name, Bound: bound, Shards: shards, Horizon: 30000, Body: body, Check: check}
}

func harnesses(c *ev.Check, b int) []xa.Harness {
	sh := 1
	if b >= 2 {
		sh = 4
	}
	return []xa.Harness{
		harnessA(c, "cleanup-vs-live-report", "report", "", b, sh),
		harnessA(c, "cleanup-vs-live-acquire", "acquire", "", b, sh),
		harnessA(c, "cleanup-vs-dying-acquire", "", "acquire", b, sh),
		harnessA(c, "cleanup-vs-dying-report", "", "report", b, sh),
	}
}

func main() {
	c := ev.Start("C18", "model_checking")
	c.Assume = []string{
		"'within the cleanup period' = after one run of each periodic pass (cleanupTimeoutClient and cleanupUnknownCondition) while the instance stays silent; liveness is virtual: a silent instance's last heartbeat is set one hour back instead of waiting 3 s",
		"an instance that sends a report or an acquire also sends heartbeats (gateways heartbeat every second)",
		"engine A: ratelimter.go, clientcache.go, store/local/*.go and store/flowcontrol/maxinflight.go instrumented at sync-operation granularity; a request of the dying instance that races the cleanup is followed by the next periodic passes before judging",
	}
	specs := []xstate.Spec{spec(2), spec(3), specOn(2, "k8s-writeback"), specIDs("url-prefix"), specIDs("long"), specStray(), specStrategyEdit()}
	if c.ReplayFile() != "" {
		xstate.ReplayIfAsked(c, specs)
		xa.ReplayIfAsked(c, harnesses(c, 0))
	}
	var tasks []ev.Task
	tasks = append(tasks, xstate.Tasks(c, spec(2), c.Pick(6, 8), 15)...)
	tasks = append(tasks, xstate.Tasks(c, spec(3), c.Pick(5, 6), 21)...)
	tasks = append(tasks, xstate.Tasks(c, specOn(2, "k8s-writeback"), c.Pick(5, 7), 16)...)
	tasks = append(tasks, xstate.Tasks(c, specIDs("url-prefix"), c.Pick(5, 6), 15)...)
	tasks = append(tasks, xstate.Tasks(c, specIDs("long"), c.Pick(5, 6), 15)...)
	tasks = append(tasks, xstate.Tasks(c, specStray(), c.Pick(5, 6), 17)...)
	tasks = append(tasks, ev.Task{Name: "heartbeat-timings", Run: func() { heartbeatTimings(c) }})
	tasks = append(tasks, ev.Task{Name: "freed-capacity", Run: func() { freedCapacity(c) }})
	tasks = append(tasks, ev.Task{Name: "two-upstreams", Run: func() { twoUpstreams(c) }})
	tasks = append(tasks, xstate.Tasks(c, specStrategyEdit(), c.Pick(5, 6), 16)...)
	bounds := []int{0, 1, 2}
	if c.Thorough() {
		bounds = []int{0, 1, 2, 3}
	}
	for _, b := range bounds {
		for _, h := range harnesses(c, b) {
			tasks = append(tasks, xa.Tasks(c, h)...)
		}
	}
	c.RunTasks(tasks)
	c.Finish(map[string]interface{}{
		"states":                        c.Counter("states") + c.Counter("choice_points"),
		"transitions":                   c.Counter("transitions") + c.Counter("steps"),
		"traces_validated_against_impl": c.Counter("schedules") + c.Counter("replays"),
		"explanation":                   "states/transitions of the join/report/acquire/silence/new-identity/cleanup history search on the real rateLimiter (engine B) plus decision points/steps of the cleanup-goroutine race harnesses (engine A).",
	})
}
