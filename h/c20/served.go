package main

// Which kinds are served with a status subresource, and with which strategies, is taken from the control plane's own
// REST storage provider (pkg/gateway/controlplane/registry/proxy/rest + apiserver-runtime's NewResourceREST), not from
// the harness's reading of it: the provider builds its stores over a storage decorator that hands out no storage (the
// strategies are applied before anything is stored), and every resource that comes out of it is judged with the
// strategies found in its stores - the status rules apply to exactly those that have a "/status" sibling.

import (
	"fmt"
	"sort"
	"strings"

	"k8s.io/apimachinery/pkg/runtime"
	"k8s.io/apimachinery/pkg/runtime/schema"
	"k8s.io/apiserver/pkg/registry/generic"
	"k8s.io/apiserver/pkg/registry/rest"
	serverstorage "k8s.io/apiserver/pkg/server/storage"
	"k8s.io/apiserver/pkg/storage"
	"k8s.io/apiserver/pkg/storage/storagebackend"
	"k8s.io/apiserver/pkg/storage/storagebackend/factory"
	"k8s.io/client-go/tools/cache"

	"github.com/kubewharf/apiserver-runtime/pkg/registry"
	"github.com/kubewharf/apiserver-runtime/pkg/scheme"
	runtimestorage "github.com/kubewharf/apiserver-runtime/pkg/server/storage"

	proxyv1alpha1 "github.com/kubewharf/kubegateway/pkg/apis/proxy/v1alpha1"
	proxyrest "github.com/kubewharf/kubegateway/pkg/gateway/controlplane/registry/proxy/rest"
)

type noStorage struct{ config *storagebackend.Config }

func (g noStorage) GetRESTOptions(resource schema.GroupResource) (generic.RESTOptions, error) {
	return generic.RESTOptions{StorageConfig: g.config, DeleteCollectionWorkers: 1, ResourcePrefix: resource.Group + "/" + resource.Resource,
		Decorator: func(*storagebackend.Config, string, func(runtime.Object) (string, error), func() runtime.Object, func() runtime.Object, storage.AttrFunc, storage.IndexerFuncs, *cache.Indexers) (storage.Interface, factory.DestroyFunc, error) {
			return nil, func() {}, nil
		}}, nil
}

// servedKinds returns one kind per resource the real provider serves, with the strategies of its stores.
func servedKinds() ([]kind, error) {
	resourceConfig := serverstorage.NewResourceConfig()
	resourceConfig.EnableVersions(proxyv1alpha1.SchemeGroupVersion)
	defaultFactory := serverstorage.NewDefaultStorageFactory(storagebackend.Config{Prefix: "/registry"}, "application/json", scheme.Codecs,
		serverstorage.NewDefaultResourceEncodingConfig(scheme.Scheme), resourceConfig, nil)
	storageFactory, err := runtimestorage.NewStorageFactory(defaultFactory)
	if err != nil {
		return nil, err
	}
	provider, err := proxyrest.NewRESTStorageProvider(scheme.Scheme, registry.NewRESTStorageOptionsFactory(storageFactory))
	if err != nil {
		return nil, err
	}
	cfg := &storagebackend.Config{Prefix: "/registry", Codec: scheme.Codecs.LegacyCodec(proxyv1alpha1.SchemeGroupVersion)}
	groupInfo, enabled, err := provider.NewRESTStorage(resourceConfig, noStorage{cfg})
	if err != nil || !enabled {
		return nil, fmt.Errorf("NewRESTStorage: enabled=%v err=%v", enabled, err)
	}
	m := groupInfo.VersionedResourcesStorageMap[proxyv1alpha1.SchemeGroupVersion.Version]
	var names []string
	for k := range m {
		if !strings.Contains(k, "/") {
			names = append(names, k)
		}
	}
	sort.Strings(names)
	var out []kind
	for _, res := range names {
		obj, ok := m[res].(*registry.ObjectREST)
		if !ok {
			return nil, fmt.Errorf("resource %s: store of type %T", res, m[res])
		}
		main, ok := obj.Store.UpdateStrategy.(rest.RESTCreateUpdateStrategy)
		if !ok || obj.Store.CreateStrategy == nil {
			return nil, fmt.Errorf("resource %s: strategies %T / %T", res, obj.Store.CreateStrategy, obj.Store.UpdateStrategy)
		}
		var k kind
		switch res {
		case "upstreamclusters":
			k = ucKind(main)
		case "ratelimitconditions":
			k = rlcKind("", main, false)
		default:
			return nil, fmt.Errorf("the control plane serves a resource this check has no objects for: %s", res)
		}
		k.status, k.subStatus = nil, false
		if st, ok := m[res+"/status"]; ok {
			sr, ok := st.(*registry.StatusREST)
			if !ok {
				return nil, fmt.Errorf("resource %s/status: store of type %T", res, st)
			}
			k.status, k.subStatus = sr.Store.UpdateStrategy, true
		}
		k.name = fmt.Sprintf("%s as served (status subresource: %v)", res, k.subStatus)
		out = append(out, k)
	}
	return out, nil
}
