// C20 — control-plane objects: spec/status separation and generation conventions.
// Engine C: the full product of field differences between a stored and a
// submitted object is pushed through the generic registry's entry points
// (rest.BeforeCreate / rest.BeforeUpdate) with the strategies exactly as
// pkg/gateway/controlplane/registry/proxy/rest registers them.
package main

import (
	"context"
	"encoding/json"
	"fmt"
	"reflect"
	"sort"
	"strings"

	metav1 "k8s.io/apimachinery/pkg/apis/meta/v1"
	"k8s.io/apimachinery/pkg/runtime"
	genericapirequest "k8s.io/apiserver/pkg/endpoints/request"
	"k8s.io/apiserver/pkg/registry/rest"

	apiequality "k8s.io/apimachinery/pkg/api/equality"
	"k8s.io/apiserver/pkg/admission"

	"github.com/kubewharf/apiserver-runtime/pkg/registry"
	"github.com/kubewharf/apiserver-runtime/pkg/scheme"

	gatewayinstall "github.com/kubewharf/kubegateway/pkg/apis/install"
	proxyv1alpha1 "github.com/kubewharf/kubegateway/pkg/apis/proxy/v1alpha1"

	upstreamclusteradmission "github.com/kubewharf/kubegateway/plugin/admission/upstreamcluster"

	"verifh/ev"
	"verifh/kit"
)

const nDims = 12 // (bit 11: a spec field CLEARED - set in the stored object, unset in the submitted one) + 7 yes/no dimensions + a 2-bit annotation shape (bits 7-8) + "no labels at all" (bit 9) + "an annotation with an empty value is added" (bit 10)

var dimNames = []string{"labels", "annotations", "spec-scalar", "spec-nested", "status", "generation", "finalizers", "annotation-key-removed", "annotation-key-added"}

type kind struct {
	name           string
	main           rest.RESTCreateUpdateStrategy
	status         rest.RESTUpdateStrategy // nil: no status subresource
	subStatus      bool
	noStatusFields bool // the kind's status type has no fields: a status write cannot change anything
	mk             func(diff uint, gen int64) runtime.Object
	spec           func(o runtime.Object) interface{}
	stat           func(o runtime.Object) interface{}
}

func meta(diff uint, gen int64) metav1.ObjectMeta {
	m := metav1.ObjectMeta{Name: "obj", UID: "u1", ResourceVersion: "5", Generation: gen,
		Labels: map[string]string{"l": "1"}, Annotations: map[string]string{"a": "1", "b": "1"}, Finalizers: []string{"f1"}}
	if diff&1 != 0 {
		m.Labels = map[string]string{"l": "2", "m": "x"}
	}
	if diff&1024 != 0 {
		// a key whose value is the empty string: present, but the kind of entry a tidy-up step likes to drop
		if m.Annotations == nil {
			m.Annotations = map[string]string{}
		}
		m.Annotations["e"] = ""
	}
	if diff&512 != 0 {
		m.Labels = nil // an object without labels: stored that way it is the shape a "restore the old labels" step can mishandle
	}
	if diff&2 != 0 {
		m.Annotations["a"] = "2"
	}
	// the shape of the change matters as much as its presence: a value edit, a key only removed (the submitted map is a
	// subset of the stored one), a key only added, everything removed
	switch (diff >> 7) & 3 {
	case 1:
		delete(m.Annotations, "b")
	case 2:
		m.Annotations["c"] = "1"
	case 3:
		m.Annotations = nil
	}
	if diff&32 != 0 {
		m.Generation = gen + 41
	}
	if diff&64 != 0 {
		m.Finalizers = []string{"f1", "f2"}
	}
	return m
}

func ucKind(main rest.RESTCreateUpdateStrategy) kind {
	return kind{
		name: "UpstreamCluster", main: main, status: registry.DefaultStatusRESTStrategy{RESTCreateUpdateStrategy: main}, subStatus: true, noStatusFields: true,
		mk: func(diff uint, gen int64) runtime.Object {
			o := &proxyv1alpha1.UpstreamCluster{ObjectMeta: meta(diff, gen)}
			o.Spec.Servers = []proxyv1alpha1.UpstreamClusterServer{{Endpoint: "https://a:1"}, {Endpoint: "https://b:1"}}
			o.Spec.ClientConfig.QPS = 5
			if diff&4 != 0 {
				o.Spec.ClientConfig.QPS = 6
			}
			if diff&8 != 0 {
				o.Spec.Servers[1].Endpoint = "https://c:1"
			}
			if diff&2048 != 0 {
				o.Spec.ClientConfig.QPS = 0 // cleared: the submitted spec is the stored one minus a value
			}
			// UpstreamClusterStatus has no fields: bit 16 cannot change it
			return o
		},
		spec: func(o runtime.Object) interface{} { return o.(*proxyv1alpha1.UpstreamCluster).Spec },
		stat: func(o runtime.Object) interface{} { return o.(*proxyv1alpha1.UpstreamCluster).Status },
	}
}

func rlcKind(name string, main rest.RESTCreateUpdateStrategy, subStatus bool) kind {
	k := kind{
		name: name, main: main, subStatus: subStatus,
		mk: func(diff uint, gen int64) runtime.Object {
			o := &proxyv1alpha1.RateLimitCondition{ObjectMeta: meta(diff, gen)}
			o.Spec.UpstreamCluster = "u"
			o.Spec.Instance = "i1"
			o.Spec.LimitItemConfigurations = []proxyv1alpha1.RateLimitItemConfiguration{{Name: "s", LimitItemDetail: proxyv1alpha1.LimitItemDetail{MaxRequestsInflight: &proxyv1alpha1.MaxRequestsInflightFlowControlSchema{Max: 3}}}}
			o.Status.LimitItemStatuses = []proxyv1alpha1.RateLimitItemStatus{{Name: "s", RequestLevel: 10}}
			if diff&4 != 0 {
				o.Spec.Instance = "i2"
			}
			if diff&8 != 0 {
				o.Spec.LimitItemConfigurations[0].MaxRequestsInflight.Max = 4
			}
			if diff&16 != 0 {
				o.Status.LimitItemStatuses[0].RequestLevel = 90
			}
			if diff&2048 != 0 {
				o.Spec.Instance = "" // cleared
			}
			return o
		},
		spec: func(o runtime.Object) interface{} { return o.(*proxyv1alpha1.RateLimitCondition).Spec },
		stat: func(o runtime.Object) interface{} { return o.(*proxyv1alpha1.RateLimitCondition).Status },
	}
	if subStatus {
		k.status = registry.DefaultStatusRESTStrategy{RESTCreateUpdateStrategy: main}
	}
	return k
}

func diffNames(d uint) string {
	s := ""
	for i := 0; i < nDims; i++ {
		if d&(1<<uint(i)) != 0 && i < 7 {
			s += dimNames[i] + " "
		}
	}
	switch (d >> 7) & 3 {
	case 1:
		s += "annotation-key-removed "
	case 2:
		s += "annotation-key-added "
	case 3:
		s += "all-annotations-removed "
	}
	if d&512 != 0 {
		s += "no-labels "
	}
	if d&1024 != 0 {
		s += "annotation-with-empty-value "
	}
	if d&2048 != 0 {
		s += "spec-field-cleared "
	}
	if s == "" {
		return "(none)"
	}
	return s
}

func gen(o runtime.Object) int64 {
	switch x := o.(type) {
	case *proxyv1alpha1.UpstreamCluster:
		return x.Generation
	case *proxyv1alpha1.RateLimitCondition:
		return x.Generation
	}
	return -1
}

func labels(o runtime.Object) map[string]string {
	switch x := o.(type) {
	case *proxyv1alpha1.UpstreamCluster:
		return x.Labels
	case *proxyv1alpha1.RateLimitCondition:
		return x.Labels
	}
	return nil
}

// same: by value - nil and empty maps / lists are the same value (what storage hands back for them)
func same(a, b interface{}) bool { return apiequality.Semantic.DeepEqual(a, b) }

func annotations(o runtime.Object) map[string]string {
	switch x := o.(type) {
	case *proxyv1alpha1.UpstreamCluster:
		return x.Annotations
	case *proxyv1alpha1.RateLimitCondition:
		return x.Annotations
	}
	return nil
}

// chains: the same per-step oracle, but from every stored object REACHABLE through the strategies themselves
// (breadth-first over stored objects, deduplicated on their JSON form): the stored side of a step is whatever the
// real PrepareForUpdate chain produced earlier, not a hand-built object.
func chains(c *ev.Check, k kind, g0 int64, maxGen int64) {
	ctx := genericapirequest.NewContext()
	key := func(o runtime.Object) string { b, _ := json.Marshal(o); return string(b) }
	start := k.mk(0, g0)
	seen := map[string]bool{key(start): true}
	type node struct {
		o    runtime.Object
		path string
	}
	frontier := []node{{start, ""}}
	entries := []string{"main"}
	if k.status != nil {
		entries = append(entries, "status")
	}
	for len(frontier) > 0 {
		n := frontier[0]
		frontier = frontier[1:]
		c.Add("chain_states", 1)
		if gen(n.o) >= maxGen {
			continue
		}
		for _, e := range entries {
			for d := uint(0); d < 1<<nDims; d++ {
				if d&(32|64) != 0 {
					continue // submitted generation / finalizers: covered by the flat product, they do not create new stored shapes worth chaining
				}
				old, obj := n.o.DeepCopyObject(), k.mk(d, gen(n.o))
				strat := rest.RESTUpdateStrategy(k.main)
				if e == "status" {
					strat = k.status
				}
				c.Add("chain_transitions", 1)
				var err error
				path := fmt.Sprintf("%s -> %s[%s]", n.path, e, diffNames(d))
				if p := kit.Try(func() { err = rest.BeforeUpdate(strat, ctx, obj, old) }); p != "" || err != nil {
					c.Violation("chain/update-failed", fmt.Sprintf("%s after %s: %v %s", k.name, path, err, p), nil)
					continue
				}
				// judged on what the step STORES (obj after the strategy ran), not on what was submitted: a step that
				// drops part of the submission must not count it as a change either
				specSame := same(k.spec(obj), k.spec(n.o))
				annSame := same(annotations(obj), annotations(n.o))
				replay := map[string]interface{}{"kind": k.name, "history": path, "start_generation": g0}
				if e == "main" {
					want := gen(n.o)
					if !specSame || !annSame {
						want++
					}
					if gen(obj) != want {
						c.Violation("chain/main-generation", fmt.Sprintf("%s: after%s the generation is %d, expected %d (stored object had %d)", k.name, path, gen(obj), want, gen(n.o)), replay)
					}
					if k.subStatus && !reflect.DeepEqual(k.stat(obj), k.stat(n.o)) {
						c.Violation("chain/main-status-changed", fmt.Sprintf("%s: after%s the main update changed the stored status", k.name, path), replay)
					}
				} else {
					if !specSame {
						c.Violation("chain/status-spec-changed", fmt.Sprintf("%s: after%s the status update changed the stored spec", k.name, path), replay)
					}
					if !reflect.DeepEqual(labels(obj), labels(n.o)) {
						c.Violation("chain/status-labels-changed", fmt.Sprintf("%s: after%s the status update changed the stored labels", k.name, path), replay)
					}
					if !reflect.DeepEqual(k.stat(obj), k.stat(k.mk(d, 0))) {
						c.Violation("chain/status-not-stored", fmt.Sprintf("%s: after%s the status update did not store the submitted status", k.name, path), replay)
					}
					if annSame && gen(obj) != gen(n.o) {
						c.Violation("chain/status-generation", fmt.Sprintf("%s: after%s the status update changed the generation %d -> %d", k.name, path, gen(n.o), gen(obj)), replay)
					}
				}
				if kk := key(obj); !seen[kk] {
					seen[kk] = true
					c.SetMax("chain_depth", int64(strings.Count(path, "->")))
					frontier = append(frontier, node{obj, path})
				}
			}
		}
	}
}

// ------------------------------------------------------------------ the whole write pipeline of an UpstreamCluster
// admission plugin (normalises the rules) -> rest.BeforeCreate / BeforeUpdate with the registered strategy -> storage
// round trip (JSON: what comes back from the store has nil where a list was empty). A client that submits the SAME
// manifest again changes nothing; one that edits the spec changes the spec.

var admitPlugin = upstreamclusteradmission.NewUpstreamClusterPlugin().(admission.MutationInterface)

func admit(obj *proxyv1alpha1.UpstreamCluster, op admission.Operation) error {
	gvk := proxyv1alpha1.SchemeGroupVersion.WithKind("UpstreamCluster")
	gvr := proxyv1alpha1.SchemeGroupVersion.WithResource("upstreamclusters")
	var opts runtime.Object = &metav1.CreateOptions{}
	if op == admission.Update {
		opts = &metav1.UpdateOptions{}
	}
	a := admission.NewAttributesRecord(obj, nil, gvk, "", obj.Name, gvr, "", op, opts, false, nil)
	return admitPlugin.Admit(context.TODO(), a, admission.NewObjectInterfacesFromScheme(scheme.Scheme))
}

func roundTrip(o *proxyv1alpha1.UpstreamCluster) *proxyv1alpha1.UpstreamCluster {
	b, _ := json.Marshal(o)
	out := &proxyv1alpha1.UpstreamCluster{}
	_ = json.Unmarshal(b, out)
	return out
}

func manifests() map[string]func() *proxyv1alpha1.UpstreamCluster {
	mk := func(mut func(o *proxyv1alpha1.UpstreamCluster)) func() *proxyv1alpha1.UpstreamCluster {
		return func() *proxyv1alpha1.UpstreamCluster {
			o := &proxyv1alpha1.UpstreamCluster{ObjectMeta: metav1.ObjectMeta{Name: "obj"}}
			o.Spec.Servers = []proxyv1alpha1.UpstreamClusterServer{{Endpoint: "https://a:1"}}
			o.Spec.DispatchPolicies = []proxyv1alpha1.DispatchPolicy{{Strategy: proxyv1alpha1.RoundRobin, Rules: []proxyv1alpha1.DispatchPolicyRule{{Verbs: []string{"get", "list"}, APIGroups: []string{"*"}, Resources: []string{"pods"}}}}}
			mut(o)
			return o
		}
	}
	return map[string]func() *proxyv1alpha1.UpstreamCluster{
		"rule with the usual fields only (others omitted)": mk(func(*proxyv1alpha1.UpstreamCluster) {}),
		"rule with every list field set": mk(func(o *proxyv1alpha1.UpstreamCluster) {
			r := &o.Spec.DispatchPolicies[0].Rules[0]
			r.ResourceNames, r.Users, r.UserGroups, r.NonResourceURLs = []string{"a"}, []string{"alice"}, []string{"g"}, []string{"/healthz"}
			r.ServiceAccounts = []proxyv1alpha1.ServiceAccountRef{{Namespace: "ns", Name: "sa"}}
		}),
		"rule with explicit empty lists": mk(func(o *proxyv1alpha1.UpstreamCluster) {
			r := &o.Spec.DispatchPolicies[0].Rules[0]
			r.ResourceNames, r.Users, r.UserGroups, r.NonResourceURLs = []string{}, []string{}, []string{}, []string{}
		}),
		"rule that normalisation rewrites (* and inverted entries)": mk(func(o *proxyv1alpha1.UpstreamCluster) {
			r := &o.Spec.DispatchPolicies[0].Rules[0]
			r.Verbs, r.Resources, r.UserGroups = []string{"get", "*"}, []string{"-secrets", "pods"}, []string{"-system:masters"}
		}),
		"no policies, no flow control, annotations present": mk(func(o *proxyv1alpha1.UpstreamCluster) {
			o.Spec.DispatchPolicies = nil
			o.Annotations = map[string]string{"a": "1"}
		}),
		"explicitly empty annotations and labels": mk(func(o *proxyv1alpha1.UpstreamCluster) {
			o.Annotations, o.Labels = map[string]string{}, map[string]string{}
		}),
		"two policies, flow control, logging": mk(func(o *proxyv1alpha1.UpstreamCluster) {
			o.Spec.DispatchPolicies = append(o.Spec.DispatchPolicies, proxyv1alpha1.DispatchPolicy{Strategy: proxyv1alpha1.RoundRobin, FlowControlSchemaName: "s", Rules: []proxyv1alpha1.DispatchPolicyRule{{Verbs: []string{"*"}, NonResourceURLs: []string{"*"}}}})
			o.Spec.FlowControl.Schemas = []proxyv1alpha1.FlowControlSchema{{Name: "s", FlowControlSchemaConfiguration: proxyv1alpha1.FlowControlSchemaConfiguration{MaxRequestsInflight: &proxyv1alpha1.MaxRequestsInflightFlowControlSchema{Max: 3}}}}
			o.Spec.Logging.Mode = proxyv1alpha1.LogOn
		}),
	}
}

func pipeline(c *ev.Check) {
	ctx := genericapirequest.NewContext()
	main := registry.ClusterScopeStorageStrategySingleton
	var names []string
	ms := manifests()
	for n := range ms {
		names = append(names, n)
	}
	sort.Strings(names)
	for _, n := range names {
		viol := func(key, f string, a ...interface{}) {
			c.Violation("pipeline/"+key, fmt.Sprintf("UpstreamCluster manifest [%s]: ", n)+fmt.Sprintf(f, a...), map[string]interface{}{"manifest": n})
		}
		// create
		obj := ms[n]()
		var err error
		if p := kit.Try(func() {
			if err = admit(obj, admission.Create); err == nil {
				err = rest.BeforeCreate(main, ctx, obj)
			}
		}); p != "" || err != nil {
			viol("create-failed", "%v %s", err, p)
			continue
		}
		if obj.Generation != 1 {
			viol("create-generation", "created with generation %d", obj.Generation)
		}
		stored := roundTrip(obj)
		stored.ResourceVersion, stored.UID = "7", "uid-1"
		// the same manifest again, k times: nothing changes, the generation stays
		for k := 0; k < 3; k++ {
			c.Add("pipeline_updates", 1)
			sub := ms[n]()
			sub.ResourceVersion, sub.UID = stored.ResourceVersion, stored.UID
			if p := kit.Try(func() {
				if err = admit(sub, admission.Update); err == nil {
					err = rest.BeforeUpdate(main, ctx, sub, stored.DeepCopy())
				}
			}); p != "" || err != nil {
				viol("update-failed", "%v %s", err, p)
				break
			}
			if sub.Generation != stored.Generation {
				viol("noop-update-bumps-generation", "the same manifest was submitted again (update #%d): generation %d -> %d although neither spec nor annotations changed; stored spec %s, submitted spec after admission %s", k+1, stored.Generation, sub.Generation, kit.JSON(stored.Spec), kit.JSON(sub.Spec))
				break
			}
			stored = roundTrip(sub)
			stored.ResourceVersion = "7"
		}
		// an edit of the spec: +1, once
		c.Add("pipeline_updates", 1)
		sub := ms[n]()
		sub.ResourceVersion, sub.UID = stored.ResourceVersion, stored.UID
		sub.Spec.Servers = append(sub.Spec.Servers, proxyv1alpha1.UpstreamClusterServer{Endpoint: "https://b:1"})
		if p := kit.Try(func() {
			if err = admit(sub, admission.Update); err == nil {
				err = rest.BeforeUpdate(main, ctx, sub, stored.DeepCopy())
			}
		}); p == "" && err == nil && sub.Generation != stored.Generation+1 {
			viol("spec-edit-generation", "a server was added: generation %d -> %d, expected +1", stored.Generation, sub.Generation)
		}
		c.Outcome("cases", "pipeline/"+n)
	}
}

func main() {
	c := ev.Start("C20", "exploration")
	gatewayinstall.Install(scheme.Scheme)
	c.Assume = []string{
		"strategies are taken exactly as rest.go registers them: ClusterScopeStorageStrategySingleton (+DefaultStatusRESTStrategy around it) for UpstreamCluster, NewDefaultRESTStrategy(false,false) for RateLimitCondition; because UpstreamClusterStatus has no fields the same generic strategy pair is additionally driven with RateLimitCondition objects (a kind with real status fields)",
		"the same product runs once more with the kinds, status subresources and strategies found in the stores that the control plane's own REST storage provider builds (over a storage decorator that hands out no storage)",
		"objects enter through rest.BeforeCreate / rest.BeforeUpdate (k8s.io/apiserver registry), not through etcd-backed storage",
		"nil versus empty maps/lists are the same value (the pipeline scenarios submit both spellings: the generation must not move); on a status update whose annotations differ the generation is not judged (the statement does not say whether that counts)",
		"pipeline scenarios: the admission plugin's Admit, then rest.BeforeCreate/BeforeUpdate with the registered strategy, then a JSON round trip as storage does (nil for what was empty); etcd itself is not involved",
	}
	kinds := []kind{
		ucKind(registry.ClusterScopeStorageStrategySingleton),
		rlcKind("RateLimitCondition(as registered, no status subresource)", registry.NewDefaultRESTStrategy(false, false), false),
		rlcKind("RateLimitCondition(generic strategy with status subresource)", registry.ClusterScopeStorageStrategySingleton, true),
	}
	// and every resource as the control plane's own storage provider serves it
	served, err := servedKinds()
	if err != nil {
		c.EngineError("served kinds: " + err.Error())
	}
	for _, k := range served {
		c.Outcome("served_kinds", k.name)
	}
	kinds = append(kinds, served...)
	ctx := genericapirequest.NewContext()
	var tasks []ev.Task
	for _, k := range kinds {
		k := k
		tasks = append(tasks, ev.Task{Name: "product/" + k.name, Run: func() {
			for _, g := range []int64{0, 1, 7} {
				for d := uint(0); d < 1<<nDims; d++ {
					// ---- main resource update
					old, obj := k.mk(0, g), k.mk(d, g)
					c.Add("updates", 1)
					var err error
					if p := kit.Try(func() { err = rest.BeforeUpdate(k.main, ctx, obj, old) }); p != "" || err != nil {
						c.Violation("update-failed", fmt.Sprintf("%s main update diff=%s: %v %s", k.name, diffNames(d), err, p), nil)
						continue
					}
					specChanged := !same(k.spec(obj), k.spec(old))
					annChanged := !same(annotations(obj), annotations(old))
					want := g
					if specChanged || annChanged {
						want = g + 1
					}
					c.Outcome("cases", fmt.Sprintf("%s/main/%d/%v", k.name, d, g))
					c.Outcome("generation_deltas", fmt.Sprint(gen(obj)-g))
					if gen(obj) != want {
						what := "no-change-bumps-generation"
						if want == g+1 {
							what = "change-does-not-bump-generation"
						}
						c.Violation("main/"+what, fmt.Sprintf("%s: main update with differing fields [%s], old generation %d: new generation %d, expected %d", k.name, diffNames(d), g, gen(obj), want),
							map[string]interface{}{"kind": k.name, "diff": diffNames(d), "old_generation": g})
					}
					if k.subStatus && !reflect.DeepEqual(k.stat(obj), k.stat(old)) {
						c.Violation("main/status-changed", fmt.Sprintf("%s: main update changed the status (diff [%s])", k.name, diffNames(d)), nil)
					}
					if d == 5 {
						c.Sample("main-update", map[string]interface{}{"kind": k.name, "differs": diffNames(d), "old_generation": g, "new_generation": gen(obj)})
					}
					// ---- status subresource update
					if k.status != nil {
						old, obj = k.mk(0, g), k.mk(d, g)
						c.Add("updates", 1)
						if p := kit.Try(func() { err = rest.BeforeUpdate(k.status, ctx, obj, old) }); p != "" || err != nil {
							c.Violation("update-failed", fmt.Sprintf("%s status update diff=%s: %v %s", k.name, diffNames(d), err, p), nil)
							continue
						}
						c.Outcome("cases", fmt.Sprintf("%s/status/%d/%v", k.name, d, g))
						if !reflect.DeepEqual(k.spec(obj), k.spec(old)) {
							c.Violation("status/spec-changed", fmt.Sprintf("%s: status update changed the spec (diff [%s])", k.name, diffNames(d)), nil)
						}
						if !reflect.DeepEqual(labels(obj), labels(old)) {
							c.Violation("status/labels-changed", fmt.Sprintf("%s: status update changed the labels (diff [%s])", k.name, diffNames(d)), nil)
						}
						if d&16 != 0 && reflect.DeepEqual(k.stat(obj), k.stat(old)) && !k.noStatusFields {
							c.Violation("status/status-not-updated", fmt.Sprintf("%s: status update did not store the submitted status", k.name), nil)
						}
						if same(annotations(obj), annotations(old)) && gen(obj) != g {
							c.Violation("status/generation-changed", fmt.Sprintf("%s: status update (diff [%s]) changed generation %d -> %d", k.name, diffNames(d), g, gen(obj)), nil)
						}
					}
					// ---- create
					obj = k.mk(d, g)
					c.Add("creates", 1)
					if p := kit.Try(func() { err = rest.BeforeCreate(k.main, ctx, obj) }); p != "" || err != nil {
						c.Violation("create-failed", fmt.Sprintf("%s create diff=%s: %v %s", k.name, diffNames(d), err, p), nil)
						continue
					}
					if gen(obj) != 1 {
						c.Violation("create/generation", fmt.Sprintf("%s: created with generation %d, expected 1", k.name, gen(obj)), nil)
					}
					if k.subStatus {
						zero := reflect.Zero(reflect.TypeOf(k.stat(obj))).Interface()
						if !reflect.DeepEqual(k.stat(obj), zero) {
							c.Violation("create/status-not-cleared", fmt.Sprintf("%s: creation kept a submitted status", k.name), nil)
						}
					}
				}
			}
		}})
	}
	maxGen := int64(c.Pick(3, 6))
	for _, k := range kinds {
		for _, g := range []int64{0, 1} {
			k, g := k, g
			tasks = append(tasks, ev.Task{Name: fmt.Sprintf("chains/%s/g%d", k.name, g), Run: func() { chains(c, k, g, g+maxGen) }})
		}
	}
	tasks = append(tasks, ev.Task{Name: "pipeline", Run: func() { pipeline(c) }})
	c.RunTasks(tasks)
	c.Finish(map[string]interface{}{
		"states":              c.Counter("chain_states"),
		"transitions":         c.Counter("chain_transitions"),
		"evaluations":         c.Counter("updates") + c.Counter("creates"),
		"distinct_nontrivial": c.DistinctCount("cases"),
		"rule":                "full product: 3 strategy/kind configurations x old generation {0,1,7} x 2^7 subsets of {labels, annotation value, spec scalar, nested spec element, status, submitted generation, finalizers} x 4 annotation shapes {-, key removed, key added, all removed} x {labels present, no labels} differing between stored and submitted object; each through main update, status update (where served) and create. Distinct = (kind, entry point, subset, generation). Pipeline: 7 UpstreamCluster manifests (rules with omitted / explicit-empty / fully set / rewritten lists, empty maps, policies+flow control) created, submitted unchanged three times (generation must stay) and edited once (+1) through admission plugin -> strategy -> storage round trip. Chains: breadth-first over every stored object reachable through the strategies themselves (dedup on the JSON form, generation growth capped), every (entry point x subset) step judged from each.",
	})
}
