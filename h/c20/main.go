// C20 — control-plane objects: spec/status separation and generation conventions.
// Engine C: the full product of field differences between a stored and a
// submitted object is pushed through the generic registry's entry points
// (rest.BeforeCreate / rest.BeforeUpdate) with the strategies exactly as
// pkg/gateway/controlplane/registry/proxy/rest registers them.
package main

import (
	"fmt"
	"reflect"

	metav1 "k8s.io/apimachinery/pkg/apis/meta/v1"
	"k8s.io/apimachinery/pkg/runtime"
	genericapirequest "k8s.io/apiserver/pkg/endpoints/request"
	"k8s.io/apiserver/pkg/registry/rest"

	"github.com/kubewharf/apiserver-runtime/pkg/registry"
	"github.com/kubewharf/apiserver-runtime/pkg/scheme"

	gatewayinstall "github.com/kubewharf/kubegateway/pkg/apis/install"
	proxyv1alpha1 "github.com/kubewharf/kubegateway/pkg/apis/proxy/v1alpha1"

	"verifh/ev"
	"verifh/kit"
)

const nDims = 7

var dimNames = []string{"labels", "annotations", "spec-scalar", "spec-nested", "status", "generation", "finalizers"}

type kind struct {
	name      string
	main      rest.RESTCreateUpdateStrategy
	status    rest.RESTUpdateStrategy // nil: no status subresource
	subStatus bool
	mk        func(diff uint, gen int64) runtime.Object
	spec      func(o runtime.Object) interface{}
	stat      func(o runtime.Object) interface{}
}

func meta(diff uint, gen int64) metav1.ObjectMeta {
	m := metav1.ObjectMeta{Name: "obj", UID: "u1", ResourceVersion: "5", Generation: gen,
		Labels: map[string]string{"l": "1"}, Annotations: map[string]string{"a": "1"}, Finalizers: []string{"f1"}}
	if diff&1 != 0 {
		m.Labels = map[string]string{"l": "2", "m": "x"}
	}
	if diff&2 != 0 {
		m.Annotations = map[string]string{"a": "2"}
	}
	if diff&32 != 0 {
		m.Generation = gen + 41
	}
	if diff&64 != 0 {
		m.Finalizers = []string{"f1", "f2"}
	}
	return m
}

func ucKind(main rest.RESTCreateUpdateStrategy) kind {
	return kind{
		name: "UpstreamCluster", main: main, status: registry.DefaultStatusRESTStrategy{RESTCreateUpdateStrategy: main}, subStatus: true,
		mk: func(diff uint, gen int64) runtime.Object {
			o := &proxyv1alpha1.UpstreamCluster{ObjectMeta: meta(diff, gen)}
			o.Spec.Servers = []proxyv1alpha1.UpstreamClusterServer{{Endpoint: "https://a:1"}, {Endpoint: "https://b:1"}}
			o.Spec.ClientConfig.QPS = 5
			if diff&4 != 0 {
				o.Spec.ClientConfig.QPS = 6
			}
			if diff&8 != 0 {
				o.Spec.Servers[1].Endpoint = "https://c:1"
			}
			// UpstreamClusterStatus has no fields: bit 16 cannot change it
			return o
		},
		spec: func(o runtime.Object) interface{} { return o.(*proxyv1alpha1.UpstreamCluster).Spec },
		stat: func(o runtime.Object) interface{} { return o.(*proxyv1alpha1.UpstreamCluster).Status },
	}
}

func rlcKind(name string, main rest.RESTCreateUpdateStrategy, subStatus bool) kind {
	k := kind{
		name: name, main: main, subStatus: subStatus,
		mk: func(diff uint, gen int64) runtime.Object {
			o := &proxyv1alpha1.RateLimitCondition{ObjectMeta: meta(diff, gen)}
			o.Spec.UpstreamCluster = "u"
			o.Spec.Instance = "i1"
			o.Spec.LimitItemConfigurations = []proxyv1alpha1.RateLimitItemConfiguration{{Name: "s", LimitItemDetail: proxyv1alpha1.LimitItemDetail{MaxRequestsInflight: &proxyv1alpha1.MaxRequestsInflightFlowControlSchema{Max: 3}}}}
			o.Status.LimitItemStatuses = []proxyv1alpha1.RateLimitItemStatus{{Name: "s", RequestLevel: 10}}
			if diff&4 != 0 {
				o.Spec.Instance = "i2"
			}
			if diff&8 != 0 {
				o.Spec.LimitItemConfigurations[0].MaxRequestsInflight.Max = 4
			}
			if diff&16 != 0 {
				o.Status.LimitItemStatuses[0].RequestLevel = 90
			}
			return o
		},
		spec: func(o runtime.Object) interface{} { return o.(*proxyv1alpha1.RateLimitCondition).Spec },
		stat: func(o runtime.Object) interface{} { return o.(*proxyv1alpha1.RateLimitCondition).Status },
	}
	if subStatus {
		k.status = registry.DefaultStatusRESTStrategy{RESTCreateUpdateStrategy: main}
	}
	return k
}

func diffNames(d uint) string {
	s := ""
	for i := 0; i < nDims; i++ {
		if d&(1<<uint(i)) != 0 {
			s += dimNames[i] + " "
		}
	}
	if s == "" {
		return "(none)"
	}
	return s
}

func gen(o runtime.Object) int64 {
	switch x := o.(type) {
	case *proxyv1alpha1.UpstreamCluster:
		return x.Generation
	case *proxyv1alpha1.RateLimitCondition:
		return x.Generation
	}
	return -1
}

func labels(o runtime.Object) map[string]string {
	switch x := o.(type) {
	case *proxyv1alpha1.UpstreamCluster:
		return x.Labels
	case *proxyv1alpha1.RateLimitCondition:
		return x.Labels
	}
	return nil
}

func main() {
	c := ev.Start("C20", "exploration")
	gatewayinstall.Install(scheme.Scheme)
	c.Assume = []string{
		"strategies are taken exactly as rest.go registers them: ClusterScopeStorageStrategySingleton (+DefaultStatusRESTStrategy around it) for UpstreamCluster, NewDefaultRESTStrategy(false,false) for RateLimitCondition; because UpstreamClusterStatus has no fields the same generic strategy pair is additionally driven with RateLimitCondition objects (a kind with real status fields)",
		"objects enter through rest.BeforeCreate / rest.BeforeUpdate (k8s.io/apiserver registry), not through etcd-backed storage",
		"nil versus empty annotation maps are not distinguished by the alphabet; on a status update whose annotations differ the generation is not judged (the statement does not say whether that counts)",
	}
	kinds := []kind{
		ucKind(registry.ClusterScopeStorageStrategySingleton),
		rlcKind("RateLimitCondition(as registered, no status subresource)", registry.NewDefaultRESTStrategy(false, false), false),
		rlcKind("RateLimitCondition(generic strategy with status subresource)", registry.ClusterScopeStorageStrategySingleton, true),
	}
	ctx := genericapirequest.NewContext()
	for _, k := range kinds {
		for _, g := range []int64{0, 1, 7} {
			for d := uint(0); d < 1<<nDims; d++ {
				// ---- main resource update
				old, obj := k.mk(0, g), k.mk(d, g)
				c.Add("updates", 1)
				var err error
				if p := kit.Try(func() { err = rest.BeforeUpdate(k.main, ctx, obj, old) }); p != "" || err != nil {
					c.Violation("update-failed", fmt.Sprintf("%s main update diff=%s: %v %s", k.name, diffNames(d), err, p), nil)
					continue
				}
				specChanged := d&(4|8) != 0
				annChanged := d&2 != 0
				want := g
				if specChanged || annChanged {
					want = g + 1
				}
				c.Outcome("cases", fmt.Sprintf("%s/main/%d/%v", k.name, d, g))
				c.Outcome("generation_deltas", fmt.Sprint(gen(obj)-g))
				if gen(obj) != want {
					what := "no-change-bumps-generation"
					if want == g+1 {
						what = "change-does-not-bump-generation"
					}
					c.Violation("main/"+what, fmt.Sprintf("%s: main update with differing fields [%s], old generation %d: new generation %d, expected %d", k.name, diffNames(d), g, gen(obj), want),
						map[string]interface{}{"kind": k.name, "diff": diffNames(d), "old_generation": g})
				}
				if k.subStatus && !reflect.DeepEqual(k.stat(obj), k.stat(old)) {
					c.Violation("main/status-changed", fmt.Sprintf("%s: main update changed the status (diff [%s])", k.name, diffNames(d)), nil)
				}
				if d == 5 {
					c.Sample("main-update", map[string]interface{}{"kind": k.name, "differs": diffNames(d), "old_generation": g, "new_generation": gen(obj)})
				}
				// ---- status subresource update
				if k.status != nil {
					old, obj = k.mk(0, g), k.mk(d, g)
					c.Add("updates", 1)
					if p := kit.Try(func() { err = rest.BeforeUpdate(k.status, ctx, obj, old) }); p != "" || err != nil {
						c.Violation("update-failed", fmt.Sprintf("%s status update diff=%s: %v %s", k.name, diffNames(d), err, p), nil)
						continue
					}
					c.Outcome("cases", fmt.Sprintf("%s/status/%d/%v", k.name, d, g))
					if !reflect.DeepEqual(k.spec(obj), k.spec(old)) {
						c.Violation("status/spec-changed", fmt.Sprintf("%s: status update changed the spec (diff [%s])", k.name, diffNames(d)), nil)
					}
					if !reflect.DeepEqual(labels(obj), labels(old)) {
						c.Violation("status/labels-changed", fmt.Sprintf("%s: status update changed the labels (diff [%s])", k.name, diffNames(d)), nil)
					}
					if d&16 != 0 && reflect.DeepEqual(k.stat(obj), k.stat(old)) && k.name != "UpstreamCluster" {
						c.Violation("status/status-not-updated", fmt.Sprintf("%s: status update did not store the submitted status", k.name), nil)
					}
					if !annChanged && gen(obj) != g {
						c.Violation("status/generation-changed", fmt.Sprintf("%s: status update (diff [%s]) changed generation %d -> %d", k.name, diffNames(d), g, gen(obj)), nil)
					}
				}
				// ---- create
				obj = k.mk(d, g)
				c.Add("creates", 1)
				if p := kit.Try(func() { err = rest.BeforeCreate(k.main, ctx, obj) }); p != "" || err != nil {
					c.Violation("create-failed", fmt.Sprintf("%s create diff=%s: %v %s", k.name, diffNames(d), err, p), nil)
					continue
				}
				if gen(obj) != 1 {
					c.Violation("create/generation", fmt.Sprintf("%s: created with generation %d, expected 1", k.name, gen(obj)), nil)
				}
				if k.subStatus {
					zero := reflect.Zero(reflect.TypeOf(k.stat(obj))).Interface()
					if !reflect.DeepEqual(k.stat(obj), zero) {
						c.Violation("create/status-not-cleared", fmt.Sprintf("%s: creation kept a submitted status", k.name), nil)
					}
				}
			}
		}
	}
	c.Finish(map[string]interface{}{
		"evaluations":         c.Counter("updates") + c.Counter("creates"),
		"distinct_nontrivial": c.DistinctCount("cases"),
		"rule":                "full product: 3 strategy/kind configurations x old generation {0,1,7} x 2^7 subsets of {labels, annotations, spec scalar, nested spec element, status, submitted generation, finalizers} differing between stored and submitted object; each through main update, status update (where served) and create. Distinct = (kind, entry point, subset, generation).",
	})
}
