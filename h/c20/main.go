// C20 — control-plane objects: spec/status separation and generation conventions.
// Engine C: the full product of field differences between a stored and a
// submitted object is pushed through the generic registry's entry points
// (rest.BeforeCreate / rest.BeforeUpdate) with the strategies exactly as
// pkg/gateway/controlplane/registry/proxy/rest registers them.
package main

import (
	"encoding/json"
	"fmt"
	"reflect"
	"strings"

	metav1 "k8s.io/apimachinery/pkg/apis/meta/v1"
	"k8s.io/apimachinery/pkg/runtime"
	genericapirequest "k8s.io/apiserver/pkg/endpoints/request"
	"k8s.io/apiserver/pkg/registry/rest"

	"github.com/kubewharf/apiserver-runtime/pkg/registry"
	"github.com/kubewharf/apiserver-runtime/pkg/scheme"

	gatewayinstall "github.com/kubewharf/kubegateway/pkg/apis/install"
	proxyv1alpha1 "github.com/kubewharf/kubegateway/pkg/apis/proxy/v1alpha1"

	"verifh/ev"
	"verifh/kit"
)

const nDims = 10 // 7 yes/no dimensions + a 2-bit annotation shape (bits 7-8) + "no labels at all" (bit 9)

var dimNames = []string{"labels", "annotations", "spec-scalar", "spec-nested", "status", "generation", "finalizers", "annotation-key-removed", "annotation-key-added"}

type kind struct {
	name      string
	main      rest.RESTCreateUpdateStrategy
	status    rest.RESTUpdateStrategy // nil: no status subresource
	subStatus bool
	mk        func(diff uint, gen int64) runtime.Object
	spec      func(o runtime.Object) interface{}
	stat      func(o runtime.Object) interface{}
}

func meta(diff uint, gen int64) metav1.ObjectMeta {
	m := metav1.ObjectMeta{Name: "obj", UID: "u1", ResourceVersion: "5", Generation: gen,
		Labels: map[string]string{"l": "1"}, Annotations: map[string]string{"a": "1", "b": "1"}, Finalizers: []string{"f1"}}
	if diff&1 != 0 {
		m.Labels = map[string]string{"l": "2", "m": "x"}
	}
	if diff&512 != 0 {
		m.Labels = nil // an object without labels: stored that way it is the shape a "restore the old labels" step can mishandle
	}
	if diff&2 != 0 {
		m.Annotations["a"] = "2"
	}
	// the shape of the change matters as much as its presence: a value edit, a key only removed (the submitted map is a
	// subset of the stored one), a key only added, everything removed
	switch (diff >> 7) & 3 {
	case 1:
		delete(m.Annotations, "b")
	case 2:
		m.Annotations["c"] = "1"
	case 3:
		m.Annotations = nil
	}
	if diff&32 != 0 {
		m.Generation = gen + 41
	}
	if diff&64 != 0 {
		m.Finalizers = []string{"f1", "f2"}
	}
	return m
}

func ucKind(main rest.RESTCreateUpdateStrategy) kind {
	return kind{
		name: "UpstreamCluster", main: main, status: registry.DefaultStatusRESTStrategy{RESTCreateUpdateStrategy: main}, subStatus: true,
		mk: func(diff uint, gen int64) runtime.Object {
			o := &proxyv1alpha1.UpstreamCluster{ObjectMeta: meta(diff, gen)}
			o.Spec.Servers = []proxyv1alpha1.UpstreamClusterServer{{Endpoint: "https://a:1"}, {Endpoint: "https://b:1"}}
			o.Spec.ClientConfig.QPS = 5
			if diff&4 != 0 {
				o.Spec.ClientConfig.QPS = 6
			}
			if diff&8 != 0 {
				o.Spec.Servers[1].Endpoint = "https://c:1"
			}
			// UpstreamClusterStatus has no fields: bit 16 cannot change it
			return o
		},
		spec: func(o runtime.Object) interface{} { return o.(*proxyv1alpha1.UpstreamCluster).Spec },
		stat: func(o runtime.Object) interface{} { return o.(*proxyv1alpha1.UpstreamCluster).Status },
	}
}

func rlcKind(name string, main rest.RESTCreateUpdateStrategy, subStatus bool) kind {
	k := kind{
		name: name, main: main, subStatus: subStatus,
		mk: func(diff uint, gen int64) runtime.Object {
			o := &proxyv1alpha1.RateLimitCondition{ObjectMeta: meta(diff, gen)}
			o.Spec.UpstreamCluster = "u"
			o.Spec.Instance = "i1"
			o.Spec.LimitItemConfigurations = []proxyv1alpha1.RateLimitItemConfiguration{{Name: "s", LimitItemDetail: proxyv1alpha1.LimitItemDetail{MaxRequestsInflight: &proxyv1alpha1.MaxRequestsInflightFlowControlSchema{Max: 3}}}}
			o.Status.LimitItemStatuses = []proxyv1alpha1.RateLimitItemStatus{{Name: "s", RequestLevel: 10}}
			if diff&4 != 0 {
				o.Spec.Instance = "i2"
			}
			if diff&8 != 0 {
				o.Spec.LimitItemConfigurations[0].MaxRequestsInflight.Max = 4
			}
			if diff&16 != 0 {
				o.Status.LimitItemStatuses[0].RequestLevel = 90
			}
			return o
		},
		spec: func(o runtime.Object) interface{} { return o.(*proxyv1alpha1.RateLimitCondition).Spec },
		stat: func(o runtime.Object) interface{} { return o.(*proxyv1alpha1.RateLimitCondition).Status },
	}
	if subStatus {
		k.status = registry.DefaultStatusRESTStrategy{RESTCreateUpdateStrategy: main}
	}
	return k
}

func diffNames(d uint) string {
	s := ""
	for i := 0; i < nDims; i++ {
		if d&(1<<uint(i)) != 0 && i < 7 {
			s += dimNames[i] + " "
		}
	}
	switch (d >> 7) & 3 {
	case 1:
		s += "annotation-key-removed "
	case 2:
		s += "annotation-key-added "
	case 3:
		s += "all-annotations-removed "
	}
	if d&512 != 0 {
		s += "no-labels "
	}
	if s == "" {
		return "(none)"
	}
	return s
}

func gen(o runtime.Object) int64 {
	switch x := o.(type) {
	case *proxyv1alpha1.UpstreamCluster:
		return x.Generation
	case *proxyv1alpha1.RateLimitCondition:
		return x.Generation
	}
	return -1
}

func labels(o runtime.Object) map[string]string {
	switch x := o.(type) {
	case *proxyv1alpha1.UpstreamCluster:
		return x.Labels
	case *proxyv1alpha1.RateLimitCondition:
		return x.Labels
	}
	return nil
}

func annotations(o runtime.Object) map[string]string {
	switch x := o.(type) {
	case *proxyv1alpha1.UpstreamCluster:
		return x.Annotations
	case *proxyv1alpha1.RateLimitCondition:
		return x.Annotations
	}
	return nil
}

// chains: the same per-step oracle, but from every stored object REACHABLE through the strategies themselves
// (breadth-first over stored objects, deduplicated on their JSON form): the stored side of a step is whatever the
// real PrepareForUpdate chain produced earlier, not a hand-built object.
func chains(c *ev.Check, k kind, g0 int64, maxGen int64) {
	ctx := genericapirequest.NewContext()
	key := func(o runtime.Object) string { b, _ := json.Marshal(o); return string(b) }
	start := k.mk(0, g0)
	seen := map[string]bool{key(start): true}
	type node struct {
		o    runtime.Object
		path string
	}
	frontier := []node{{start, ""}}
	entries := []string{"main"}
	if k.status != nil {
		entries = append(entries, "status")
	}
	for len(frontier) > 0 {
		n := frontier[0]
		frontier = frontier[1:]
		c.Add("chain_states", 1)
		if gen(n.o) >= maxGen {
			continue
		}
		for _, e := range entries {
			for d := uint(0); d < 1<<nDims; d++ {
				if d&(32|64) != 0 {
					continue // submitted generation / finalizers: covered by the flat product, they do not create new stored shapes worth chaining
				}
				old, obj := n.o.DeepCopyObject(), k.mk(d, gen(n.o))
				strat := rest.RESTUpdateStrategy(k.main)
				if e == "status" {
					strat = k.status
				}
				c.Add("chain_transitions", 1)
				var err error
				path := fmt.Sprintf("%s -> %s[%s]", n.path, e, diffNames(d))
				if p := kit.Try(func() { err = rest.BeforeUpdate(strat, ctx, obj, old) }); p != "" || err != nil {
					c.Violation("chain/update-failed", fmt.Sprintf("%s after %s: %v %s", k.name, path, err, p), nil)
					continue
				}
				specSame := reflect.DeepEqual(k.spec(obj), k.spec(n.o))
				annSame := reflect.DeepEqual(annotations(k.mk(d, 0)), annotations(n.o))
				replay := map[string]interface{}{"kind": k.name, "history": path, "start_generation": g0}
				if e == "main" {
					want := gen(n.o)
					if !reflect.DeepEqual(k.spec(k.mk(d, 0)), k.spec(n.o)) || !annSame {
						want++
					}
					if gen(obj) != want {
						c.Violation("chain/main-generation", fmt.Sprintf("%s: after%s the generation is %d, expected %d (stored object had %d)", k.name, path, gen(obj), want, gen(n.o)), replay)
					}
					if k.subStatus && !reflect.DeepEqual(k.stat(obj), k.stat(n.o)) {
						c.Violation("chain/main-status-changed", fmt.Sprintf("%s: after%s the main update changed the stored status", k.name, path), replay)
					}
				} else {
					if !specSame {
						c.Violation("chain/status-spec-changed", fmt.Sprintf("%s: after%s the status update changed the stored spec", k.name, path), replay)
					}
					if !reflect.DeepEqual(labels(obj), labels(n.o)) {
						c.Violation("chain/status-labels-changed", fmt.Sprintf("%s: after%s the status update changed the stored labels", k.name, path), replay)
					}
					if !reflect.DeepEqual(k.stat(obj), k.stat(k.mk(d, 0))) {
						c.Violation("chain/status-not-stored", fmt.Sprintf("%s: after%s the status update did not store the submitted status", k.name, path), replay)
					}
					if annSame && gen(obj) != gen(n.o) {
						c.Violation("chain/status-generation", fmt.Sprintf("%s: after%s the status update changed the generation %d -> %d", k.name, path, gen(n.o), gen(obj)), replay)
					}
				}
				if kk := key(obj); !seen[kk] {
					seen[kk] = true
					c.SetMax("chain_depth", int64(strings.Count(path, "->")))
					frontier = append(frontier, node{obj, path})
				}
			}
		}
	}
}

func main() {
	c := ev.Start("C20", "exploration")
	gatewayinstall.Install(scheme.Scheme)
	c.Assume = []string{
		"strategies are taken exactly as rest.go registers them: ClusterScopeStorageStrategySingleton (+DefaultStatusRESTStrategy around it) for UpstreamCluster, NewDefaultRESTStrategy(false,false) for RateLimitCondition; because UpstreamClusterStatus has no fields the same generic strategy pair is additionally driven with RateLimitCondition objects (a kind with real status fields)",
		"objects enter through rest.BeforeCreate / rest.BeforeUpdate (k8s.io/apiserver registry), not through etcd-backed storage",
		"nil versus empty annotation maps are not distinguished by the alphabet; on a status update whose annotations differ the generation is not judged (the statement does not say whether that counts)",
	}
	kinds := []kind{
		ucKind(registry.ClusterScopeStorageStrategySingleton),
		rlcKind("RateLimitCondition(as registered, no status subresource)", registry.NewDefaultRESTStrategy(false, false), false),
		rlcKind("RateLimitCondition(generic strategy with status subresource)", registry.ClusterScopeStorageStrategySingleton, true),
	}
	ctx := genericapirequest.NewContext()
	var tasks []ev.Task
	for _, k := range kinds {
		k := k
		tasks = append(tasks, ev.Task{Name: "product/" + k.name, Run: func() {
			for _, g := range []int64{0, 1, 7} {
				for d := uint(0); d < 1<<nDims; d++ {
					// ---- main resource update
					old, obj := k.mk(0, g), k.mk(d, g)
					c.Add("updates", 1)
					var err error
					if p := kit.Try(func() { err = rest.BeforeUpdate(k.main, ctx, obj, old) }); p != "" || err != nil {
						c.Violation("update-failed", fmt.Sprintf("%s main update diff=%s: %v %s", k.name, diffNames(d), err, p), nil)
						continue
					}
					specChanged := d&(4|8) != 0
					annChanged := d&(2|128|256) != 0
					want := g
					if specChanged || annChanged {
						want = g + 1
					}
					c.Outcome("cases", fmt.Sprintf("%s/main/%d/%v", k.name, d, g))
					c.Outcome("generation_deltas", fmt.Sprint(gen(obj)-g))
					if gen(obj) != want {
						what := "no-change-bumps-generation"
						if want == g+1 {
							what = "change-does-not-bump-generation"
						}
						c.Violation("main/"+what, fmt.Sprintf("%s: main update with differing fields [%s], old generation %d: new generation %d, expected %d", k.name, diffNames(d), g, gen(obj), want),
							map[string]interface{}{"kind": k.name, "diff": diffNames(d), "old_generation": g})
					}
					if k.subStatus && !reflect.DeepEqual(k.stat(obj), k.stat(old)) {
						c.Violation("main/status-changed", fmt.Sprintf("%s: main update changed the status (diff [%s])", k.name, diffNames(d)), nil)
					}
					if d == 5 {
						c.Sample("main-update", map[string]interface{}{"kind": k.name, "differs": diffNames(d), "old_generation": g, "new_generation": gen(obj)})
					}
					// ---- status subresource update
					if k.status != nil {
						old, obj = k.mk(0, g), k.mk(d, g)
						c.Add("updates", 1)
						if p := kit.Try(func() { err = rest.BeforeUpdate(k.status, ctx, obj, old) }); p != "" || err != nil {
							c.Violation("update-failed", fmt.Sprintf("%s status update diff=%s: %v %s", k.name, diffNames(d), err, p), nil)
							continue
						}
						c.Outcome("cases", fmt.Sprintf("%s/status/%d/%v", k.name, d, g))
						if !reflect.DeepEqual(k.spec(obj), k.spec(old)) {
							c.Violation("status/spec-changed", fmt.Sprintf("%s: status update changed the spec (diff [%s])", k.name, diffNames(d)), nil)
						}
						if !reflect.DeepEqual(labels(obj), labels(old)) {
							c.Violation("status/labels-changed", fmt.Sprintf("%s: status update changed the labels (diff [%s])", k.name, diffNames(d)), nil)
						}
						if d&16 != 0 && reflect.DeepEqual(k.stat(obj), k.stat(old)) && k.name != "UpstreamCluster" {
							c.Violation("status/status-not-updated", fmt.Sprintf("%s: status update did not store the submitted status", k.name), nil)
						}
						if !annChanged && gen(obj) != g {
							c.Violation("status/generation-changed", fmt.Sprintf("%s: status update (diff [%s]) changed generation %d -> %d", k.name, diffNames(d), g, gen(obj)), nil)
						}
					}
					// ---- create
					obj = k.mk(d, g)
					c.Add("creates", 1)
					if p := kit.Try(func() { err = rest.BeforeCreate(k.main, ctx, obj) }); p != "" || err != nil {
						c.Violation("create-failed", fmt.Sprintf("%s create diff=%s: %v %s", k.name, diffNames(d), err, p), nil)
						continue
					}
					if gen(obj) != 1 {
						c.Violation("create/generation", fmt.Sprintf("%s: created with generation %d, expected 1", k.name, gen(obj)), nil)
					}
					if k.subStatus {
						zero := reflect.Zero(reflect.TypeOf(k.stat(obj))).Interface()
						if !reflect.DeepEqual(k.stat(obj), zero) {
							c.Violation("create/status-not-cleared", fmt.Sprintf("%s: creation kept a submitted status", k.name), nil)
						}
					}
				}
			}
		}})
	}
	maxGen := int64(c.Pick(3, 6))
	for _, k := range kinds {
		for _, g := range []int64{0, 1} {
			k, g := k, g
			tasks = append(tasks, ev.Task{Name: fmt.Sprintf("chains/%s/g%d", k.name, g), Run: func() { chains(c, k, g, g+maxGen) }})
		}
	}
	c.RunTasks(tasks)
	c.Finish(map[string]interface{}{
		"states":              c.Counter("chain_states"),
		"transitions":         c.Counter("chain_transitions"),
		"evaluations":         c.Counter("updates") + c.Counter("creates"),
		"distinct_nontrivial": c.DistinctCount("cases"),
		"rule":                "full product: 3 strategy/kind configurations x old generation {0,1,7} x 2^7 subsets of {labels, annotation value, spec scalar, nested spec element, status, submitted generation, finalizers} x 4 annotation shapes {-, key removed, key added, all removed} x {labels present, no labels} differing between stored and submitted object; each through main update, status update (where served) and create. Distinct = (kind, entry point, subset, generation). Chains: breadth-first over every stored object reachable through the strategies themselves (dedup on the JSON form, generation growth capped), every (entry point x subset) step judged from each.",
	})
}
