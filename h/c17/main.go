// C17 — admission normalisation of dispatch rules does not change what they match.
// Engine C: every rule list over the C01 alphabet (plus "" and duplicates) goes
// through the real plugin's Admit(); the stored rule must match exactly the
// requests the submitted rule matches (differential oracle on the real
// matcher, no reference model), Admit must be idempotent and must not touch
// anything outside the rules except defaulting.
package main

import (
	"context"
	"fmt"
	"strings"

	metav1 "k8s.io/apimachinery/pkg/apis/meta/v1"
	"k8s.io/apiserver/pkg/admission"
	"k8s.io/apiserver/pkg/authentication/user"
	"k8s.io/apiserver/pkg/authorization/authorizer"

	"github.com/kubewharf/apiserver-runtime/pkg/scheme"

	gatewayinstall "github.com/kubewharf/kubegateway/pkg/apis/install"
	proxyv1alpha1 "github.com/kubewharf/kubegateway/pkg/apis/proxy/v1alpha1"
	"github.com/kubewharf/kubegateway/pkg/clusters"
	upstreamclusteradmission "github.com/kubewharf/kubegateway/plugin/admission/upstreamcluster"

	"verifh/ev"
	"verifh/kit"
	"verifh/rulekit"
)

type req = rulekit.Req
type field = rulekit.Field

var (
	fields, lists, wild, shape, saShape, merge = rulekit.Fields, rulekit.Lists, rulekit.Wild, rulekit.Shape, rulekit.SaShape, rulekit.Merge
	saSets                                     = rulekit.SaSets
	reqVerbs, reqUsers                         = rulekit.ReqVerbs, rulekit.ReqUsers
)

var plugin = upstreamclusteradmission.NewUpstreamClusterPlugin().(admission.MutationInterface)
var objIfaces admission.ObjectInterfaces

func admit(obj *proxyv1alpha1.UpstreamCluster) error {
	gvk := proxyv1alpha1.SchemeGroupVersion.WithKind("UpstreamCluster")
	gvr := proxyv1alpha1.SchemeGroupVersion.WithResource("upstreamclusters")
	a := admission.NewAttributesRecord(obj, nil, gvk, "", obj.Name, gvr, "", admission.Create, &metav1.CreateOptions{}, false, nil)
	return plugin.Admit(context.TODO(), a, objIfaces)
}

func cluster(rules ...proxyv1alpha1.DispatchPolicyRule) *proxyv1alpha1.UpstreamCluster {
	o := kit.Upstream("c1", []proxyv1alpha1.UpstreamClusterServer{{Endpoint: "https://127.0.0.1:1"}}, nil)
	o.Spec.DispatchPolicies = []proxyv1alpha1.DispatchPolicy{{Rules: rules, UpstreamSubset: []string{"https://127.0.0.1:1"}}}
	o.Annotations = map[string]string{"k": "v"}
	return o
}

// check one submitted rule against all given requests
func checkRule(c *ev.Check, rule proxyv1alpha1.DispatchPolicyRule, reqs []req, key string) {
	before := cluster(*rule.DeepCopy())
	obj := before.DeepCopy()
	if p := kit.Try(func() {
		if err := admit(obj); err != nil {
			panic(err)
		}
	}); p != "" {
		c.Violation("admit-failed:"+key, "Admit failed or panicked: "+p, rule)
		return
	}
	c.Add("rules_admitted", 1)
	after := obj.Spec.DispatchPolicies[0].Rules[0]
	sub := before.Spec.DispatchPolicies[0].Rules[0]
	changed := kit.JSON(after) != kit.JSON(sub)
	if changed {
		c.Outcome("normalised_shapes", key)
	}
	for _, r := range reqs {
		c.Add("comparisons", 1)
		m0 := clusters.RuleMatches(r.Attrs(), &sub)
		m1 := clusters.RuleMatches(r.Attrs(), &after)
		c.Outcome("verdicts", fmt.Sprint(m0, m1, changed))
		if m0 != m1 {
			c.Violation("matching-changed:"+key, fmt.Sprintf("submitted rule %s matches request {%s} = %v, stored (normalised) rule %s matches = %v", kit.JSON(sub), r, m0, kit.JSON(after), m1),
				map[string]interface{}{"rule": sub, "normalised": after, "request": r})
		}
	}
	// idempotence
	again := obj.DeepCopy()
	_ = admit(again)
	if kit.JSON(again) != kit.JSON(obj) {
		c.Violation("not-idempotent:"+key, fmt.Sprintf("normalising the normalised rule %s changes it to %s", kit.JSON(after), kit.JSON(again.Spec.DispatchPolicies[0].Rules[0])), rule)
	}
	// nothing outside the rules changes except defaulting: compare with the same object admitted without rules
	plain := cluster()
	_ = admit(plain)
	o2 := obj.DeepCopy()
	o2.Spec.DispatchPolicies[0].Rules = nil
	if kit.JSON(o2) != kit.JSON(plain) {
		c.Violation("outside-rules-changed", fmt.Sprintf("Admit changed fields outside the rules: %s vs %s", kit.JSON(o2), kit.JSON(plain)), rule)
	}
	if changed {
		c.Sample("normalisation", map[string]interface{}{"submitted": sub, "stored": after})
	}
}

func main() {
	c := ev.Start("C17", "exploration")
	gatewayinstall.Install(scheme.Scheme)
	objIfaces = admission.NewObjectInterfacesFromScheme(scheme.Scheme)
	L := c.Pick(4, 5)
	c.Assume = []string{
		"alphabet: the C01 rule tokens plus the empty string and duplicates; requests: the C01 request values of the field(s) under test",
		"oracle is differential on the real matcher (clusters.RuleMatches before vs after the real plugin's Admit), so it is independent of what the matcher itself means",
	}
	var tasks []ev.Task
	for _, f := range fields() {
		f := f
		tasks = append(tasks, ev.Task{Name: "field-" + f.Name, Run: func() {
			toks := append(append([]string{}, f.Tokens...), "")
			for _, l := range lists(toks, L) {
				sas := saSets[:1]
				if f.Name == "users" {
					sas = saSets
				}
				for _, sa := range sas {
					rule := wild()
					f.Set(&rule, l)
					rule.ServiceAccounts = sa
					checkRule(c, rule, f.Reqs(), f.Name+shape(l))
				}
			}
		}})
	}
	// pairs of fields (guards against a normaliser that mixes fields)
	fs := fields()
	Lp := c.Pick(2, 3)
	for i := 0; i < len(fs); i++ {
		for j := i + 1; j < len(fs); j++ {
			fi, fj := fs[i], fs[j]
			tasks = append(tasks, ev.Task{Name: "pair-" + fi.Name + "-" + fj.Name, Run: func() {
				for _, li := range lists(append(append([]string{}, fi.Tokens...), ""), Lp) {
					for _, lj := range lists(append(append([]string{}, fj.Tokens...), ""), Lp) {
						rule := wild()
						fi.Set(&rule, li)
						fj.Set(&rule, lj)
						var reqs []req
						for _, ri := range fi.Reqs() {
							for _, rj := range fj.Reqs() {
								if ri.IsRes == rj.IsRes {
									reqs = append(reqs, merge(ri, rj, fj.Name))
								}
							}
						}
						checkRule(c, rule, reqs, "pair:"+fi.Name+shape(li)+"+"+fj.Name+shape(lj))
					}
				}
			}})
		}
	}
	// all eight fields unset / nil (empty rule) and a rule with every field inverted
	tasks = append(tasks, ev.Task{Name: "whole-rule", Run: func() {
		var all []req
		for _, f := range fields() {
			all = append(all, f.Reqs()...)
		}
		checkRule(c, proxyv1alpha1.DispatchPolicyRule{}, all, "empty-rule")
		checkRule(c, proxyv1alpha1.DispatchPolicyRule{Verbs: []string{"-get"}, APIGroups: []string{"-apps"}, Resources: []string{"-pods"}, ResourceNames: []string{"-a"},
			Users: []string{"-alice"}, UserGroups: []string{"-g1"}, NonResourceURLs: []string{"-/healthz"}}, all, "all-inverted-rule")
	}})
	c.RunTasks(tasks)
	c.Finish(map[string]interface{}{
		"evaluations":         c.Counter("comparisons"),
		"distinct_nontrivial": c.DistinctCount("normalised_shapes"),
		"rule":                "every list of up to L entries per field over the token alphabet (plus \"\" and duplicates), every pair of fields with lists up to L-2, through the real Admit(); each compared on every request value of the field(s). Non-trivial/distinct = (field, list shape) for which normalisation actually changed the stored rule.",
		"list_len_bound":      L,
	})
}

var _ = strings.Join
var _ = user.DefaultInfo{}
var _ authorizer.Attributes
