// Package limrig builds the real limiter server (rateLimiter + leaderElector +
// upstream controller + store) on fake clientsets, driven through the add-only
// verification hooks. Shared by C07, C13, C16, C18.
package limrig

import (
	"fmt"
	"github.com/kubewharf/kubegateway/pkg/zzverif/vsched"
	"regexp"
	"sort"
	"strings"
	"sync/atomic"
	"time"

	metav1 "k8s.io/apimachinery/pkg/apis/meta/v1"
	"k8s.io/apimachinery/pkg/labels"
	k8sfake "k8s.io/client-go/kubernetes/fake"
	"k8s.io/client-go/tools/cache"
	componentbaseconfig "k8s.io/component-base/config"

	proxyv1alpha1 "github.com/kubewharf/kubegateway/pkg/apis/proxy/v1alpha1"
	gwfake "github.com/kubewharf/kubegateway/pkg/client/kubernetes/fake"
	"github.com/kubewharf/kubegateway/pkg/ratelimiter/limiter"
	"github.com/kubewharf/kubegateway/pkg/ratelimiter/limiter/controller"
	"github.com/kubewharf/kubegateway/pkg/ratelimiter/limiter/elector"
	"github.com/kubewharf/kubegateway/pkg/ratelimiter/options"
	"github.com/kubewharf/kubegateway/pkg/ratelimiter/util"
)

const Me = "me"

type Rig struct {
	H         *limiter.VerifHandle
	L         limiter.RateLimiter
	GW        *gwfake.Clientset
	Indexer   cache.Indexer
	Shards    int
	writeBack bool
}

// New creates a limiter server with the given shard count and store kind ("local" or "k8s").
func New(shards int, store string) *Rig { return NewWithSyncPeriod(shards, store, 0) }

// NewWithSyncPeriod: store "k8s" with a non-zero period is the write-back mode (the limiter binary's default is 30 s);
// the rig passes a period its run never reaches - flushes happen when the driver calls Flush on the store.
func NewWithSyncPeriod(shards int, store string, period time.Duration) *Rig {
	return NewWithIdentity(shards, store, period, Me)
}

// NewWithIdentity: the identity is what the server advertises as the leader's address in its server info (the wire
// rig passes the URL its HTTP front end listens on).
func NewWithIdentity(shards int, store string, period time.Duration, identity string) *Rig {
	if period > 0 {
		// (needs pkg/ratelimiter/store/k8s/cache_store.go in the check's INSTR list) the store's periodic flush loop is
		// not started: wait.Until would run a first flush at once, concurrently with the driver
		vsched.DropGoCallers = []string{"NewK8sCacheStore"}
	}
	gw := gwfake.NewSimpleClientset()
	opts := options.RateLimitOptions{ShardingCount: shards, LimitStore: store, Identity: identity, K8sStoreSyncPeriod: period,
		LeaderElectionConfiguration: componentbaseconfig.LeaderElectionConfiguration{ResourceLock: "leases", ResourceNamespace: "ns", ResourceName: "limiter",
			LeaseDuration: metav1.Duration{Duration: 15 * time.Second}, RenewDeadline: metav1.Duration{Duration: 10 * time.Second}, RetryPeriod: metav1.Duration{Duration: 2 * time.Second}}}
	h, l, err := limiter.VerifNew(gw, k8sfake.NewSimpleClientset(), opts)
	if err != nil {
		panic(err)
	}
	return &Rig{H: h, L: l, GW: gw, Indexer: controller.VerifIndexer(h.Controller()), Shards: shards, writeBack: store == "k8s" && period > 0}
}

func (r *Rig) Gain(shard int) {
	before := atomic.LoadInt64(&vsched.DroppedGo)
	elector.VerifStartLeading(r.H.Elector(), shard)
	if r.writeBack && r.H.Store(shard) != nil && atomic.LoadInt64(&vsched.DroppedGo) == before {
		// the write-back store was created with its flush loop running: the run would be racy and non-deterministic
		panic("limrig: the API-backed store's periodic flush loop was not dropped (is pkg/ratelimiter/store/k8s/cache_store.go in the check's INSTR list?)")
	}
}
func (r *Rig) Lose(shard int)             { elector.VerifStopLeading(r.H.Elector(), shard) }
func (r *Rig) Other(shard int, id string) { elector.VerifSetLeader(r.H.Elector(), shard, id) }
func (r *Rig) Shard(upstream string) int  { return util.GetShardID(upstream, r.Shards) }

// ApplyCluster puts the object into the lister's store and delivers it to the handler (what the controller's worker does).
func (r *Rig) ApplyCluster(c *proxyv1alpha1.UpstreamCluster) error {
	if err := r.Indexer.Add(c); err != nil {
		panic(err)
	}
	return r.H.Handle(c)
}

// DeleteCluster removes the object from the lister's store and delivers the deletion.
func (r *Rig) DeleteCluster(c *proxyv1alpha1.UpstreamCluster) error {
	_ = r.Indexer.Delete(c)
	return r.H.Handle(c)
}

// MIFCluster builds an UpstreamCluster with one global max-in-flight schema.
func MIFCluster(name, schema string, strategy proxyv1alpha1.LimitStrategy, localMax, globalMax int32) *proxyv1alpha1.UpstreamCluster {
	return &proxyv1alpha1.UpstreamCluster{ObjectMeta: metav1.ObjectMeta{Name: name}, Spec: proxyv1alpha1.UpstreamClusterSpec{
		Servers: []proxyv1alpha1.UpstreamClusterServer{{Endpoint: "https://127.0.0.1:1"}},
		FlowControl: proxyv1alpha1.FlowControl{Schemas: []proxyv1alpha1.FlowControlSchema{{Name: schema, Strategy: strategy,
			FlowControlSchemaConfiguration: proxyv1alpha1.FlowControlSchemaConfiguration{
				MaxRequestsInflight:       &proxyv1alpha1.MaxRequestsInflightFlowControlSchema{Max: localMax},
				GlobalMaxRequestsInflight: &proxyv1alpha1.MaxRequestsInflightFlowControlSchema{Max: globalMax}}}}}}}
}

// TBCluster builds an UpstreamCluster with one global token-bucket schema.
func TBCluster(name, schema string, strategy proxyv1alpha1.LimitStrategy, qps, burst int32) *proxyv1alpha1.UpstreamCluster {
	return &proxyv1alpha1.UpstreamCluster{ObjectMeta: metav1.ObjectMeta{Name: name}, Spec: proxyv1alpha1.UpstreamClusterSpec{
		Servers: []proxyv1alpha1.UpstreamClusterServer{{Endpoint: "https://127.0.0.1:1"}},
		FlowControl: proxyv1alpha1.FlowControl{Schemas: []proxyv1alpha1.FlowControlSchema{{Name: schema, Strategy: strategy,
			FlowControlSchemaConfiguration: proxyv1alpha1.FlowControlSchemaConfiguration{
				TokenBucket:       &proxyv1alpha1.TokenBucketFlowControlSchema{QPS: 1, Burst: 1},
				GlobalTokenBucket: &proxyv1alpha1.TokenBucketFlowControlSchema{QPS: qps, Burst: burst}}}}}}}
}

// ConditionName is the name gateways use for their per-upstream condition.
func ConditionName(upstream, instance string) string { return upstream + "." + instance }

// Report builds the status report an instance sends: prev = the quota it was last answered (0 for none).
func Report(upstream, instance, schema string, typ proxyv1alpha1.FlowControlSchemaType, strategy proxyv1alpha1.LimitStrategy, prevQuota, prevBurst, used, level int32) *proxyv1alpha1.RateLimitCondition {
	c := &proxyv1alpha1.RateLimitCondition{ObjectMeta: metav1.ObjectMeta{Name: ConditionName(upstream, instance)},
		Spec: proxyv1alpha1.RateLimitSpec{UpstreamCluster: upstream, Instance: instance}}
	item := proxyv1alpha1.RateLimitItemConfiguration{Name: schema, Strategy: strategy}
	st := proxyv1alpha1.RateLimitItemStatus{Name: schema, RequestLevel: level}
	switch typ {
	case proxyv1alpha1.MaxRequestsInflight:
		item.MaxRequestsInflight = &proxyv1alpha1.MaxRequestsInflightFlowControlSchema{Max: prevQuota}
		st.MaxRequestsInflight = &proxyv1alpha1.MaxRequestsInflightFlowControlSchema{Max: used}
	case proxyv1alpha1.TokenBucket:
		item.TokenBucket = &proxyv1alpha1.TokenBucketFlowControlSchema{QPS: prevQuota, Burst: prevBurst}
		st.TokenBucket = &proxyv1alpha1.TokenBucketFlowControlSchema{QPS: used}
	}
	c.Spec.LimitItemConfigurations = []proxyv1alpha1.RateLimitItemConfiguration{item}
	c.Status.LimitItemStatuses = []proxyv1alpha1.RateLimitItemStatus{st}
	return c
}

// Acquire builds a global-count acquire request.
func Acquire(upstream, instance, schema string, id int64, tokens int32) *proxyv1alpha1.RateLimitAcquire {
	return &proxyv1alpha1.RateLimitAcquire{ObjectMeta: metav1.ObjectMeta{Name: upstream}, Spec: proxyv1alpha1.RateLimitAcquireSpec{
		Instance: instance, RequestID: id, Requests: []proxyv1alpha1.RateLimitAcquireRequest{{FlowControl: schema, Tokens: tokens}}}}
}

// Dump renders everything every present store holds (conditions and counted state), sorted.
func (r *Rig) Dump(upstreams []string, schemas []string) string {
	var out []string
	for s := 0; s < r.Shards; s++ {
		st := r.H.Store(s)
		if st == nil {
			out = append(out, fmt.Sprintf("shard%d:none", s))
			continue
		}
		var lines []string
		for _, c := range st.List(labels.Everything()) {
			lines = append(lines, fmt.Sprintf("%s spec=%s status=%s labels=%v", c.Name, js(c.Spec), js(c.Status), c.Labels))
		}
		for _, u := range upstreams {
			for _, sc := range schemas {
				if fc, err := st.GetFlowControl(u, sc); err == nil {
					lines = append(lines, fmt.Sprintf("fc %s/%s %s %s", u, sc, fc.String(), SortDebugInfo(fc.DebugInfo())))
				}
			}
		}
		sort.Strings(lines)
		out = append(out, fmt.Sprintf("shard%d:{%s}", s, strings.Join(lines, "; ")))
	}
	return strings.Join(out, " | ")
}

func js(v interface{}) string {
	b, _ := jsonMarshal(v)
	return string(b)
}

var instRe = regexp.MustCompile(`\[[^\]]*\]`)

// SortDebugInfo makes DebugInfo deterministic (its per-instance details come from a map iteration).
func SortDebugInfo(info string) string {
	i := strings.Index(info, "details=")
	if i < 0 {
		return info
	}
	parts := instRe.FindAllString(info[i:], -1)
	sort.Strings(parts)
	return info[:i] + "details=" + strings.Join(parts, ",")
}
