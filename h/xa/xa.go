// Package xa glues engine A (vsched) to the check runtime: one exploration per
// task (optionally sharded over processes), statistics, violations with
// replayable schedules.
package xa

import (
	"fmt"
	"os"
	"strings"

	"github.com/kubewharf/kubegateway/pkg/zzverif/vsched"

	"verifh/ev"
)

// Harness is one closed scenario: Body builds fresh real objects, spawns
// threads with vsched.Go, joins them and returns its observation; Check judges
// one complete execution (error text "key: description").
type Harness struct {
	Name    string
	Bound   int
	Shards  int
	Horizon int
	Body    func() interface{}
	Check   func(x *vsched.Exec) error
	// NoDeadlock: a deadlock or livelock is a violation of the property (default: it is reported as key "deadlock").
}

// Tasks returns the worker tasks exploring h.
func Tasks(c *ev.Check, h Harness) []ev.Task {
	n := h.Shards
	if n < 1 {
		n = 1
	}
	var out []ev.Task
	if os.Getenv("VERIF_RACE") == "1" {
		// race pass: the harness body free-running (real goroutines, binary built with -race), a few hundred times
		if h.Bound != 0 {
			return nil
		}
		return []ev.Task{{Name: "race/" + h.Name, Free: true, Run: func() {
			for i := 0; i < 300; i++ {
				vsched.FreeRun(h.Body)
			}
			c.Add("free_runs", 300)
		}}}
	}
	for s := 0; s < n; s++ {
		s := s
		out = append(out, ev.Task{Name: fmt.Sprintf("%s/pb%d/shard%d", h.Name, h.Bound, s), Run: func() { explore(c, h, s, n) }})
	}
	return out
}

func explore(c *ev.Check, h Harness, shard, nshards int) {
	opt := vsched.Options{Bound: h.Bound, Horizon: h.Horizon, Deadline: c.Deadline(), Shard: shard, NShards: nshards}
	check := func(x *vsched.Exec) error {
		if len(x.Panics) > 0 {
			return fmt.Errorf("panic: %s", firstLine(x.Panics[0]))
		}
		if x.Deadlock {
			return fmt.Errorf("deadlock: threads blocked forever: %v", x.Blocked)
		}
		if x.Livelock {
			return fmt.Errorf("livelock: no termination within the step horizon")
		}
		return h.Check(x)
	}
	st, viols := vsched.Explore(opt, h.Body, check, false)
	c.Add("schedules", st.Executions)
	c.Add("choice_points", st.Points)
	c.Add("steps", st.Steps)
	c.SetMax("max_choice_depth", int64(st.MaxDepth))
	c.SetMax("preemption_bound", int64(h.Bound))
	c.Outcome("harnesses", h.Name)
	if st.Capped {
		c.NotExhaustive(fmt.Sprintf("%s: deadline reached at preemption bound %d after %d schedules in shard %d", h.Name, h.Bound, st.Executions, shard))
	}
	for _, e := range st.EngineErrors {
		c.EngineError(h.Name + ": " + e)
	}
	for _, v := range viols {
		key, what := v.Err, v.Err
		if i := strings.Index(v.Err, ": "); i > 0 {
			key, what = v.Err[:i], v.Err[i+2:]
		}
		c.Violation(h.Name+"/"+key, what, map[string]interface{}{
			"harness": h.Name, "preemption_bound": h.Bound, "choices": v.Choices, "schedule": vsched.Describe(v.Exec), "log": v.Exec.Log,
		})
	}
	if shard == 0 {
		// one written-out schedule per harness as a sample
		x := vsched.RunOnce(nil, h.Horizon, h.Body)
		c.Sample("schedule:"+h.Name, map[string]interface{}{"choices": x.Choices, "points": len(x.Points), "steps": x.Steps, "log": x.Log})
	}
}

func firstLine(s string) string {
	if i := strings.Index(s, "\n"); i > 0 {
		return s[:i]
	}
	return s
}

// Replay re-executes one recorded schedule and returns the verdict.
func Replay(h Harness, choices []int) (*vsched.Exec, error) {
	x := vsched.RunOnce(choices, h.Horizon, h.Body)
	if x.Diverged != "" {
		return x, fmt.Errorf("engine: replay diverged: %s", x.Diverged)
	}
	if len(x.Panics) > 0 {
		return x, fmt.Errorf("panic: %s", firstLine(x.Panics[0]))
	}
	if x.Deadlock {
		return x, fmt.Errorf("deadlock: %v", x.Blocked)
	}
	return x, h.Check(x)
}

// ReplayIfAsked handles `--replay file` for engine-A harnesses: it finds the
// harness named in the file, re-executes the recorded choices and exits.
func ReplayIfAsked(c *ev.Check, all []Harness) {
	if c.ReplayFile() == "" {
		return
	}
	rep := c.LoadReplay()
	name, _ := rep["harness"].(string)
	if name == "" {
		return
	}
	var choices []int
	if cs, ok := rep["choices"].([]interface{}); ok {
		for _, v := range cs {
			choices = append(choices, int(v.(float64)))
		}
	}
	for _, h := range all {
		if h.Name == name {
			x, err := Replay(h, choices)
			if x.Diverged != "" {
				fmt.Printf("REPLAY property=%s: the recorded schedule does not exist on this tree (%s); not reproduced\n", c.ID, x.Diverged)
				os.Exit(0)
			}
			c.ReplayVerdict(err, append(vsched.Describe(x), x.Log...))
		}
	}
	fmt.Println("ENGINE-ERROR: no harness named", name)
	os.Exit(2)
}
