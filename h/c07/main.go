// C07 — global allocation: quotas never exceed the global limit and are never < 1.
//
//	C (enum): the allocator's arithmetic (calculateNextQuota) over the full
//	  product of a numeric grid.
//	B (xstate): histories of honest instance reports, limit changes and
//	  forgotten/returning instances through the real rateLimiter.
//	A (vsched): overlapping reports / report vs limit change, every interleaving
//	  up to a preemption bound.
package main

import (
	"fmt"
	metav1 "k8s.io/apimachinery/pkg/apis/meta/v1"
	"math"
	"sort"
	"strings"
	"time"

	proxyv1alpha1 "github.com/kubewharf/kubegateway/pkg/apis/proxy/v1alpha1"
	"github.com/kubewharf/kubegateway/pkg/ratelimiter/limiter"
	"github.com/kubewharf/kubegateway/pkg/zzverif/vsched"

	"verifh/ev"
	"verifh/kit"
	"verifh/limrig"
	"verifh/xa"
	"verifh/xstate"
)

const (
	MIF = proxyv1alpha1.MaxRequestsInflight
	TB  = proxyv1alpha1.TokenBucket
)

func quota(d proxyv1alpha1.LimitItemDetail, typ proxyv1alpha1.FlowControlSchemaType) (int32, int32) {
	switch typ {
	case MIF:
		if d.MaxRequestsInflight != nil {
			return d.MaxRequestsInflight.Max, 0
		}
	case TB:
		if d.TokenBucket != nil {
			return d.TokenBucket.QPS, d.TokenBucket.Burst
		}
	}
	return 0, 0
}

func detail(typ proxyv1alpha1.FlowControlSchemaType, q, burst int32) proxyv1alpha1.LimitItemDetail {
	if typ == MIF {
		return proxyv1alpha1.LimitItemDetail{MaxRequestsInflight: &proxyv1alpha1.MaxRequestsInflightFlowControlSchema{Max: q}}
	}
	return proxyv1alpha1.LimitItemDetail{TokenBucket: &proxyv1alpha1.TokenBucketFlowControlSchema{QPS: q, Burst: burst}}
}

// ------------------------------------------------------------------ C: arithmetic grid

func uniq(v []int64) []int32 {
	m := map[int32]bool{}
	var out []int32
	for _, x := range v {
		if x < 0 || x > math.MaxInt32 {
			continue
		}
		if !m[int32(x)] {
			m[int32(x)] = true
			out = append(out, int32(x))
		}
	}
	sort.Slice(out, func(i, j int) bool { return out[i] < out[j] })
	return out
}

func grid(c *ev.Check, typ proxyv1alpha1.FlowControlSchemaType, totals []int64) {
	for _, t := range totals {
		for _, a := range uniq([]int64{0, 1, t / 2, t - 1, t, t + 1, 2 * t, 8 * t}) {
			curs := uniq([]int64{0, 1, 2, int64(a) / 2, int64(a) - 1, int64(a)})
			for _, cur := range curs {
				if cur > a {
					continue // honest: the instance's own quota is part of the recorded sum
				}
				for _, used := range uniq([]int64{0, 1, int64(cur) / 2, int64(cur), int64(cur) + 1, 2 * int64(cur)}) {
					for _, lvl := range []int32{0, 1, 40, 65, 69, 70, 75, 100, 101, 250} {
						for _, ulvl := range []int32{0, 50, 100, 150} {
							for _, clients := range []int{1, 2, 10, 11, 100} {
								for _, gb := range uniq([]int64{1, t / 2, t, 2 * t}) {
									evalOne(c, typ, int32(t), a, cur, used, lvl, ulvl, clients, gb)
								}
							}
						}
					}
				}
			}
		}
	}
}

func evalOne(c *ev.Check, typ proxyv1alpha1.FlowControlSchemaType, total, allocated, cur, used, lvl, ulvl int32, clients int, globalBurst int32) {
	c.Add("quota_evaluations", 1)
	in := map[string]interface{}{"type": typ, "total": total, "allocated": allocated, "current": cur, "used": used, "level": lvl, "upstream_level": ulvl, "clients": clients, "global_burst": globalBurst}
	upTotal := proxyv1alpha1.RateLimitItemConfiguration{Name: "s", LimitItemDetail: detail(typ, total, globalBurst)}
	upUsed := proxyv1alpha1.RateLimitItemStatus{Name: "s", LimitItemDetail: detail(typ, allocated, 0), RequestLevel: ulvl}
	cfg := proxyv1alpha1.RateLimitItemConfiguration{Name: "s", LimitItemDetail: detail(typ, cur, 0), Strategy: proxyv1alpha1.GlobalAllocateLimit}
	if cur == 0 {
		cfg.LimitItemDetail = proxyv1alpha1.LimitItemDetail{} // a new instance reports no quota
	}
	st := proxyv1alpha1.RateLimitItemStatus{Name: "s", LimitItemDetail: detail(typ, used, 0), RequestLevel: lvl}
	var out proxyv1alpha1.RateLimitItemConfiguration
	if p := kit.TryShort(func() {
		out = limiter.VerifCalculateNextQuota(upTotal, upUsed, cfg, st, clients, &proxyv1alpha1.RateLimitCondition{})
	}); p != "" {
		c.Violation("arith/panic", "calculateNextQuota panicked: "+p, in)
		return
	}
	next, burst := quota(out.LimitItemDetail, typ)
	branch := "keep"
	switch {
	case next > cur:
		branch = "grow"
	case next < cur:
		branch = "shrink"
	}
	c.Outcome("arith_outcomes", fmt.Sprintf("%s/%v/%v/%s/%v", typ, allocated <= total, cur == 0, branch, next == 1))
	viol := func(key, what string) {
		c.Violation("arith/"+key, fmt.Sprintf("%s: input %s -> quota %d burst %d", what, kit.JSON(in), next, burst), in)
	}
	if next < 1 {
		viol("quota-below-1", "answered quota is below 1")
		return
	}
	if next > total {
		viol("quota-above-limit", "answered quota exceeds the global limit")
		return
	}
	if allocated <= total {
		if int64(allocated)-int64(cur)+int64(next) > int64(total) && next != 1 {
			viol("overcommit", fmt.Sprintf("recorded sum %d <= limit %d but after this answer it is %d", allocated, total, int64(allocated)-int64(cur)+int64(next)))
		}
	} else {
		if next > cur && !(cur == 0 && next == 1) {
			viol("grows-above-limit", fmt.Sprintf("recorded sum %d exceeds the limit %d but the quota grows from %d", allocated, total, cur))
		}
	}
	if typ == TB {
		if burst > globalBurst {
			viol("burst-above-global", "answered burst exceeds the global burst")
		}
		want := float64(next) / float64(total) * float64(globalBurst)
		if math.Abs(float64(burst)-want) >= 1 {
			viol("burst-not-scaled", fmt.Sprintf("burst is not the quota's share of the global burst (expected about %.2f)", want))
		}
	}
	if cur == 0 && allocated == 0 && clients == 2 && lvl == 0 && ulvl == 0 {
		c.Sample("arith", map[string]interface{}{"in": in, "quota": next, "burst": burst})
	}
}

// ------------------------------------------------------------------ B: report histories

const upstream = "u1"

type inst struct {
	last, lastBurst int32 // the quota it was last answered (0 = none)
	live            bool
}

type sysB struct {
	rig   *limrig.Rig
	typ   proxyv1alpha1.FlowControlSchemaType
	limit int32
	base  int32
	gb    int32
	inst  []inst
	// mixed fleet: instance 0 leaves the optional strategy field of its report items empty (an older gateway build)
	omitStrategy0 bool
}

func (s *sysB) cluster() *proxyv1alpha1.UpstreamCluster {
	if s.typ == MIF {
		return limrig.MIFCluster(upstream, "s", proxyv1alpha1.GlobalAllocateLimit, 1, s.limit)
	}
	return limrig.TBCluster(upstream, "s", proxyv1alpha1.GlobalAllocateLimit, s.limit, s.gb)
}

// recorded returns the quotas the server has on record per instance and the sum in the .state condition
func (s *sysB) recorded() (map[string]int32, int64, int32) {
	st := s.rig.H.Store(0)
	per := map[string]int32{}
	var sum int64
	var state int32 = -1
	if st == nil {
		return per, 0, state
	}
	for _, c := range st.ListUpstream(upstream) {
		if strings.HasSuffix(c.Name, ".state") {
			for _, it := range c.Status.LimitItemStatuses {
				q, _ := quota(it.LimitItemDetail, s.typ)
				state = q
			}
			continue
		}
		for _, it := range c.Spec.LimitItemConfigurations {
			q, _ := quota(it.LimitItemDetail, s.typ)
			per[c.Spec.Instance] += q
			sum += int64(q)
		}
	}
	return per, sum, state
}

// saturatedHandover: the BFS depth does not reach "everything is handed out, THEN the shard changes hands, THEN a busy
// instance reports". This runs exactly that, on the write-back store, for every placement of the flushes: instances
// report overload until the recorded sum stops growing, the shard is given up and taken again, and every instance
// reports overload once more - judged by the same per-report oracle as the histories.
func saturatedHandover(c *ev.Check) {
	for _, typ := range []proxyv1alpha1.FlowControlSchemaType{MIF, TB} {
		for _, base := range []int32{10, 100} {
			for flushes := 0; flushes < 8; flushes++ { // bit 0: before any report, bit 1: after saturation, bit 2: after the hand-over
				sp := specBOn(typ, 2, base, "k8s-writeback")
				sys := sp.New()
				var hist []string
				do := func(e string) bool {
					hist = append(hist, e)
					if err := sp.Apply(sys, e); err != nil {
						msg := err.Error()
						key := msg
						if i := strings.Index(msg, ": "); i > 0 {
							key = msg[:i]
						}
						c.Violation("saturated-handover/"+key, fmt.Sprintf("%s limit %d, history %v: %s", typ, base, hist, msg), map[string]interface{}{"type": string(typ), "limit": base, "history": hist})
						return false
					}
					return true
				}
				ok := true
				if flushes&1 != 0 {
					ok = do("flush")
				}
				last := int64(-1)
				for round := 0; ok && round < 40; round++ {
					ok = do("report 0 over") && do("report 1 over")
					_, sum, _ := sys.(*sysB).recorded()
					if sum == last {
						break
					}
					last = sum
				}
				if ok && flushes&2 != 0 {
					ok = do("flush")
				}
				ok = ok && do("handover")
				if ok && flushes&4 != 0 {
					ok = do("flush")
				}
				ok = ok && do("report 0 over") && do("report 1 over") && do("report 0 over")
				c.Add("saturated_handover_runs", 1)
				c.Outcome("saturated_handover", fmt.Sprintf("%s/%d/%d/%d", typ, base, flushes, last))
				if sp.Close != nil {
					sp.Close(sys)
				}
			}
		}
	}
}

// longRuns: growth takes rounds - quotas start small and grow by a share of what looks free, so "everything handed
// out" is many reports away from the start (beyond the BFS depth). Directed long runs with the same step oracle: 2
// and 3 instances under constant full / over load, round-robin for 30 rounds, limits 10 / 100 / 1000, both schema
// types, also with a mixed fleet (instance 0 omits the strategy field).
func longRuns(c *ev.Check) {
	for _, typ := range []proxyv1alpha1.FlowControlSchemaType{MIF, TB} {
		for _, base := range []int32{10, 100, 1000} {
			for _, k := range []int{2, 3} {
				for _, store := range []string{"local", "local-mixed-fleet"} {
					for _, load := range []string{"full", "over", "alternating"} {
						sp := specBOn(typ, k, base, store)
						sys := sp.New()
						var hist []string
						for round := 0; round < 30; round++ {
							for i := 0; i < k; i++ {
								l := load
								if load == "alternating" {
									l = []string{"over", "idle", "full"}[(round+i)%3]
								}
								e := fmt.Sprintf("report %d %s", i, l)
								hist = append(hist, e)
								c.Add("transitions", 1)
								if err := sp.Apply(sys, e); err != nil {
									key := strings.SplitN(err.Error(), ":", 2)[0]
									c.Violation("long-run/"+store+"/"+key, fmt.Sprintf("%s, %d instances, limit %d, load %s, after %d reports: %v", typ, k, base, load, len(hist), err), map[string]interface{}{"spec": sp.Name, "history": hist})
									round = 1000
									break
								}
							}
						}
						c.Add("long_runs", 1)
						if sp.Close != nil {
							sp.Close(sys)
						}
					}
				}
			}
		}
	}
}

// twoSchemas: an upstream with TWO global-allocate schemas. An instance the server knows through schema s1 sends its
// first report for s2 - with no previous quota (it has just started to use s2), or with one the server never answered
// (what a gateway reports right after an operator switched s2 from globalCount to globalAllocate: the whole global
// limit it was running under). Whatever it says, every answered quota stays within [1, global limit] and the recorded
// sum of s2 does not pass the limit when it was within it before.
func twoSchemas(c *ev.Check) {
	const limit = 100
	for _, claimed := range []int32{0, 1, 50, limit} {
		for _, heldByB := range []int{0, 10, 40} { // rounds of overloaded reports by b on s2 before a turns up
			rig := limrig.New(1, "local")
			rig.Gain(0)
			cl := limrig.MIFCluster(upstream, "s1", proxyv1alpha1.GlobalAllocateLimit, 1, limit)
			cl.Spec.FlowControl.Schemas = append(cl.Spec.FlowControl.Schemas, limrig.MIFCluster(upstream, "s2", proxyv1alpha1.GlobalAllocateLimit, 1, limit).Spec.FlowControl.Schemas[0])
			if err := rig.ApplyCluster(cl); err != nil {
				c.EngineError("two-schemas: " + err.Error())
				return
			}
			last := map[string]int32{}
			report := func(inst string, items map[string]int32, level int32) (map[string]int32, error) {
				_ = rig.L.Heartbeat(inst)
				rep := &proxyv1alpha1.RateLimitCondition{ObjectMeta: metav1.ObjectMeta{Name: limrig.ConditionName(upstream, inst)}, Spec: proxyv1alpha1.RateLimitSpec{UpstreamCluster: upstream, Instance: inst}}
				for _, name := range []string{"s1", "s2"} {
					q, ok := items[name]
					if !ok {
						continue
					}
					it := proxyv1alpha1.RateLimitItemConfiguration{Name: name, Strategy: proxyv1alpha1.GlobalAllocateLimit}
					if q > 0 {
						it.MaxRequestsInflight = &proxyv1alpha1.MaxRequestsInflightFlowControlSchema{Max: q}
					}
					rep.Spec.LimitItemConfigurations = append(rep.Spec.LimitItemConfigurations, it)
					rep.Status.LimitItemStatuses = append(rep.Status.LimitItemStatuses, proxyv1alpha1.RateLimitItemStatus{Name: name, RequestLevel: level,
						LimitItemDetail: proxyv1alpha1.LimitItemDetail{MaxRequestsInflight: &proxyv1alpha1.MaxRequestsInflightFlowControlSchema{Max: q}}})
				}
				ans, err := rig.L.UpdateRateLimitConditionStatus(upstream, rep)
				if err != nil {
					return nil, err
				}
				out := map[string]int32{}
				for _, it := range ans.Spec.LimitItemConfigurations {
					if it.MaxRequestsInflight != nil {
						out[it.Name] = it.MaxRequestsInflight.Max
					}
				}
				return out, nil
			}
			sumS2 := func() (t int64) {
				for _, cd := range rig.H.Store(0).ListUpstream(upstream) {
					if strings.HasSuffix(cd.Name, ".state") {
						continue
					}
					for _, it := range cd.Spec.LimitItemConfigurations {
						if it.Name == "s2" && it.MaxRequestsInflight != nil {
							t += int64(it.MaxRequestsInflight.Max)
						}
					}
				}
				return
			}
			fail := false
			for i := 0; i < heldByB && !fail; i++ {
				ans, err := report("gwb", map[string]int32{"s2": last["b.s2"]}, 150)
				if err != nil {
					c.EngineError("two-schemas: " + err.Error())
					fail = true
				}
				last["b.s2"] = ans["s2"]
			}
			for i := 0; i < 3 && !fail; i++ { // a is known through s1
				ans, err := report("gwa", map[string]int32{"s1": last["a.s1"]}, 100)
				if err != nil {
					c.EngineError("two-schemas: " + err.Error())
					fail = true
				}
				last["a.s1"] = ans["s1"]
			}
			if fail {
				continue
			}
			last["a.s2"] = claimed
			for round := 0; round < 6; round++ {
				before := sumS2()
				ans, err := report("gwa", map[string]int32{"s1": last["a.s1"], "s2": last["a.s2"]}, 150)
				c.Add("transitions", 1)
				if err != nil {
					c.Violation("two-schemas/report-failed", fmt.Sprintf("b holds %d of s2; a (known through s1) reports s2 with previous quota %d: %v", last["b.s2"], last["a.s2"], err), nil)
					break
				}
				q, after := ans["s2"], sumS2()
				ctx := fmt.Sprintf("two global-allocate schemas, limit %d each; b holds %d of s2; a, known to the server through s1, reports s2 with previous quota %d under load (round %d): answered %d, recorded sum of s2 %d -> %d", limit, last["b.s2"], last["a.s2"], round, q, before, after)
				if q < 1 || q > limit {
					c.Violation("two-schemas/quota-out-of-range", ctx, map[string]interface{}{"claimed": claimed, "b_rounds": heldByB})
					break
				}
				if before <= limit && after > limit && q != 1 && !(round == 0 && claimed > 0) {
					// (round 0 with a claimed quota the server never answered: the claim itself may lift the sum - C07 speaks
					// of honest reports; what is answered from the next round on must fit again)
					c.Violation("two-schemas/overcommit", ctx, map[string]interface{}{"claimed": claimed, "b_rounds": heldByB})
					break
				}
				last["a.s1"], last["a.s2"] = ans["s1"], q
			}
			c.Add("two_schema_scenarios", 1)
		}
	}
}

func instName(i int) string { return fmt.Sprintf("gw%d", i) }

func specB(typ proxyv1alpha1.FlowControlSchemaType, k int, base int32) xstate.Spec {
	return specBOn(typ, k, base, "local")
}

// specBOn: store "k8s-writeback" is the API-backed store in write-back mode (the limiter binary's default for
// --limit-store=k8s) with the periodic flush as one more event
func specBOn(typ proxyv1alpha1.FlowControlSchemaType, k int, base int32, store string) xstate.Spec {
	loads := []string{"idle", "half", "full", "over"}
	name := fmt.Sprintf("reports-%s-k%d-limit%d", typ, k, base)
	if store != "local" {
		name += "-" + store
	}
	return xstate.Spec{
		Name: name,
		New: func() interface{} {
			vsched.InlineGo = true
			s := &sysB{rig: limrig.New(1, "local"), typ: typ, limit: base, base: base, gb: base * 2, inst: make([]inst, k)}
			if store == "k8s-writeback" {
				s.rig = limrig.NewWithSyncPeriod(1, "k8s", 24*time.Hour)
			}
			s.omitStrategy0 = store == "local-mixed-fleet"
			s.rig.Gain(0)
			if err := s.rig.ApplyCluster(s.cluster()); err != nil {
				panic(err)
			}
			return s
		},
		Events: func(si interface{}) []string {
			var evs []string
			for i := 0; i < k; i++ {
				for _, l := range loads {
					evs = append(evs, fmt.Sprintf("report %d %s", i, l))
				}
			}
			evs = append(evs, "limit down", "limit up")
			if store == "k8s-writeback" {
				evs = append(evs, "flush", "handover") // handover: the shard is given up (final flush) and taken again (load)
			}
			if typ == TB {
				evs = append(evs, "burst halved", "burst restored") // the global burst alone changes: qps, schema set and type stay
			}
			for i := 0; i < k; i++ {
				evs = append(evs, fmt.Sprintf("forget %d", i))
			}
			return evs
		},
		Apply: func(si interface{}, e string) error {
			s := si.(*sysB)
			f := strings.Fields(e)
			switch f[0] {
			case "handover":
				// what the next holder of the shard starts from is what was persisted; the quotas recorded there keep
				// binding the allocation (instances are not told that the server changed)
				s.rig.Lose(0)
				s.rig.Gain(0)
				if s.rig.H.Store(0) == nil {
					return fmt.Errorf("handover-failed: no store after the shard was taken again")
				}
				// (the .state condition is recomputed by the next report; the oracles of that report judge what it starts from)
				return nil
			case "flush":
				if fl, ok := s.rig.H.Store(0).(interface{ Flush() error }); ok {
					if err := fl.Flush(); err != nil {
						return fmt.Errorf("flush-failed: %v", err)
					}
				}
				return nil
			case "burst":
				if f[1] == "halved" {
					s.gb = s.limit
				} else {
					s.gb = s.limit * 2
				}
				if err := s.rig.ApplyCluster(s.cluster()); err != nil {
					return fmt.Errorf("limit-change-failed: %v", err)
				}
				return nil
			case "limit":
				if f[1] == "down" {
					s.limit = s.base / 10
					if s.limit < 1 {
						s.limit = 1
					}
					s.gb = s.limit * 2
				} else {
					s.limit, s.gb = s.base, s.base*2
				}
				if err := s.rig.ApplyCluster(s.cluster()); err != nil {
					return fmt.Errorf("limit-change-failed: %v", err)
				}
				return nil
			case "forget":
				var i int
				fmt.Sscanf(f[1], "%d", &i)
				s.rig.H.SetHeartbeat(instName(i), time.Now().Add(-time.Hour))
				s.rig.H.CleanupTimeoutClient()
				s.rig.H.CleanupUnknownCondition()
				s.inst[i].live = false
				return nil
			}
			var i int
			fmt.Sscanf(f[1], "%d", &i)
			in := &s.inst[i]
			var used, lvl int32
			switch f[2] {
			case "idle":
				used, lvl = 0, 0
			case "half":
				used, lvl = in.last/2, 50
			case "full":
				used, lvl = in.last, 100
			case "over":
				used, lvl = in.last, 150
			}
			_, sumBefore, _ := s.recorded()
			returning := !in.live && in.last > 0
			_ = s.rig.L.Heartbeat(instName(i))
			in.live = true
			rep := limrig.Report(upstream, instName(i), "s", s.typ, proxyv1alpha1.GlobalAllocateLimit, in.last, in.lastBurst, used, lvl)
			if in.last == 0 {
				rep.Spec.LimitItemConfigurations[0].LimitItemDetail = proxyv1alpha1.LimitItemDetail{}
			}
			if s.omitStrategy0 && i == 0 {
				rep.Spec.LimitItemConfigurations[0].Strategy = ""
			}
			prev := in.last
			ans, err := s.rig.L.UpdateRateLimitConditionStatus(upstream, rep)
			if err != nil {
				return fmt.Errorf("report-failed: honest report of %s failed: %v", instName(i), err)
			}
			if len(ans.Spec.LimitItemConfigurations) != 1 {
				return fmt.Errorf("report-unanswered: the answer carries %d items", len(ans.Spec.LimitItemConfigurations))
			}
			q, b := quota(ans.Spec.LimitItemConfigurations[0].LimitItemDetail, s.typ)
			in.last, in.lastBurst = q, b
			per, sumAfter, state := s.recorded()
			ctx := fmt.Sprintf("limit %d, %s reported previous quota %d load %s, answered %d; recorded quotas now %v (sum %d, before %d)", s.limit, instName(i), prev, f[2], q, per, sumAfter, sumBefore)
			tag := ""
			if returning {
				tag = "returning-instance/"
			}
			if q < 1 {
				return fmt.Errorf("%squota-below-1: %s", tag, ctx)
			}
			if q > s.limit {
				return fmt.Errorf("%squota-above-limit: %s", tag, ctx)
			}
			if s.typ == TB && b > s.gb {
				return fmt.Errorf("%sburst-above-global: burst %d > global burst %d; %s", tag, b, s.gb, ctx)
			}
			if per[instName(i)] != q {
				return fmt.Errorf("%sanswer-not-recorded: the server recorded %d for %s but answered %d", tag, per[instName(i)], instName(i), q)
			}
			if state >= 0 && int64(state) != sumAfter {
				return fmt.Errorf("%sstate-sum-wrong: the upstream state condition says %d, the recorded quotas sum to %d", tag, state, sumAfter)
			}
			if sumBefore <= int64(s.limit) {
				if sumAfter > int64(s.limit) && q != 1 {
					return fmt.Errorf("%sovercommit: %s", tag, ctx)
				}
			} else if q > prev && !(prev == 0 && q == 1) {
				return fmt.Errorf("%sgrows-above-limit: %s", tag, ctx)
			}
			return nil
		},
		Canon: func(si interface{}) string {
			s := si.(*sysB)
			per, sum, state := s.recorded()
			var p []string
			for k, v := range per {
				p = append(p, fmt.Sprintf("%s=%d", k, v))
			}
			sort.Strings(p)
			return fmt.Sprint(s.limit, p, sum, state, s.inst)
		},
	}
}

// ------------------------------------------------------------------ A: overlapping reports

type obsA struct {
	answers []int32
	errs    []string
	per     map[string]int32
	sum     int64
	state   int32
	limit   int32
	stored  int32 // limit recorded in the .state condition's spec
}

func harnessA(c *ev.Check, name, store string, limit int32, seed []int32, limitChange int32, bound, shards int) xa.Harness {
	body := func() interface{} {
		var s *sysB
		vsched.Passthrough(func() {
			s = &sysB{rig: limrig.New(1, store), typ: MIF, limit: limit, base: limit, inst: make([]inst, len(seed))}
			s.rig.Gain(0)
			_ = s.rig.ApplyCluster(s.cluster())
			// reach the start state with honest sequential reports: every instance is granted seed[i] by
			// raising its quota through repeated loaded reports is slow; instead the conditions are saved the way
			// UpdateRateLimitConditionStatus saves them and the upstream state is recomputed by one idle report each
			for i, q := range seed {
				_ = s.rig.L.Heartbeat(instName(i))
				cnd := limrig.Report(upstream, instName(i), "s", MIF, proxyv1alpha1.GlobalAllocateLimit, q, 0, q, 100)
				_ = s.rig.H.Store(0).Save(upstream, cnd)
				s.inst[i] = inst{last: q, live: true}
			}
			// let the server recompute the state condition from what is stored (a report that keeps the quota)
			seedState(s)
		})
		o := &obsA{answers: make([]int32, len(seed))}
		for i := range seed {
			i := i
			vsched.GoNamed(fmt.Sprintf("R%d", i), func() {
				rep := limrig.Report(upstream, instName(i), "s", MIF, proxyv1alpha1.GlobalAllocateLimit, s.inst[i].last, 0, s.inst[i].last, 150)
				ans, err := s.rig.L.UpdateRateLimitConditionStatus(upstream, rep)
				if err != nil {
					o.errs = append(o.errs, err.Error())
					return
				}
				q, _ := quota(ans.Spec.LimitItemConfigurations[0].LimitItemDetail, MIF)
				o.answers[i] = q
				vsched.Logf("%s answered %d", instName(i), q)
			})
		}
		if limitChange > 0 {
			vsched.GoNamed("L", func() {
				s.limit = limitChange
				_ = s.rig.ApplyCluster(s.cluster())
				vsched.Logf("limit -> %d", limitChange)
			})
		}
		vsched.Join()
		vsched.Passthrough(func() {
			o.per, o.sum, o.state = s.recorded()
			o.limit = s.limit
			if st, err := s.rig.L.GetUpstreamStatus(upstream); err == nil && len(st.Spec.LimitItemConfigurations) == 1 {
				o.stored, _ = quota(st.Spec.LimitItemConfigurations[0].LimitItemDetail, MIF)
			}
		})
		return o
	}
	var seedSum int64
	for _, q := range seed {
		seedSum += int64(q)
	}
	check := func(x *vsched.Exec) error {
		o := x.Obs.(*obsA)
		c.Outcome("overlap_outcomes", name+fmt.Sprint(o.answers, o.sum, o.stored))
		if len(o.errs) > 0 {
			return fmt.Errorf("report-failed: %v", o.errs)
		}
		if o.stored != o.limit {
			return fmt.Errorf("limit-change-lost: the limit recorded for the upstream is %d after it was set to %d (a concurrent report wrote back its stale copy)", o.stored, o.limit)
		}
		if limitChange == 0 && seedSum <= int64(o.limit) && o.sum > int64(o.limit) {
			ones := true
			for _, a := range o.answers {
				if a != 1 {
					ones = false
				}
			}
			if !ones {
				return fmt.Errorf("overcommit-overlap: limit %d, recorded sum was %d; after the overlapping reports the quotas are %v (sum %d)", o.limit, seedSum, o.per, o.sum)
			}
		}
		if int64(o.state) != o.sum {
			return fmt.Errorf("state-sum-wrong: the upstream state condition says %d, the recorded quotas sum to %d (%v)", o.state, o.sum, o.per)
		}
		return nil
	}
	return xa.Harness{Name: name, Bound: bound, Shards: shards, Horizon: 20000, Body: body, Check: check}
}

// seedState makes the server recompute the upstream state condition from the stored conditions.
func seedState(s *sysB) {
	// a no-op limit "change" goes through UpstreamConditionHandler; the sum is recomputed by calculateUpstreamCondition
	// only inside a report, so issue one idle report of instance 0 that keeps its quota out of the overlap: instead we
	// recompute through the public path of a report for a throw-away instance with quota kept at its minimum.
	st := s.rig.H.Store(0)
	up, err := st.Get(upstream, upstream+".state")
	if err != nil {
		return
	}
	var sum int32
	for _, c := range st.ListUpstream(upstream) {
		if strings.HasSuffix(c.Name, ".state") {
			continue
		}
		for _, it := range c.Spec.LimitItemConfigurations {
			q, _ := quota(it.LimitItemDetail, MIF)
			sum += q
		}
	}
	up = up.DeepCopy()
	up.Status.LimitItemStatuses = []proxyv1alpha1.RateLimitItemStatus{{Name: "s", LimitItemDetail: detail(MIF, sum, 0), RequestLevel: 100}}
	_ = st.Save(upstream, up)
}

func harnesses(c *ev.Check, bound int) []xa.Harness {
	sh := 1
	if bound >= 2 {
		sh = 4
	}
	hs := []xa.Harness{
		harnessA(c, "two-loaded-reports-near-limit", "local", 100, []int32{45, 45}, 0, bound, sh),
		harnessA(c, "two-loaded-reports-near-limit-k8s-store", "k8s", 100, []int32{45, 45}, 0, bound, sh),
		harnessA(c, "report-vs-limit-lowered", "local", 100, []int32{40}, 10, bound, sh),
	}
	if bound <= 1 || c.Thorough() || c.ReplayFile() != "" {
		hs = append(hs,
			harnessA(c, "three-loaded-reports-near-limit", "local", 100, []int32{30, 30, 30}, 0, bound, sh*4),
			harnessA(c, "two-reports-vs-limit-lowered", "k8s", 100, []int32{40, 40}, 50, bound, sh*4))
	}
	return hs
}

func main() {
	c := ev.Start("C07", "model_checking")
	c.Assume = []string{
		"honest instances: each report carries as previous quota exactly what the instance was last answered (nothing for a new one) and its quota is part of the recorded sum",
		"grid values are the branch boundaries of calculateNextQuota (levels 0/70/100, thresholds +-5, clients 10/11, total/50, 0.2%) in the int32 range; total = 0 is outside the property's domain",
		"engine A: ratelimter.go, store/local/local.go and upstreamcondition.go instrumented; statement-level points in UpdateRateLimitConditionStatus and UpstreamConditionHandler; start states of the overlap harnesses are written with the store's own Save",
	}
	var specs []xstate.Spec
	for _, typ := range []proxyv1alpha1.FlowControlSchemaType{MIF, TB} {
		for _, base := range []int32{10, 100} {
			specs = append(specs, specB(typ, 2, base))
		}
	}
	specs = append(specs, specB(MIF, 3, 100), specB(MIF, 3, 10), specBOn(MIF, 2, 10, "k8s-writeback"), specBOn(TB, 2, 100, "k8s-writeback"),
		specBOn(MIF, 2, 10, "local-mixed-fleet"), specBOn(TB, 2, 100, "local-mixed-fleet"))
	if c.ReplayFile() != "" {
		replayable := append([]xstate.Spec{}, specs...)
		for _, typ := range []proxyv1alpha1.FlowControlSchemaType{MIF, TB} { // the specs of longRuns
			for _, base := range []int32{10, 100, 1000} {
				for _, k := range []int{2, 3} {
					replayable = append(replayable, specBOn(typ, k, base, "local"), specBOn(typ, k, base, "local-mixed-fleet"))
				}
			}
		}
		xstate.ReplayIfAsked(c, replayable)
		xa.ReplayIfAsked(c, harnesses(c, 0))
	}
	var tasks []ev.Task
	totals := []int64{1, 2, 3, 5, 10, 49, 50, 100, 499, 500, 1000, 5000, 100000, math.MaxInt32}
	for _, typ := range []proxyv1alpha1.FlowControlSchemaType{MIF, TB} {
		for _, t := range totals {
			typ, t := typ, t
			tasks = append(tasks, ev.Task{Name: fmt.Sprintf("grid-%s-%d", typ, t), Run: func() { grid(c, typ, []int64{t}) }})
		}
	}
	for i, sp := range specs {
		d := c.Pick(5, 7)
		if i >= 4 {
			d = c.Pick(4, 6)
		}
		tasks = append(tasks, xstate.Tasks(c, sp, d, 10)...)
	}
	bounds := []int{0, 1, 2}
	if c.Thorough() {
		bounds = []int{0, 1, 2, 3}
	}
	for _, b := range bounds {
		for _, h := range harnesses(c, b) {
			tasks = append(tasks, xa.Tasks(c, h)...)
		}
	}
	tasks = append(tasks, ev.Task{Name: "saturated-handover", Run: func() { saturatedHandover(c) }})
	tasks = append(tasks, ev.Task{Name: "long-runs", Run: func() { longRuns(c) }})
	tasks = append(tasks, ev.Task{Name: "two-schemas", Run: func() { twoSchemas(c) }})
	c.RunTasks(tasks)
	c.Finish(map[string]interface{}{
		"states":                        c.Counter("states") + c.Counter("choice_points"),
		"transitions":                   c.Counter("transitions") + c.Counter("steps"),
		"traces_validated_against_impl": c.Counter("schedules") + c.Counter("replays"),
		"arithmetic_evaluations":        c.Counter("quota_evaluations"),
		"explanation":                   "states/transitions: report-history searches (engine B) plus scheduling decision points/steps of the overlap harnesses (engine A); arithmetic_evaluations: full product of the numeric grid through the real calculateNextQuota.",
	})
}
