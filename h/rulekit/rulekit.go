// Package rulekit holds the rule/request alphabets shared by the C01 and C17 checks.
package rulekit

import (
	"fmt"
	"strings"

	"k8s.io/apiserver/pkg/authentication/user"
	"k8s.io/apiserver/pkg/authorization/authorizer"

	proxyv1alpha1 "github.com/kubewharf/kubegateway/pkg/apis/proxy/v1alpha1"
)

type Req struct {
	Verb, Group, Resource, Sub, Name, Path, User string
	Groups                                       []string
	IsRes                                        bool
}

func (r Req) Attrs() authorizer.Attributes {
	return authorizer.AttributesRecord{
		User: &user.DefaultInfo{Name: r.User, Groups: r.Groups}, Verb: r.Verb, APIGroup: r.Group, Resource: r.Resource,
		Subresource: r.Sub, Name: r.Name, ResourceRequest: r.IsRes, Path: r.Path,
	}
}

func (r Req) String() string {
	if r.IsRes {
		return fmt.Sprintf("%s group=%q res=%s sub=%q Name=%q user=%s groups=%v", r.Verb, r.Group, r.Resource, r.Sub, r.Name, r.User, r.Groups)
	}
	return fmt.Sprintf("%s path=%s user=%s groups=%v", r.Verb, r.Path, r.User, r.Groups)
}

var BaseRes = Req{Verb: "get", Group: "", Resource: "pods", Name: "a", User: "alice", Groups: []string{"g1"}, IsRes: true}
var BaseNon = Req{Verb: "get", Path: "/healthz", User: "alice", Groups: []string{"g1"}}

func Lists(Tokens []string, maxLen int) [][]string {
	out := [][]string{{}}
	frontier := [][]string{{}}
	for l := 1; l <= maxLen; l++ {
		var next [][]string
		for _, p := range frontier {
			for _, t := range Tokens {
				n := append(append([]string{}, p...), t)
				next = append(next, n)
			}
		}
		out = append(out, next...)
		frontier = next
	}
	return out
}

var (
	TokVerbs  = []string{"*", "get", "list", "-get", "-list", "-*", "GET", "-GET"} // (verbs are compared as written: GET is not get)
	TokGroups = []string{"*", "", "apps", "-", "-apps", "-*"}
	// ("status" / "-status": a resource that is NAMED like the subresource the */sub entries speak of)
	TokRes   = []string{"*", "pods", "pods/status", "*/status", "deployments", "-pods", "-deployments", "-pods/status", "-*/status", "status", "-status", "-*"}
	TokNames = []string{"*", "a", "-a", "-b", "-*"}
	TokUsers = []string{"*", "alice", "system:*", "-alice", "-system:*", "-*"}
	TokUG    = []string{"*", "g1", "g2", "-g1", "-g2", "-*"}
	TokURL   = []string{"*", "/healthz", "/healthz/*", "/api*", "-/healthz"}
	SaSets   = [][]proxyv1alpha1.ServiceAccountRef{nil, {{Namespace: "ns", Name: "sa"}}, {{Namespace: "", Name: "sa"}}}

	ReqVerbs  = []string{"get", "list", "watch", "ge", "gets"}
	ReqGroups = []string{"", "apps", "app", "appsx"}
	ReqRes    = []string{"pods", "deployments", "nodes", "pod", "podsx", "status"}
	ReqSubs   = []string{"", "status", "log", "statusx", "stat"}
	ReqNames  = []string{"", "a", "b", "ab"}
	ReqPaths  = []string{"/healthz", "/healthz/x", "/api", "/version", "/apis", "/healthzz", "/health", "/healthz/", "/ap", "/x/healthz/y"}
	ReqUsers  = []string{"alice", "bob", "system:node", "system:serviceaccount:ns:sa", "alicex", "alic", "xalice", "system", "system:", "xsystem:node",
		"system:serviceaccount:ns-x:sa", "system:serviceaccount:ns:sa2", "system:serviceaccount:xns:sa", "system:serviceaccount:ns:xsa", "system:serviceaccount:n:sa", "system:serviceaccount::sa", "ns:sa"}
	ReqUG = [][]string{{}, {"g1"}, {"g2"}, {"g1", "g2"}, {"g3"}, {"g11"}, {"g"}, {"g3", "g2"}}
)

type Field struct {
	Name string
	// Set installs a list into a rule
	Set func(r *proxyv1alpha1.DispatchPolicyRule, l []string)
	// requests varying the attribute(s) the Field looks at
	Reqs   func() []Req
	Tokens []string
}

func Wild() proxyv1alpha1.DispatchPolicyRule {
	return proxyv1alpha1.DispatchPolicyRule{Verbs: []string{"*"}, APIGroups: []string{"*"}, Resources: []string{"*"}, NonResourceURLs: []string{"*"}}
}

func Fields() []Field {
	vary := func(f func(r *Req, i int), n int, bases ...Req) func() []Req {
		return func() []Req {
			var out []Req
			for _, b := range bases {
				for i := 0; i < n; i++ {
					r := b
					f(&r, i)
					out = append(out, r)
				}
			}
			return out
		}
	}
	return []Field{
		{"verbs", func(r *proxyv1alpha1.DispatchPolicyRule, l []string) { r.Verbs = l }, vary(func(r *Req, i int) { r.Verb = ReqVerbs[i] }, len(ReqVerbs), BaseRes, BaseNon), TokVerbs},
		{"apiGroups", func(r *proxyv1alpha1.DispatchPolicyRule, l []string) { r.APIGroups = l }, vary(func(r *Req, i int) { r.Group = ReqGroups[i] }, len(ReqGroups), BaseRes), TokGroups},
		{"resources", func(r *proxyv1alpha1.DispatchPolicyRule, l []string) { r.Resources = l }, vary(func(r *Req, i int) { r.Resource = ReqRes[i/len(ReqSubs)]; r.Sub = ReqSubs[i%len(ReqSubs)] }, len(ReqRes)*len(ReqSubs), BaseRes), TokRes},
		{"resourceNames", func(r *proxyv1alpha1.DispatchPolicyRule, l []string) { r.ResourceNames = l }, vary(func(r *Req, i int) { r.Name = ReqNames[i] }, len(ReqNames), BaseRes), TokNames},
		{"users", func(r *proxyv1alpha1.DispatchPolicyRule, l []string) { r.Users = l }, vary(func(r *Req, i int) { r.User = ReqUsers[i] }, len(ReqUsers), BaseRes, BaseNon), TokUsers},
		{"userGroups", func(r *proxyv1alpha1.DispatchPolicyRule, l []string) { r.UserGroups = l }, vary(func(r *Req, i int) { r.Groups = ReqUG[i] }, len(ReqUG), BaseRes, BaseNon), TokUG},
		{"nonResourceURLs", func(r *proxyv1alpha1.DispatchPolicyRule, l []string) { r.NonResourceURLs = l }, vary(func(r *Req, i int) { r.Path = ReqPaths[i] }, len(ReqPaths), BaseNon), TokURL},
	}
}

func Shape(l []string) string {
	var s []string
	for _, e := range l {
		switch {
		case e == "*":
			s = append(s, "*")
		case strings.HasPrefix(e, "-") && strings.HasSuffix(e, "*"):
			s = append(s, "-glob")
		case strings.HasPrefix(e, "-*/"):
			s = append(s, "-*/sub")
		case strings.HasPrefix(e, "-"):
			s = append(s, "-x")
		case strings.HasSuffix(e, "*"):
			s = append(s, "glob")
		case strings.HasPrefix(e, "*/"):
			s = append(s, "*/sub")
		default:
			s = append(s, "x")
		}
	}
	return "[" + strings.Join(s, ",") + "]"
}

func SaShape(sa []proxyv1alpha1.ServiceAccountRef) string {
	if len(sa) == 0 {
		return ""
	}
	if sa[0].Namespace == "" {
		return "+sa(incomplete)"
	}
	return "+sa"
}

func Merge(a, b Req, bField string) Req {
	r := a
	switch bField {
	case "verbs":
		r.Verb = b.Verb
	case "apiGroups":
		r.Group = b.Group
	case "resources":
		r.Resource, r.Sub = b.Resource, b.Sub
	case "resourceNames":
		r.Name = b.Name
	case "users":
		r.User = b.User
	case "userGroups":
		r.Groups = b.Groups
	case "nonResourceURLs":
		r.Path = b.Path
	}
	return r
}
