// C12 — authentication and authorization decisions never cross clusters.
// Engine B: request sequences (same token / same user and attributes addressed
// to different hosts, in any order) interleaved with answer changes, readiness
// flips, aliases moving between clusters and cluster deletion, on the real
// multi-cluster TokenReview authenticator and SubjectAccessReview authorizer;
// every answer carries the identity of the cluster that gave it.
// Engine A: two concurrent identical reviews for different hosts (each review
// call is a schedule point), every interleaving up to a preemption bound.
package main

import (
	"context"
	"fmt"
	apierrors "k8s.io/apimachinery/pkg/api/errors"
	"sort"
	"strings"
	"time"

	authenticationv1 "k8s.io/api/authentication/v1"
	authorizationv1 "k8s.io/api/authorization/v1"
	metav1 "k8s.io/apimachinery/pkg/apis/meta/v1"
	"k8s.io/apimachinery/pkg/runtime"
	"k8s.io/apiserver/pkg/authentication/authenticator"
	"k8s.io/apiserver/pkg/authentication/user"
	"k8s.io/apiserver/pkg/authorization/authorizer"
	"k8s.io/client-go/kubernetes"
	k8sfake "k8s.io/client-go/kubernetes/fake"
	authnclient "k8s.io/client-go/kubernetes/typed/authentication/v1"
	authzclient "k8s.io/client-go/kubernetes/typed/authorization/v1"
	k8stesting "k8s.io/client-go/testing"

	proxyv1alpha1 "github.com/kubewharf/kubegateway/pkg/apis/proxy/v1alpha1"
	"github.com/kubewharf/kubegateway/pkg/clusters"
	tokenwebhook "github.com/kubewharf/kubegateway/pkg/gateway/authentication/token/webhook"
	sarwebhook "github.com/kubewharf/kubegateway/pkg/gateway/authorization/webhook"
	"github.com/kubewharf/kubegateway/pkg/gateway/endpoints/request"
	"github.com/kubewharf/kubegateway/pkg/zzverif/vsched"

	"verifh/e2e"
	"verifh/ev"
	"verifh/kit"
	"verifh/xa"
	"verifh/xstate"
)

// ------------------------------------------------------------------ stub clusters

type stubCluster struct {
	name   string
	ci     *clusters.ClusterInfo
	cs     *k8sfake.Clientset
	ready  bool
	authn  map[string]string // token -> "ok" | "reject" | "error"
	authz  map[string]string // user/verb/resource -> allow | deny | noopinion | error
	calls  []string
	yield  *bool
	given  map[string]map[string]bool // key -> answers this cluster has given
	serial int
}

func newStubCluster(name string, yield *bool) *stubCluster {
	c := &stubCluster{name: name, ready: true, authn: map[string]string{}, authz: map[string]string{}, yield: yield, given: map[string]map[string]bool{}}
	c.ci = clusters.NewEmptyClusterInfo(name, nil, nil, "", nil)
	c.cs = k8sfake.NewSimpleClientset()
	c.cs.PrependReactor("create", "tokenreviews", func(a k8stesting.Action) (bool, runtime.Object, error) {
		tr := a.(k8stesting.CreateAction).GetObject().(*authenticationv1.TokenReview)
		c.calls = append(c.calls, "authn:"+tr.Spec.Token)
		ans := c.authn[tr.Spec.Token]
		c.note("authn:"+tr.Spec.Token, ans)
		switch ans {
		case "ok":
			tr.Status = authenticationv1.TokenReviewStatus{Authenticated: true, User: authenticationv1.UserInfo{Username: "user-of-" + c.name, Groups: []string{"from-" + c.name}}}
			return true, tr, nil
		case "error":
			return true, nil, fmt.Errorf("tokenreview of cluster %s failed", c.name)
		}
		tr.Status = authenticationv1.TokenReviewStatus{Authenticated: false}
		return true, tr, nil
	})
	c.cs.PrependReactor("create", "subjectaccessreviews", func(a k8stesting.Action) (bool, runtime.Object, error) {
		sar := a.(k8stesting.CreateAction).GetObject().(*authorizationv1.SubjectAccessReview)
		key := sarKey(sar.Spec.User, sar.Spec.ResourceAttributes.Verb, sar.Spec.ResourceAttributes.Resource)
		c.calls = append(c.calls, "authz:"+key)
		ans := c.authz[key]
		c.note("authz:"+key, ans)
		switch ans {
		case "allow":
			sar.Status = authorizationv1.SubjectAccessReviewStatus{Allowed: true, Reason: "by " + c.name}
		case "deny":
			sar.Status = authorizationv1.SubjectAccessReviewStatus{Denied: true, Reason: "by " + c.name}
		case "error":
			return true, nil, fmt.Errorf("subjectaccessreview of cluster %s failed", c.name)
		default:
			sar.Status = authorizationv1.SubjectAccessReviewStatus{Reason: "by " + c.name}
		}
		return true, sar, nil
	})
	return c
}

func (c *stubCluster) note(key, ans string) {
	if c.given[key] == nil {
		c.given[key] = map[string]bool{}
	}
	c.given[key][ans] = true
}

func sarKey(u, verb, res string) string { return u + "/" + verb + "/" + res }

// provider is the ClientProvider the webhooks talk to: host -> cluster, mutable
type provider struct {
	hosts map[string]*stubCluster
}

func (p *provider) ClientFor(name string) (*clusters.ClusterInfo, kubernetes.Interface, error) {
	c, ok := p.hosts[strings.ToLower(name)]
	if !ok {
		return nil, nil, fmt.Errorf("cluster %q: %w", name, clusters.ErrClusterNotFound)
	}
	if !c.ready {
		return c.ci, nil, clusters.ErrNoReadyEndpoints
	}
	return c.ci, yieldK8s{c.cs, c.yield}, nil
}

// yieldK8s makes every review call a schedule point taken before the call (engine A)
type yieldK8s struct {
	kubernetes.Interface
	on *bool
}

func (y yieldK8s) AuthorizationV1() authzclient.AuthorizationV1Interface {
	return yieldAuthz{y.Interface.AuthorizationV1(), y.on}
}
func (y yieldK8s) AuthenticationV1() authnclient.AuthenticationV1Interface {
	return yieldAuthn{y.Interface.AuthenticationV1(), y.on}
}

type yieldAuthz struct {
	authzclient.AuthorizationV1Interface
	on *bool
}

func (y yieldAuthz) SubjectAccessReviews() authzclient.SubjectAccessReviewInterface {
	return yieldSAR{y.AuthorizationV1Interface.SubjectAccessReviews(), y.on}
}

type yieldSAR struct {
	authzclient.SubjectAccessReviewInterface
	on *bool
}

func (y yieldSAR) Create(ctx context.Context, s *authorizationv1.SubjectAccessReview, o metav1.CreateOptions) (*authorizationv1.SubjectAccessReview, error) {
	if *y.on {
		vsched.Point()
	}
	r, err := y.SubjectAccessReviewInterface.Create(ctx, s, o)
	if *y.on {
		vsched.Point() // the answer is on its way back
	}
	return r, err
}

type yieldAuthn struct {
	authnclient.AuthenticationV1Interface
	on *bool
}

func (y yieldAuthn) TokenReviews() authnclient.TokenReviewInterface {
	return yieldTR{y.AuthenticationV1Interface.TokenReviews(), y.on}
}

type yieldTR struct {
	authnclient.TokenReviewInterface
	on *bool
}

func (y yieldTR) Create(ctx context.Context, s *authenticationv1.TokenReview, o metav1.CreateOptions) (*authenticationv1.TokenReview, error) {
	if *y.on {
		vsched.Point()
	}
	r, err := y.TokenReviewInterface.Create(ctx, s, o)
	if *y.on {
		vsched.Point()
	}
	return r, err
}

// ------------------------------------------------------------------ system

type sys struct {
	p     *provider
	a, b  *stubCluster
	authn authenticator.Token
	authz authorizer.Authorizer
	yield bool
	ttl   time.Duration
}

func newSys(ttl time.Duration) *sys {
	s := &sys{ttl: ttl}
	s.a, s.b = newStubCluster("a", &s.yield), newStubCluster("b", &s.yield)
	s.p = &provider{hosts: map[string]*stubCluster{"a": s.a, "a-alias": s.a, "b": s.b, "x": s.a}}
	s.authn = tokenwebhook.NewMultiClusterTokenReviewAuthenticator(s.p, ttl, ttl, nil)
	s.authz = sarwebhook.NewMultiClusterSubjectAccessReviewAuthorizer(s.p, ttl, ttl)
	for _, c := range []*stubCluster{s.a, s.b} {
		c.authn["t1"], c.authn["t2"] = "ok", "reject"
		c.authz[sarKey("alice", "get", "pods")] = "allow"
		c.authz[sarKey("alice", "impersonate", "users")] = "deny"
	}
	return s
}

func ctxFor(host string) context.Context {
	return request.WithExtraRequestInfo(context.Background(), &request.ExtraRequestInfo{Hostname: host})
}

func (s *sys) doAuthn(host, token string) error {
	owner := s.p.hosts[host]
	before := map[*stubCluster]int{s.a: len(s.a.calls), s.b: len(s.b.calls)}
	resp, ok, err := s.authn.AuthenticateToken(ctxFor(host), token)
	for _, c := range []*stubCluster{s.a, s.b} {
		if !s.yield && c != owner && len(c.calls) > before[c] { // (not attributable while another request runs concurrently)
			return fmt.Errorf("review-sent-to-foreign-cluster: authenticating a token for host %q sent a TokenReview to cluster %s", host, c.name)
		}
	}
	if owner == nil || !owner.ready {
		if ok || resp != nil || err == nil {
			return fmt.Errorf("authenticated-without-cluster: host %q has no cluster that can be asked, but the token was accepted (ok=%v resp=%v err=%v)", host, ok, resp, err)
		}
		return nil
	}
	if ok && resp != nil {
		if resp.User.GetName() != "user-of-"+owner.name {
			return fmt.Errorf("foreign-authentication-result: request for host %q (cluster %s) was authenticated as %q, an answer only another cluster gave", host, owner.name, resp.User.GetName())
		}
		if !owner.given["authn:"+token]["ok"] {
			return fmt.Errorf("invented-authentication-result: cluster %s never authenticated token %s, yet host %q accepts it", owner.name, token, host)
		}
	} else if err == nil {
		if !owner.given["authn:"+token]["reject"] && !owner.given["authn:"+token][""] {
			return fmt.Errorf("invented-authentication-result: cluster %s never rejected token %s, yet host %q rejects it", owner.name, token, host)
		}
	}
	return nil
}

func (s *sys) doAuthz(host, verb, res string) error {
	owner := s.p.hosts[host]
	before := map[*stubCluster]int{s.a: len(s.a.calls), s.b: len(s.b.calls)}
	attr := authorizer.AttributesRecord{User: &user.DefaultInfo{Name: "alice"}, Verb: verb, Resource: res, ResourceRequest: true}
	d, reason, err := s.authz.Authorize(ctxFor(host), attr)
	for _, c := range []*stubCluster{s.a, s.b} {
		if !s.yield && c != owner && len(c.calls) > before[c] {
			return fmt.Errorf("review-sent-to-foreign-cluster: authorizing a request for host %q sent a SubjectAccessReview to cluster %s", host, c.name)
		}
	}
	if owner == nil || !owner.ready {
		if d != authorizer.DecisionDeny {
			return fmt.Errorf("decided-without-cluster: host %q has no cluster that can be asked, but the decision is %v", host, d)
		}
		return nil
	}
	if err != nil {
		if d == authorizer.DecisionAllow {
			return fmt.Errorf("allowed-on-error: %v", err)
		}
		return nil
	}
	if reason != "by "+owner.name {
		return fmt.Errorf("foreign-authorization-decision: request for host %q (cluster %s), %s %s: decision %v with reason %q - an answer another cluster gave", host, owner.name, verb, res, d, reason)
	}
	want := map[authorizer.Decision]string{authorizer.DecisionAllow: "allow", authorizer.DecisionDeny: "deny", authorizer.DecisionNoOpinion: "noopinion"}[d]
	g := owner.given["authz:"+sarKey("alice", verb, res)]
	if !g[want] && !(want == "noopinion" && g[""]) {
		return fmt.Errorf("invented-authorization-decision: cluster %s never answered %s for %s %s, yet host %q gets it", owner.name, want, verb, res, host)
	}
	return nil
}

var cleanupNeverCame bool

// recreated: a cluster is deleted and another one registered under its name (another control plane: the opposite
// answers). What the old cluster answered must not be served for the new one - with time for the asynchronous
// clean-up of the stopped cluster's caches to happen (up to 5 s; not judged itself).
func recreated(c *ev.Check) {
	for _, kind := range []string{"authn", "authz"} {
		s := newSys(time.Hour)
		sp := spec(time.Hour)
		var hist []string
		for _, e := range []string{kind + " a " + map[string]string{"authn": "t1", "authz": "get pods"}[kind], "delete a", "recreate a", kind + " a " + map[string]string{"authn": "t1", "authz": "get pods"}[kind], kind + " a-alias " + map[string]string{"authn": "t1", "authz": "get pods"}[kind]} {
			hist = append(hist, e)
			c.Add("transitions", 1)
			if err := sp.Apply(s, e); err != nil {
				key := strings.SplitN(err.Error(), ":", 2)[0]
				c.Violation("recreated-cluster/"+key, fmt.Sprintf("cluster a answered, was deleted, and a new cluster a (another control plane) was registered: %v", err), map[string]interface{}{"spec": sp.Name, "history": hist})
				break
			}
		}
		sp.Close(s)
		c.Add("recreate_scenarios", 1)
		// (the add-only read hook works by reflection: recorded so that a hook that silently sees nothing shows)
		c.Add("cache_keys_seen_through_hook", int64(len(tokenwebhook.VerifCacheKeys(s.authn))+len(sarwebhook.VerifCacheKeys(s.authz))))
	}
}

// retryDuringMove: a review that fails with a retriable error is retried after a back-off. While it backs off, the
// server name it was addressed to moves to the other live cluster. The request was resolved to the first cluster: the
// retry asks that cluster again, and whatever is decided (and cached) is that cluster's answer.
func retryDuringMove(c *ev.Check) {
	s := newSys(time.Hour)
	defer func() { s.a.ci.Stop(); s.b.ci.Stop() }()
	s.a.authz[sarKey("alice", "impersonate", "users")] = "deny"
	s.b.authz[sarKey("alice", "impersonate", "users")] = "allow"
	first := true
	s.a.cs.PrependReactor("create", "subjectaccessreviews", func(k8stesting.Action) (bool, runtime.Object, error) {
		if !first {
			return false, nil, nil
		}
		first = false
		s.p.hosts["x"] = s.b // the name moves while the request is backing off
		return true, nil, apierrors.NewInternalError(fmt.Errorf("etcd leader changed"))
	})
	attr := authorizer.AttributesRecord{User: &user.DefaultInfo{Name: "alice"}, Verb: "impersonate", Resource: "users", ResourceRequest: true}
	nb := len(s.b.calls)
	d, reason, err := s.authz.Authorize(ctxFor("x"), attr)
	c.Add("transitions", 1)
	c.Add("retry_scenarios", 1)
	c.Outcome("retry_outcomes", fmt.Sprintf("%v/%s/%v/b-asked=%d", d, reason, err != nil, len(s.b.calls)-nb))
	if len(s.b.calls) != nb {
		c.Violation("retry/review-sent-to-foreign-cluster", fmt.Sprintf("a review for host x (cluster a when the request arrived) failed once; while it backed off the name moved to cluster b; the retry was sent to cluster b (%d reviews)", len(s.b.calls)-nb), nil)
	}
	if d == authorizer.DecisionAllow || reason == "by b" {
		c.Violation("retry/foreign-authorization-decision", fmt.Sprintf("the request resolved to cluster a (which refuses) was decided %v with reason %q after its retry", d, reason), nil)
	}
	// and what got cached for cluster a is cluster a's answer
	s.p.hosts["x"] = s.a
	if d2, r2, _ := s.authz.Authorize(ctxFor("x"), attr); d2 == authorizer.DecisionAllow || r2 == "by b" {
		c.Violation("retry/foreign-decision-cached", fmt.Sprintf("with x back at cluster a the same request is decided %v with reason %q - cluster b's answer was cached for cluster a", d2, r2), nil)
	}
}

func spec(ttl time.Duration) xstate.Spec {
	hosts := []string{"a", "a-alias", "b", "x", "unknown"}
	return xstate.Spec{
		Name: fmt.Sprintf("requests-ttl-%v", ttl),
		New:  func() interface{} { return newSys(ttl) },
		Events: func(si interface{}) []string {
			var evs []string
			for _, h := range hosts {
				evs = append(evs, "authn "+h+" t1", "authn "+h+" t2", "authz "+h+" get pods", "authz "+h+" impersonate users")
			}
			evs = append(evs, "flip a", "flip b", "answers a", "answers b", "move-x", "delete a")
			if si.(*sys).a.ci.Context().Err() != nil {
				evs = append(evs, "recreate a")
			}
			return evs
		},
		Apply: func(si interface{}, e string) error {
			s := si.(*sys)
			f := strings.Fields(e)
			switch f[0] {
			case "authn":
				return s.doAuthn(f[1], f[2])
			case "authz":
				return s.doAuthz(f[1], f[2], f[3])
			case "flip":
				c := map[string]*stubCluster{"a": s.a, "b": s.b}[f[1]]
				c.ready = !c.ready
			case "answers":
				// the cluster changes its mind about everything (tokens rotated, RBAC changed)
				c := map[string]*stubCluster{"a": s.a, "b": s.b}[f[1]]
				c.serial++
				flip := map[string]string{"ok": "reject", "reject": "ok", "allow": "deny", "deny": "allow"}
				for k, v := range c.authn {
					c.authn[k] = flip[v]
				}
				for k, v := range c.authz {
					c.authz[k] = flip[v]
				}
			case "move-x":
				// the server name x moves to the other cluster (both clusters stay alive)
				if s.p.hosts["x"] == s.a {
					s.p.hosts["x"] = s.b
				} else if s.p.hosts["x"] == s.b {
					s.p.hosts["x"] = s.a
				}
			case "delete":
				if s.a.ci.Context().Err() == nil {
					s.a.ci.Stop()
					for h, c := range s.p.hosts {
						if c == s.a {
							delete(s.p.hosts, h)
						}
					}
					// the webhooks drop a stopped cluster's caches from a goroutine: wait until they are gone (count-based; if
					// they never go, carry on - the requests that follow are judged as usual)
					for d := time.Now().Add(5 * time.Second); !cleanupNeverCame && time.Now().Before(d); time.Sleep(time.Millisecond) {
						if time.Until(d) < 2*time.Millisecond {
							cleanupNeverCame = true // (do not wait again in this process)
						}
						left := 0
						for _, k := range append(tokenwebhook.VerifCacheKeys(s.authn), sarwebhook.VerifCacheKeys(s.authz)...) {
							if strings.HasPrefix(k, "a/") {
								left++
							}
						}
						if left == 0 {
							break
						}
					}
				}
			case "recreate":
				// a new cluster is registered under the deleted cluster's name: another control plane (its tokens and RBAC
				// are its own: the opposite answers), another ClusterInfo - not the cluster the old results came from
				old := s.a
				s.a = newStubCluster("a", &s.yield)
				s.a.serial = old.serial + 1
				flip := map[string]string{"ok": "reject", "reject": "ok", "allow": "deny", "deny": "allow"}
				for k, v := range old.authn {
					s.a.authn[k] = flip[v]
				}
				for k, v := range old.authz {
					s.a.authz[k] = flip[v]
				}
				s.p.hosts["a"], s.p.hosts["a-alias"] = s.a, s.a
			}
			return nil
		},
		Canon: func(si interface{}) string {
			s := si.(*sys)
			var hs []string
			for h, c := range s.p.hosts {
				hs = append(hs, h+"="+c.name)
			}
			sort.Strings(hs)
			// what the caches would answer now is observed by a dry probe per (host, key) without advancing the stubs
			return fmt.Sprint(hs, s.a.ready, s.b.ready, s.a.serial%2, s.b.serial%2, s.probe())
		},
		Close: func(si interface{}) {
			s := si.(*sys)
			s.a.ci.Stop()
			s.b.ci.Stop()
		},
	}
}

// probe: which (host, key) pairs are currently answered without a review (= cached), and how
func (s *sys) probe() []string {
	var out []string
	if s.ttl == 0 {
		return out
	}
	for _, h := range []string{"a", "a-alias", "b", "x"} {
		owner := s.p.hosts[h]
		if owner == nil || !owner.ready {
			continue
		}
		na, nb := len(s.a.calls), len(s.b.calls)
		savedA, savedB := cloneGiven(s.a), cloneGiven(s.b)
		for _, tok := range []string{"t1", "t2"} {
			resp, ok, _ := s.authn.AuthenticateToken(ctxFor(h), tok)
			if len(s.a.calls) == na && len(s.b.calls) == nb {
				n := ""
				if resp != nil {
					n = resp.User.GetName()
				}
				out = append(out, fmt.Sprintf("%s/%s cached %v %s", h, tok, ok, n))
			}
			na, nb = len(s.a.calls), len(s.b.calls)
		}
		for _, k := range [][2]string{{"get", "pods"}, {"impersonate", "users"}} {
			attr := authorizer.AttributesRecord{User: &user.DefaultInfo{Name: "alice"}, Verb: k[0], Resource: k[1], ResourceRequest: true}
			d, r, _ := s.authz.Authorize(ctxFor(h), attr)
			if len(s.a.calls) == na && len(s.b.calls) == nb {
				out = append(out, fmt.Sprintf("%s/%s cached %v %s", h, k[0], d, r))
			}
			na, nb = len(s.a.calls), len(s.b.calls)
		}
		s.a.given, s.b.given = savedA, savedB
	}
	return out
}

func cloneGiven(c *stubCluster) map[string]map[string]bool {
	out := map[string]map[string]bool{}
	for k, m := range c.given {
		out[k] = map[string]bool{}
		for a := range m {
			out[k][a] = true
		}
	}
	return out
}

// ------------------------------------------------------------------ engine A

type obsA struct{ errs []string }

func harnessA(c *ev.Check, name string, kind string, bound, shards int) xa.Harness {
	body := func() interface{} {
		var s *sys
		vsched.Passthrough(func() {
			s = newSys(time.Hour)
			// the two clusters disagree
			s.b.authz[sarKey("alice", "get", "pods")] = "deny"
			s.b.authn["t1"] = "reject"
			s.yield = true
		})
		o := &obsA{}
		for _, h := range []string{"a", "b"} {
			h := h
			vsched.GoNamed("req-"+h, func() {
				var err error
				if kind == "authz" {
					err = s.doAuthz(h, "get", "pods")
				} else {
					err = s.doAuthn(h, "t1")
				}
				if err != nil {
					o.errs = append(o.errs, err.Error())
				}
				vsched.Logf("%s %s done", kind, h)
			})
		}
		vsched.JoinChildren()
		// and once more sequentially: what was cached by the racing requests
		for _, h := range []string{"a", "b"} {
			var err error
			if kind == "authz" {
				err = s.doAuthz(h, "get", "pods")
			} else {
				err = s.doAuthn(h, "t1")
			}
			if err != nil {
				o.errs = append(o.errs, "afterwards: "+err.Error())
			}
		}
		vsched.Passthrough(func() { s.yield = false; s.a.ci.Stop(); s.b.ci.Stop() })
		return o
	}
	check := func(x *vsched.Exec) error {
		o := x.Obs.(*obsA)
		c.Outcome("concurrent_review_outcomes", name+strings.Join(x.Log, ","))
		if len(o.errs) > 0 {
			return fmt.Errorf("%s", o.errs[0])
		}
		return nil
	}
	return xa.Harness{Name: name, Bound: bound, Shards: shards, Horizon: 20000, Body: body, Check: check}
}

func harnesses(c *ev.Check, b int) []xa.Harness {
	return []xa.Harness{harnessA(c, "concurrent-identical-authz-two-hosts", "authz", b, 1), harnessA(c, "concurrent-identical-authn-two-hosts", "authn", b, 1)}
}

// ------------------------------------------------------------------ which server a review is sent to (real manager)
// The histories above replace the manager by a scripted provider so that answers can be controlled. "Each review is
// sent to a ready endpoint of the request's own cluster" is decided here on the REAL clusters.Manager.ClientFor and
// ClusterInfo.PickOne: the client set it hands out is used for one request, which is located at the stub API server
// that received it.

type revSys struct {
	m     clusters.Manager
	a, b  *clusters.ClusterInfo
	ups   [3]*e2e.Upstream // e1, e2 (cluster a at the start), e3 (cluster b)
	specA string
	specB string
	n     int
}

var revSpecsA = map[string]func(u [3]*e2e.Upstream) *proxyv1alpha1.UpstreamCluster{
	"e1+e2": func(u [3]*e2e.Upstream) *proxyv1alpha1.UpstreamCluster { return e2e.ClusterObject("a", u[0], u[1]) },
	"e2":    func(u [3]*e2e.Upstream) *proxyv1alpha1.UpstreamCluster { return e2e.ClusterObject("a", u[1]) },
	"e1":    func(u [3]*e2e.Upstream) *proxyv1alpha1.UpstreamCluster { return e2e.ClusterObject("a", u[0]) },
	"e1(disabled)+e2": func(u [3]*e2e.Upstream) *proxyv1alpha1.UpstreamCluster {
		o := e2e.ClusterObject("a", u[0], u[1])
		yes := true
		o.Spec.Servers[0].Disabled = &yes
		return o
	},
}
var revSpecsB = map[string]func(u [3]*e2e.Upstream) *proxyv1alpha1.UpstreamCluster{
	"e3":    func(u [3]*e2e.Upstream) *proxyv1alpha1.UpstreamCluster { return e2e.ClusterObject("b", u[2]) },
	"e3+e1": func(u [3]*e2e.Upstream) *proxyv1alpha1.UpstreamCluster { return e2e.ClusterObject("b", u[2], u[0]) }, // e1 moved over from a
}

func (s *revSys) eligible(cl *clusters.ClusterInfo, obj *proxyv1alpha1.UpstreamCluster) map[int]bool {
	out := map[int]bool{}
	for _, sv := range obj.Spec.Servers {
		if sv.Disabled != nil && *sv.Disabled {
			continue
		}
		if info, ok := cl.Endpoints.Load(sv.Endpoint); ok && info.IsReady() {
			for i, u := range s.ups {
				if u.URL() == sv.Endpoint {
					out[i] = true
				}
			}
		}
	}
	return out
}

func specReviewEndpoint() xstate.Spec {
	return xstate.Spec{
		Name: "review-endpoint",
		New: func() interface{} {
			s := &revSys{m: clusters.NewManager(), specA: "e1+e2", specB: "e3"}
			for i := range s.ups {
				s.ups[i] = e2e.NewUpstream(fmt.Sprintf("e%d", i+1))
			}
			var err error
			if s.a, err = clusters.CreateClusterInfo(revSpecsA[s.specA](s.ups), kit.NoopCheck, "", nil); err != nil {
				panic(err)
			}
			if s.b, err = clusters.CreateClusterInfo(revSpecsB[s.specB](s.ups), kit.NoopCheck, "", nil); err != nil {
				panic(err)
			}
			s.m.Add(s.a)
			s.m.Add(s.b)
			for _, cl := range []*clusters.ClusterInfo{s.a, s.b} {
				for _, ep := range cl.AllEndpoints() {
					info, _ := cl.Endpoints.Load(ep)
					info.UpdateStatus(true, "", "")
				}
			}
			return s
		},
		Events: func(si interface{}) []string {
			s := si.(*revSys)
			evs := []string{"review a", "review b"}
			for k := range revSpecsA {
				if k != s.specA {
					evs = append(evs, "a "+k)
				}
			}
			for k := range revSpecsB {
				if k != s.specB {
					evs = append(evs, "b "+k)
				}
			}
			sort.Strings(evs)
			for i := 0; i < 2; i++ {
				evs = append(evs, fmt.Sprintf("unhealthy a e%d", i+1), fmt.Sprintf("healthy a e%d", i+1))
			}
			return evs
		},
		Apply: func(si interface{}, e string) error {
			s := si.(*revSys)
			f := strings.Fields(e)
			switch f[0] {
			case "a", "b":
				cl, obj := s.a, revSpecsA[f[1]]
				if f[0] == "b" {
					cl, obj = s.b, revSpecsB[f[1]]
				}
				o := obj(s.ups)
				if err := cl.Sync(o); err != nil {
					return fmt.Errorf("sync-failed: %v", err)
				}
				if f[0] == "a" {
					s.specA = f[1]
				} else {
					s.specB = f[1]
				}
				// an endpoint that is new to a cluster becomes ready once probed: the driver plays the probe
				for _, sv := range o.Spec.Servers {
					if info, ok := cl.Endpoints.Load(sv.Endpoint); ok && info.UnreadyReason() != "" && !(sv.Disabled != nil && *sv.Disabled) && f[0] == "b" {
						info.UpdateStatus(true, "", "")
					}
				}
			case "unhealthy", "healthy":
				var i int
				fmt.Sscanf(f[2], "e%d", &i)
				if info, ok := s.a.Endpoints.Load(s.ups[i-1].URL()); ok {
					info.UpdateStatus(f[0] == "healthy", "Failure", "probe")
				}
			case "review":
				cl, obj := s.a, revSpecsA[s.specA](s.ups)
				if f[1] == "b" {
					cl, obj = s.b, revSpecsB[s.specB](s.ups)
				}
				want := s.eligible(cl, obj)
				got, cs, err := s.m.ClientFor(f[1])
				if got != cl && err == nil {
					return fmt.Errorf("review-endpoint/wrong-cluster: ClientFor(%q) answered with cluster %v", f[1], got)
				}
				if len(want) == 0 {
					if err == nil {
						return fmt.Errorf("review-endpoint/asked-although-no-endpoint-ready: cluster %s has no enabled, healthy endpoint in its current server list, yet a client set for reviews was handed out", f[1])
					}
					return nil
				}
				if err != nil {
					return fmt.Errorf("review-endpoint/refused-although-ready: cluster %s has ready endpoints %v but ClientFor failed: %v", f[1], want, err)
				}
				s.n++
				tag := fmt.Sprintf("review-%d", s.n)
				for _, u := range s.ups {
					u.Requests()
				}
				_ = cs.Discovery().RESTClient().Get().AbsPath("/probe/" + tag).Do(context.TODO()).Error()
				at := -1
				for i, u := range s.ups {
					for _, r := range u.Requests() {
						if strings.HasSuffix(r.Path, tag) {
							at = i
						}
					}
				}
				if !want[at] {
					return fmt.Errorf("review-endpoint/sent-to-ineligible-server: a review for cluster %s (servers %s) was sent to e%d; its enabled, healthy current endpoints are %v (cluster b has %s)", f[1], map[string]string{"a": s.specA, "b": s.specB}[f[1]], at+1, keys(want), s.specB)
				}
			}
			return nil
		},
		Canon: func(si interface{}) string {
			s := si.(*revSys)
			var st []string
			for _, cl := range []*clusters.ClusterInfo{s.a, s.b} {
				eps := cl.AllEndpoints()
				sort.Strings(eps)
				for _, ep := range eps {
					info, _ := cl.Endpoints.Load(ep)
					for i, u := range s.ups {
						if u.URL() == ep {
							st = append(st, fmt.Sprintf("%s:e%d:%v:%v", cl.Cluster, i+1, info.IsReady(), info.IstDisabled()))
						}
					}
				}
			}
			// what the next reviews would do is part of the state (a remembered endpoint is invisible otherwise)
			return fmt.Sprint(s.specA, s.specB, st, s.n%2)
		},
		Close: func(si interface{}) {
			s := si.(*revSys)
			s.a.Stop()
			s.b.Stop()
			for _, u := range s.ups {
				u.Close()
			}
		},
	}
}

func keys(m map[int]bool) []string {
	var out []string
	for k := range m {
		out = append(out, fmt.Sprintf("e%d", k+1))
	}
	sort.Strings(out)
	return out
}

// ------------------------------------------------------------------ many clusters (names as an input)
// The histories above use two clusters; whatever partitions cached results by a function of the cluster's name
// (a hash, a prefix, a fold) isolates two hand-picked names and still shares between others. Here 48 clusters with
// realistic names take part; for every ordered pair (home, other): home allows what every other cluster refuses,
// the same user asks home first and other second, and other's answer has to be one that other itself gave, after
// exactly one review sent to other. Same for tokens. Runs as a stateless enumeration over the real webhooks.

func clusterNames() []string {
	var out []string
	for i := 0; i < 40; i++ {
		out = append(out, fmt.Sprintf("cluster-%d.example.com", i))
	}
	return append(out, "a", "b", "prod", "staging", "prod.example.com:6443", "PROD.example.com", "kube-apiserver.kube-system.svc", "10.0.0.1")
}

func manyClusters(c *ev.Check) {
	names := clusterNames()
	for _, ttl := range []time.Duration{0, time.Hour} {
		for hi, home := range names {
			yield := false
			p := &provider{hosts: map[string]*stubCluster{}}
			var all []*stubCluster
			for _, n := range names {
				sc := newStubCluster(n, &yield)
				sc.authn["t1"] = "reject"
				sc.authz[sarKey("alice", "impersonate", "users")] = "deny"
				p.hosts[strings.ToLower(n)] = sc
				all = append(all, sc)
			}
			all[hi].authn["t1"] = "ok"
			all[hi].authz[sarKey("alice", "impersonate", "users")] = "allow"
			authn := tokenwebhook.NewMultiClusterTokenReviewAuthenticator(p, ttl, ttl, nil)
			authz := sarwebhook.NewMultiClusterSubjectAccessReviewAuthorizer(p, ttl, ttl)
			attr := authorizer.AttributesRecord{User: &user.DefaultInfo{Name: "alice"}, Verb: "impersonate", Resource: "users", ResourceRequest: true}
			ask := func(sc *stubCluster, round int) {
				replay := map[string]interface{}{"task": "many-clusters", "ttl": ttl.String(), "home": home, "asked": sc.name, "round": round}
				before := len(sc.calls)
				d, reason, err := authz.Authorize(ctxFor(sc.name), attr)
				c.Add("transitions", 1)
				wantD := authorizer.DecisionDeny
				if sc == all[hi] {
					wantD = authorizer.DecisionAllow
				}
				if err != nil || d != wantD || reason != "by "+sc.name {
					c.Violation("many-clusters/authz/foreign-decision", fmt.Sprintf("among %d clusters, after %q allowed alice to impersonate users, the same request for %q got decision %v reason %q err %v (its own cluster answers %v, reason %q)", len(names), home, sc.name, d, reason, err, wantD, "by "+sc.name), replay)
					return
				}
				if sent := len(sc.calls) - before; (round == 0 || ttl == 0) && sent != 1 {
					c.Violation("many-clusters/authz/review-not-sent-to-own-cluster", fmt.Sprintf("the first request for %q sent %d SubjectAccessReviews to it, not 1", sc.name, sent), replay)
					return
				}
				before = len(sc.calls)
				resp, ok, err := authn.AuthenticateToken(ctxFor(sc.name), "t1")
				c.Add("transitions", 1)
				if sc == all[hi] {
					if !ok || resp == nil || resp.User.GetName() != "user-of-"+sc.name {
						c.Violation("many-clusters/authn/foreign-result", fmt.Sprintf("token t1 for its own cluster %q: ok=%v resp=%v err=%v", sc.name, ok, resp, err), replay)
						return
					}
				} else if ok || resp != nil {
					c.Violation("many-clusters/authn/foreign-result", fmt.Sprintf("among %d clusters, after %q accepted token t1, the same token for %q (which rejects it) was accepted as %v", len(names), home, sc.name, resp), replay)
					return
				}
				if sent := len(sc.calls) - before; (round == 0 || ttl == 0) && sent != 1 {
					c.Violation("many-clusters/authn/review-not-sent-to-own-cluster", fmt.Sprintf("the first token for %q sent %d TokenReviews to it, not 1", sc.name, sent), replay)
				}
			}
			for round := 0; round < 2; round++ {
				ask(all[hi], round)
				for _, sc := range all {
					if sc != all[hi] {
						ask(sc, round)
					}
				}
			}
			for _, sc := range all {
				sc.ci.Stop()
			}
			c.Add("states", int64(len(names)))
		}
	}
	c.Add("many_cluster_pairs", int64(2*len(names)*(len(names)-1)))
}

func main() {
	c := ev.Start("C12", "model_checking")
	c.Assume = []string{
		"the webhooks talk to a stub ClientProvider (host -> cluster, mutable) over two NewEmptyClusterInfo clusters with per-cluster fake clientsets whose TokenReview / SubjectAccessReview reactors answer from a table, log every call and stamp every answer with the cluster's name (user name / reason), so the origin of a result is observable",
		"cache TTLs 0 and 1 h on the real clock (no expiry inside a run); a cached answer of the request's own cluster is allowed after that cluster changed its mind (TTL), an answer of another cluster never is",
		"many-clusters: 48 cluster names (numbered domain names, short names, a name with a port, an upper-case name, a service name, an address); every ordered pair (home allows, other refuses; home asked first) at TTL 0 and 1 h, two rounds",
		"engine A: tokenreview.go and subjectaccessreview.go instrumented (sync.Map operations, statements, channel waits); each review call is a schedule point before and after the call",
	}
	specs := []xstate.Spec{spec(0), spec(time.Hour), specReviewEndpoint()}
	if c.ReplayFile() != "" {
		xstate.ReplayIfAsked(c, specs)
		xa.ReplayIfAsked(c, harnesses(c, 0))
	}
	var tasks []ev.Task
	tasks = append(tasks, xstate.Tasks(c, spec(0), c.Pick(3, 4), 13)...)
	tasks = append(tasks, xstate.Tasks(c, spec(time.Hour), c.Pick(4, 5), 26)...)
	tasks = append(tasks, xstate.Tasks(c, specReviewEndpoint(), c.Pick(4, 5), 13)...)
	tasks = append(tasks, ev.Task{Name: "many-clusters", Run: func() { manyClusters(c) }})
	tasks = append(tasks, ev.Task{Name: "recreated-cluster", Run: func() { recreated(c) }})
	tasks = append(tasks, ev.Task{Name: "retry-during-move", Run: func() { retryDuringMove(c) }})
	bounds := []int{0, 1, 2}
	if c.Thorough() {
		bounds = []int{0, 1, 2, 3}
	}
	for _, b := range bounds {
		for _, h := range harnesses(c, b) {
			tasks = append(tasks, xa.Tasks(c, h)...)
		}
	}
	c.RunTasks(tasks)
	c.Finish(map[string]interface{}{
		"states":                        c.Counter("states") + c.Counter("choice_points"),
		"transitions":                   c.Counter("transitions") + c.Counter("steps"),
		"traces_validated_against_impl": c.Counter("schedules") + c.Counter("replays"),
	})
}
