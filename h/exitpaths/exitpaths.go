// Package exitpaths: every way a proxied request can end gives its max-in-flight
// slot back, exactly once (C05's "however it ends"), over the real proxy handler
// chain of the e2e rig.
package exitpaths

import (
	"bytes"
	"fmt"
	"net/http"
	"time"

	proxyv1alpha1 "github.com/kubewharf/kubegateway/pkg/apis/proxy/v1alpha1"
	"github.com/kubewharf/kubegateway/pkg/clusters"

	"verifh/e2e"
	"verifh/ev"
)

// Run enumerates the exit paths and reports under the calling check.
func Run(c *ev.Check) {
	type path struct {
		name string
		run  func(r *e2e.Rig, up *e2e.Upstream)
	}
	hang := make(chan struct{})
	paths := []path{
		{"success", func(r *e2e.Rig, up *e2e.Upstream) { _, _, _ = r.Do("GET", "x", "/api/v1/pods", nil, nil) }},
		{"upstream answers 500", func(r *e2e.Rig, up *e2e.Upstream) {
			up.Respond = func(w http.ResponseWriter, _ *http.Request, _ *e2e.Captured) { w.WriteHeader(500) }
			_, _, _ = r.Do("GET", "x", "/api/v1/pods", nil, nil)
		}},
		{"upstream closes the connection without answering", func(r *e2e.Rig, up *e2e.Upstream) {
			up.Respond = func(w http.ResponseWriter, _ *http.Request, _ *e2e.Captured) {
				conn, _, _ := w.(http.Hijacker).Hijack()
				conn.Close()
			}
			_, _, _ = r.Do("GET", "x", "/api/v1/pods", nil, nil)
		}},
		{"upstream dies in the middle of the body (reverse proxy aborts with a panic)", func(r *e2e.Rig, up *e2e.Upstream) {
			up.Respond = func(w http.ResponseWriter, _ *http.Request, _ *e2e.Captured) {
				w.Header().Set("Content-Length", "100000")
				w.WriteHeader(200)
				_, _ = w.Write(bytes.Repeat([]byte("x"), 1000))
				w.(http.Flusher).Flush()
				conn, _, _ := w.(http.Hijacker).Hijack()
				conn.Close()
			}
			_, _, _ = r.Do("GET", "x", "/api/v1/pods", nil, nil)
		}},
		{"client aborts while the upstream is still working", func(r *e2e.Rig, up *e2e.Upstream) {
			up.Respond = func(w http.ResponseWriter, req *http.Request, _ *e2e.Captured) {
				select {
				case <-req.Context().Done():
				case <-hang:
				case <-time.After(5 * time.Second):
				}
			}
			_, _ = r.DoRaw("GET /api/v1/pods HTTP/1.1\r\nHost: x\r\n\r\n", 150*time.Millisecond)
			time.Sleep(100 * time.Millisecond)
		}},
		{"client aborts a streaming (watch) response", func(r *e2e.Rig, up *e2e.Upstream) {
			up.Respond = func(w http.ResponseWriter, req *http.Request, _ *e2e.Captured) {
				w.WriteHeader(200)
				_, _ = w.Write([]byte("{}\n"))
				w.(http.Flusher).Flush()
				select {
				case <-req.Context().Done():
				case <-time.After(5 * time.Second):
				}
			}
			_, _ = r.DoRaw("GET /api/v1/pods?watch=true HTTP/1.1\r\nHost: x\r\n\r\n", 150*time.Millisecond)
			time.Sleep(100 * time.Millisecond)
		}},
		{"no ready endpoint", func(r *e2e.Rig, up *e2e.Upstream) {
			ci, _ := r.Manager.Get("x")
			for _, ep := range ci.AllEndpoints() {
				e, _ := ci.Endpoints.Load(ep)
				e.UpdateStatus(false, "x", "")
				defer e.UpdateStatus(true, "", "")
			}
			_, _, _ = r.Do("GET", "x", "/api/v1/pods", nil, nil)
		}},
		{"every endpoint disabled by the spec", func(r *e2e.Rig, up *e2e.Upstream) {
			ci, _ := r.Manager.Get("x")
			o := e2e.ClusterObject("x", up)
			o.Spec.FlowControl.Schemas = []proxyv1alpha1.FlowControlSchema{{Name: "one", FlowControlSchemaConfiguration: proxyv1alpha1.FlowControlSchemaConfiguration{MaxRequestsInflight: &proxyv1alpha1.MaxRequestsInflightFlowControlSchema{Max: 1}}}}
			o.Spec.DispatchPolicies[0].FlowControlSchemaName = "one"
			yes := true
			o.Spec.Servers[0].Disabled = &yes
			_ = ci.Sync(o)
			for i := 0; i < 3; i++ {
				_, _, _ = r.Do("GET", "x", "/api/v1/pods", nil, nil)
			}
		}},
		{"three requests in a row find no ready endpoint", func(r *e2e.Rig, up *e2e.Upstream) {
			ci, _ := r.Manager.Get("x")
			for _, ep := range ci.AllEndpoints() {
				e, _ := ci.Endpoints.Load(ep)
				e.UpdateStatus(false, "x", "")
				defer e.UpdateStatus(true, "", "")
			}
			for i := 0; i < 3; i++ {
				_, _, _ = r.Do("GET", "x", "/api/v1/pods", nil, nil)
			}
		}},
		{"upstream answers 429", func(r *e2e.Rig, up *e2e.Upstream) {
			up.Respond = func(w http.ResponseWriter, _ *http.Request, _ *e2e.Captured) { w.WriteHeader(429) }
			_, _, _ = r.Do("POST", "x", "/api/v1/namespaces/ns/pods", nil, bytes.NewReader([]byte("{}")))
		}},
		{"upgrade request: upstream switches protocols, then both sides close", func(r *e2e.Rig, up *e2e.Upstream) {
			up.Respond = func(w http.ResponseWriter, req *http.Request, _ *e2e.Captured) {
				conn, buf, err := w.(http.Hijacker).Hijack()
				if err != nil {
					return
				}
				_, _ = buf.WriteString("HTTP/1.1 101 Switching Protocols\r\nConnection: Upgrade\r\nUpgrade: " + req.Header.Get("Upgrade") + "\r\n\r\n")
				_ = buf.Flush()
				conn.Close()
			}
			_, _ = r.DoRaw("POST /api/v1/namespaces/ns/pods/p/exec?command=ls HTTP/1.1\r\nHost: x\r\nConnection: Upgrade\r\nUpgrade: SPDY/3.1\r\nContent-Length: 0\r\n\r\n", 2*time.Second)
		}},
		{"a second request is refused with 429 while the first is in flight, then the first ends", func(r *e2e.Rig, up *e2e.Upstream) {
			entered, release := make(chan struct{}, 4), make(chan struct{})
			up.Respond = func(w http.ResponseWriter, req *http.Request, _ *e2e.Captured) {
				entered <- struct{}{}
				select {
				case <-release:
				case <-req.Context().Done():
				case <-time.After(30 * time.Second):
				}
				w.WriteHeader(200)
			}
			done := make(chan struct{})
			go func() { _, _, _ = r.Do("GET", "x", "/api/v1/pods", nil, nil); close(done) }()
			select {
			case <-entered:
			case <-time.After(20 * time.Second):
			}
			for i := 0; i < 2; i++ {
				_, _, _ = r.Do("GET", "x", "/api/v1/pods", nil, nil) // refused by the schema (limit 1)
			}
			close(release)
			select {
			case <-done:
			case <-time.After(30 * time.Second):
			}
		}},
		{"connection refused", func(r *e2e.Rig, up *e2e.Upstream) {
			up.Server.Close() // nothing listens on the endpoint any more
			_, _, _ = r.Do("GET", "x", "/api/v1/pods", nil, nil)
		}},
	}
	for _, p := range paths {
		r := e2e.New()
		up := e2e.NewUpstream("x1")
		o := e2e.ClusterObject("x", up)
		o.Spec.FlowControl.Schemas = []proxyv1alpha1.FlowControlSchema{{Name: "one", FlowControlSchemaConfiguration: proxyv1alpha1.FlowControlSchemaConfiguration{MaxRequestsInflight: &proxyv1alpha1.MaxRequestsInflightFlowControlSchema{Max: 1}}}}
		o.Spec.DispatchPolicies[0].FlowControlSchemaName = "one"
		ci := r.AddCluster(o, func(*clusters.EndpointInfo) bool { return true }) // no background probe flips the health set by the case
		c.Add("exit_path_cases", 1)
		p.run(r, up)
		// the request has ended: its slot must be free again, and only once (limit 1: one admitted, the second refused)
		deadline := time.Now().Add(20 * time.Second) // generous: the stub upstream lets go after 5 s at the latest
		fc := ci.GetFlowSchema("one")
		free := false
		for time.Now().Before(deadline) {
			if fc.TryAcquire() {
				free = true
				break
			}
			time.Sleep(10 * time.Millisecond)
		}
		if !free {
			c.Violation("exit-path/slot-leaked", fmt.Sprintf("after a request that ended by [%s] the max-in-flight slot (limit 1) was not given back within 20 s", p.name), p.name)
		} else {
			if fc.TryAcquire() {
				c.Violation("exit-path/slot-returned-twice", fmt.Sprintf("after a request that ended by [%s] two requests are admitted under limit 1", p.name), p.name)
				fc.Release()
			}
			fc.Release()
		}
		c.Outcome("exit_paths", p.name)
		r.Close()
		up.Close()
	}
	close(hang)
}
