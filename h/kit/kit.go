// Package kit holds small helpers shared by the check harnesses.
package kit

import (
	"encoding/json"
	"fmt"
	"runtime/debug"
	"strings"

	metav1 "k8s.io/apimachinery/pkg/apis/meta/v1"

	proxyv1alpha1 "github.com/kubewharf/kubegateway/pkg/apis/proxy/v1alpha1"
	"github.com/kubewharf/kubegateway/pkg/clusters"
)

// Try runs f and returns a description of the panic it raised ("" if none).
func Try(f func()) (panicked string) {
	defer func() {
		if r := recover(); r != nil {
			st := string(debug.Stack())
			// keep the frames below the panic short
			lines := strings.Split(st, "\n")
			if len(lines) > 24 {
				lines = lines[:24]
			}
			panicked = fmt.Sprintf("%v | %s", r, strings.Join(lines, " / "))
		}
	}()
	f()
	return ""
}

// TryShort is Try without the stack.
func TryShort(f func()) (panicked string) {
	defer func() {
		if r := recover(); r != nil {
			panicked = fmt.Sprint(r)
		}
	}()
	f()
	return ""
}

func JSON(v interface{}) string {
	b, err := json.Marshal(v)
	if err != nil {
		return fmt.Sprintf("%+v", v)
	}
	return string(b)
}

// Upstream builds a minimal UpstreamCluster object.
func Upstream(name string, servers []proxyv1alpha1.UpstreamClusterServer, policies []proxyv1alpha1.DispatchPolicy) *proxyv1alpha1.UpstreamCluster {
	return &proxyv1alpha1.UpstreamCluster{
		ObjectMeta: metav1.ObjectMeta{Name: name},
		Spec: proxyv1alpha1.UpstreamClusterSpec{
			Servers:          servers,
			DispatchPolicies: policies,
			ClientConfig:     proxyv1alpha1.ClientConfig{BearerToken: []byte("gw-secret")},
		},
	}
}

// HealthyCheck is an EndpointHealthCheck stub that marks the endpoint healthy.
func HealthyCheck(e *clusters.EndpointInfo) bool {
	e.UpdateStatus(true, "", "")
	return true
}

// NoopCheck is an EndpointHealthCheck stub that leaves the status alone.
func NoopCheck(e *clusters.EndpointInfo) bool { return true }

// NewClusterInfo creates a real ClusterInfo through CreateClusterInfo with a no-op health check.
func NewClusterInfo(name string, servers []proxyv1alpha1.UpstreamClusterServer, policies []proxyv1alpha1.DispatchPolicy) *clusters.ClusterInfo {
	ci, err := clusters.CreateClusterInfo(Upstream(name, servers, policies), NoopCheck, "", nil)
	if err != nil {
		panic(err)
	}
	return ci
}
