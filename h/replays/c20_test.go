package replays

import (
	"testing"

	genericapirequest "k8s.io/apiserver/pkg/endpoints/request"
	"k8s.io/apiserver/pkg/registry/rest"
	metav1 "k8s.io/apimachinery/pkg/apis/meta/v1"

	"github.com/kubewharf/apiserver-runtime/pkg/registry"
	"github.com/kubewharf/apiserver-runtime/pkg/scheme"

	gatewayinstall "github.com/kubewharf/kubegateway/pkg/apis/install"
	proxyv1alpha1 "github.com/kubewharf/kubegateway/pkg/apis/proxy/v1alpha1"
)

// C20 on the pinned tree: PrepareForUpdate compared the reflect.Value structs of
// the two specs instead of the specs, so every update bumped the generation.
func TestC20NoChangeUpdateKeepsGeneration(t *testing.T) {
	gatewayinstall.Install(scheme.Scheme)
	mk := func() *proxyv1alpha1.UpstreamCluster {
		o := &proxyv1alpha1.UpstreamCluster{ObjectMeta: metav1.ObjectMeta{Name: "c", UID: "u", ResourceVersion: "3", Generation: 7}}
		o.Spec.Servers = []proxyv1alpha1.UpstreamClusterServer{{Endpoint: "https://a:1"}}
		return o
	}
	old, obj := mk(), mk()
	if err := rest.BeforeUpdate(registry.ClusterScopeStorageStrategySingleton, genericapirequest.NewContext(), obj, old); err != nil {
		t.Fatal(err)
	}
	if obj.Generation != 7 {
		t.Fatalf("identical object: generation 7 -> %d", obj.Generation)
	}
}
