// Plain replays (no explorer) of the C01 violations found on the pinned tree
// 05d6a99: all-inverted rule lists were evaluated with OR instead of AND.
// They fail on the pinned tree and pass after the "fix:" commit recorded in
// /verif/known_findings.json.
package replays

import (
	"testing"

	"k8s.io/apiserver/pkg/authentication/user"
	"k8s.io/apiserver/pkg/authorization/authorizer"

	proxyv1alpha1 "github.com/kubewharf/kubegateway/pkg/apis/proxy/v1alpha1"
	"github.com/kubewharf/kubegateway/pkg/clusters"
)

func TestC01InvertedLists(t *testing.T) {
	wild := func() proxyv1alpha1.DispatchPolicyRule {
		return proxyv1alpha1.DispatchPolicyRule{Verbs: []string{"*"}, APIGroups: []string{"*"}, Resources: []string{"*"}, NonResourceURLs: []string{"*"}}
	}
	attr := func(u string, groups []string, res, sub string) authorizer.Attributes {
		return authorizer.AttributesRecord{User: &user.DefaultInfo{Name: u, Groups: groups}, Verb: "get", Resource: res, Subresource: sub, Name: "a", ResourceRequest: true}
	}
	cases := []struct {
		name string
		mut  func(r *proxyv1alpha1.DispatchPolicyRule)
		a    authorizer.Attributes
		want bool
	}{
		{"doc example: [-pods,-deployments] must not match pods", func(r *proxyv1alpha1.DispatchPolicyRule) { r.Resources = []string{"-pods", "-deployments"} }, attr("alice", nil, "pods", ""), false},
		{"[-*/status] must not match pods/status", func(r *proxyv1alpha1.DispatchPolicyRule) { r.Resources = []string{"-*/status"} }, attr("alice", nil, "pods", "status"), false},
		{"[-system:*] must not match system:node", func(r *proxyv1alpha1.DispatchPolicyRule) { r.Users = []string{"-system:*"} }, attr("system:node", nil, "pods", ""), false},
		{"userGroups [-g1] must not match a user in g1 and g2", func(r *proxyv1alpha1.DispatchPolicyRule) { r.UserGroups = []string{"-g1"} }, attr("alice", []string{"g1", "g2"}, "pods", ""), false},
		{"userGroups [-g1] must match a user without groups", func(r *proxyv1alpha1.DispatchPolicyRule) { r.UserGroups = []string{"-g1"} }, attr("alice", nil, "pods", ""), true},
	}
	for _, c := range cases {
		r := wild()
		c.mut(&r)
		if got := clusters.RuleMatches(c.a, &r); got != c.want {
			t.Errorf("%s: got %v want %v", c.name, got, c.want)
		}
	}
}
