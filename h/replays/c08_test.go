package replays

import (
	"testing"

	proxyv1alpha1 "github.com/kubewharf/kubegateway/pkg/apis/proxy/v1alpha1"
	gfc "github.com/kubewharf/kubegateway/pkg/ratelimiter/store/flowcontrol"
)

// C08 on the pinned tree: after the limit is lowered below the recorded total,
// every report that LOWERS an instance's count was rolled back (SetState rolled
// back on overflow regardless of the sign of the change), so the total could
// never come down. (The racing-report findings need the scheduler: see
// /verif/replays/pinned/C08-*.json and `./run.sh C08 quick --replay <file>`.)
func TestC08DecreaseAppliedAboveLoweredLimit(t *testing.T) {
	fc := gfc.NewGlobalFlowControl(proxyv1alpha1.FlowControlSchema{Name: "s", FlowControlSchemaConfiguration: proxyv1alpha1.FlowControlSchemaConfiguration{
		GlobalMaxRequestsInflight: &proxyv1alpha1.MaxRequestsInflightFlowControlSchema{Max: 5}}})
	if ok, _, _ := fc.SetState("a", 0, 5); ok {
		// at the exact limit the answer is (false, 5) with the count recorded
	}
	fc.Resize(2, 0)
	_, latest, err := fc.SetState("a", 0, 3)
	if err != nil || latest != 3 {
		t.Fatalf("report lowering the count from 5 to 3 was not applied: latest=%d err=%v info=%s", latest, err, fc.DebugInfo())
	}
}
