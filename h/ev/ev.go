// Package ev is the shared runtime of every check binary: tier/seed handling,
// worker processes, counters, distinct-outcome sets, samples, violations,
// known findings, evidence file, exit code.
package ev

import (
	"context"
	"encoding/json"
	"flag"
	"fmt"
	"io/ioutil"
	"os"
	"os/exec"
	"path/filepath"
	"runtime"
	"sort"
	"strconv"
	"strings"
	"sync"
	"time"

	"k8s.io/klog"
)

const root = "/verif"

// outRoot is where a run writes (evidence, replays/out, .work): /verif, unless VERIF_OUT redirects it
// (scripts/mutant.sh uses that so that runs against deliberately broken trees never touch the committed evidence).
func outRoot() string {
	if d := os.Getenv("VERIF_OUT"); d != "" {
		return d
	}
	return root
}

// Violation is one failing case, identified by Key (a stable name of the
// failing input / call site / history class used to match known findings).
type Violation struct {
	Key    string      `json:"key"`
	What   string      `json:"what"`
	Replay interface{} `json:"replay,omitempty"`
	Count  int64       `json:"count"`
}

type state struct {
	Counters      map[string]int64               `json:"counters"`
	Max           map[string]int64               `json:"max"`
	Distinct      map[string]map[string]struct{} `json:"distinct"`
	Samples       map[string][]interface{}       `json:"samples"`
	Violations    map[string]*Violation          `json:"violations"`
	NotExhaustive []string                       `json:"not_exhaustive"`
	EngineErrors  []string                       `json:"engine_errors"`
	Notes         map[string]interface{}         `json:"notes"`
	TaskSeconds   []taskTime                     `json:"task_seconds"`
}

type taskTime struct {
	Name    string  `json:"name"`
	Seconds float64 `json:"s"`
}

func newState() *state {
	return &state{Counters: map[string]int64{}, Max: map[string]int64{}, Distinct: map[string]map[string]struct{}{},
		Samples: map[string][]interface{}{}, Violations: map[string]*Violation{}, Notes: map[string]interface{}{}}
}

// Check is the handle of one running check.
type Check struct {
	ID       string
	Level    string
	Tier     string
	Seed     int64
	start    time.Time
	deadline time.Time
	worker   int // -1 in the parent
	nworkers int
	mu       sync.Mutex
	st       *state
	Assume   []string
	replayIn string
}

// Task is one unit of work that a worker process runs.
type Task struct {
	Name string
	Run  func()
	Free bool // a free-running (unscheduled) task of the informational race pass
}

// Start initialises the check from the environment.
// Tier: argument 1 or $VERIF_TIER (default quick). Seed: $VERIF_SEED.
func Start(id, level string) *Check {
	c := &Check{ID: id, Level: level, Tier: "quick", start: time.Now(), worker: -1, st: newState()}
	if t := os.Getenv("VERIF_TIER"); t == "thorough" || t == "quick" {
		c.Tier = t
	}
	args := os.Args[1:]
	for i := 0; i < len(args); i++ {
		switch args[i] {
		case "quick", "thorough":
			c.Tier = args[i]
		case "--replay":
			if i+1 < len(args) {
				c.replayIn = args[i+1]
				i++
			}
		}
	}
	if s := os.Getenv("VERIF_SEED"); s != "" {
		c.Seed, _ = strconv.ParseInt(s, 10, 64)
	}
	budget := 150 * time.Second
	if c.Tier == "thorough" {
		budget = 25 * time.Minute
	}
	if s := os.Getenv("VERIF_BUDGET_S"); s != "" {
		if n, err := strconv.Atoi(s); err == nil {
			budget = time.Duration(n) * time.Second
		}
	}
	c.deadline = c.start.Add(budget)
	if s := os.Getenv("VERIF_DEADLINE_UNIX"); s != "" {
		if n, err := strconv.ParseInt(s, 10, 64); err == nil {
			c.deadline = time.Unix(n, 0)
		}
	}
	if w := os.Getenv("VERIF_WORKER"); w != "" {
		p := strings.Split(w, "/")
		c.worker, _ = strconv.Atoi(p[0])
		c.nworkers, _ = strconv.Atoi(p[1])
	}
	Quiet()
	return c
}

// Quiet silences klog (nothing may be written under /tmp or to the console).
func Quiet() {
	fs := flag.NewFlagSet("klog", flag.ContinueOnError)
	klog.InitFlags(fs)
	_ = fs.Set("logtostderr", "false")
	_ = fs.Set("alsologtostderr", "false")
	_ = fs.Set("stderrthreshold", "FATAL")
	_ = fs.Set("v", "0")
	klog.SetOutput(ioutil.Discard)
}

func (c *Check) Thorough() bool      { return c.Tier == "thorough" }
func (c *Check) ReplayFile() string  { return c.replayIn }
func (c *Check) Deadline() time.Time { return c.deadline }
func (c *Check) Expired() bool       { return time.Now().After(c.deadline) }

// Pick returns q in the quick tier and t in the thorough tier.
func (c *Check) Pick(q, t int) int {
	if c.Thorough() {
		return t
	}
	return q
}

func (c *Check) Add(name string, n int64) {
	c.mu.Lock()
	c.st.Counters[name] += n
	c.mu.Unlock()
}

func (c *Check) SetMax(name string, n int64) {
	c.mu.Lock()
	if n > c.st.Max[name] {
		c.st.Max[name] = n
	}
	c.mu.Unlock()
}

// Outcome records a member of a named set of distinct observations.
func (c *Check) Outcome(set, value string) {
	c.mu.Lock()
	m := c.st.Distinct[set]
	if m == nil {
		m = map[string]struct{}{}
		c.st.Distinct[set] = m
	}
	if len(m) < 200000 {
		m[value] = struct{}{}
	}
	c.mu.Unlock()
}

// Sample keeps up to 4 written-out cases per kind.
func (c *Check) Sample(kind string, v interface{}) {
	c.mu.Lock()
	if len(c.st.Samples[kind]) < 4 {
		c.st.Samples[kind] = append(c.st.Samples[kind], v)
	}
	c.mu.Unlock()
}

func (c *Check) Note(k string, v interface{}) {
	c.mu.Lock()
	c.st.Notes[k] = v
	c.mu.Unlock()
}

func (c *Check) NotExhaustive(reason string) {
	c.mu.Lock()
	for _, r := range c.st.NotExhaustive {
		if r == reason {
			c.mu.Unlock()
			return
		}
	}
	c.st.NotExhaustive = append(c.st.NotExhaustive, reason)
	c.mu.Unlock()
}

func (c *Check) EngineError(msg string) {
	c.mu.Lock()
	if len(c.st.EngineErrors) < 20 {
		c.st.EngineErrors = append(c.st.EngineErrors, msg)
	}
	c.mu.Unlock()
}

// Violation records a failing case. The first case per key keeps its replay data.
func (c *Check) Violation(key, what string, replay interface{}) {
	c.mu.Lock()
	defer c.mu.Unlock()
	if v, ok := c.st.Violations[key]; ok {
		v.Count++
		return
	}
	if len(c.st.Violations) >= 200 {
		return
	}
	c.st.Violations[key] = &Violation{Key: key, What: what, Replay: replay, Count: 1}
}

func (c *Check) NumViolations() int {
	c.mu.Lock()
	defer c.mu.Unlock()
	return len(c.st.Violations)
}

func (c *Check) workDir() string {
	d := filepath.Join(outRoot(), ".work", c.ID)
	_ = os.MkdirAll(d, 0o755)
	return d
}

// RunTasks distributes tasks over worker processes (this binary re-executed
// with VERIF_WORKER=i/n) and merges their results. With VERIF_NOFORK=1, or for
// a single task, everything runs in this process.
func (c *Check) RunTasks(tasks []Task) {
	if os.Getenv("VERIF_RACE") == "1" {
		// informational race pass: only the free-running tasks (same filter in the parent and in every worker)
		var free []Task
		for _, t := range tasks {
			if t.Free {
				free = append(free, t)
			}
		}
		tasks = free
	}
	if c.worker >= 0 {
		// worker mode: run exactly the task whose index was handed to this process
		if c.worker < len(tasks) {
			c.runTask(tasks[c.worker])
		}
		c.dumpWorker()
		os.Exit(0)
	}
	n := runtime.NumCPU()
	if s := os.Getenv("VERIF_WORKERS"); s != "" {
		if k, err := strconv.Atoi(s); err == nil && k > 0 {
			n = k
		}
	}
	// every worker may grow to its soft memory limit (workerMemGiB) and a bit: do not start more of them than the
	// machine's available memory carries (an out-of-memory kill would take part of the exploration with it)
	if avail := memAvailableGiB(); avail > 0 {
		if byMem := int(float64(avail) * 0.8 / (workerMemGiB + 0.5)); byMem < n {
			n = byMem
		}
		if n < 2 {
			n = 2
		}
	}
	if n > len(tasks) {
		n = len(tasks)
	}
	if os.Getenv("VERIF_NOFORK") == "1" || len(tasks) <= 1 {
		for _, t := range tasks {
			c.runTask(t)
		}
		return
	}
	// a pool of n slots; every task runs in its own process (dynamic load balancing, isolation of
	// the global scheduler state, bounded memory per task)
	var wg sync.WaitGroup
	next := make(chan int, len(tasks))
	for i := range tasks {
		next <- i
	}
	close(next)
	for w := 0; w < n; w++ {
		wg.Add(1)
		go func() {
			defer wg.Done()
			for ti := range next {
				out := filepath.Join(c.workDir(), fmt.Sprintf("worker-%d.json", ti))
				logp := filepath.Join(c.workDir(), fmt.Sprintf("worker-%d.log", ti))
				_ = os.Remove(out)
				// a worker gets the check's deadline plus a grace period; a task that ignores the deadline is killed
				ctx, cancel := context.WithDeadline(context.Background(), c.deadline.Add(120*time.Second))
				cmd := exec.CommandContext(ctx, os.Args[0], c.Tier)
				cmd.Env = append(os.Environ(), fmt.Sprintf("VERIF_WORKER=%d/%d", ti, len(tasks)), "VERIF_TIER="+c.Tier,
					fmt.Sprintf("VERIF_DEADLINE_UNIX=%d", c.deadline.Unix()), "GOMAXPROCS="+gomaxprocs(), fmt.Sprintf("GOMEMLIMIT=%dGiB", int(workerMemGiB)))
				logf, _ := os.Create(logp)
				cmd.Stdout, cmd.Stderr = logf, logf
				err := cmd.Run()
				timedOut := ctx.Err() != nil
				cancel()
				logf.Close()
				data, rerr := ioutil.ReadFile(out)
				if timedOut {
					c.NotExhaustive(fmt.Sprintf("task %s did not finish within the deadline and was stopped", tasks[ti].Name))
					continue
				}
				if ee, ok := err.(*exec.ExitError); ok && rerr != nil && ee.ProcessState != nil && !ee.ProcessState.Exited() {
					// killed by a signal that was not ours (the kernel's out-of-memory killer): that part of the exploration
					// is missing (with whatever it had found so far): the run is reported as not exhaustive, not as broken
					c.NotExhaustive(fmt.Sprintf("the worker for task %s was killed from outside (%v, most likely out of memory) and its part of the exploration is incomplete", tasks[ti].Name, err))
					continue
				}
				if err != nil || rerr != nil {
					c.EngineError(fmt.Sprintf("worker for task %d (%s) failed: run=%v read=%v\n%s", ti, tasks[ti].Name, err, rerr, tailFile(logp, 30)))
					continue
				}
				var ws state
				if err := json.Unmarshal(data, &ws); err != nil {
					c.EngineError(fmt.Sprintf("worker for task %d: bad result: %v", ti, err))
					continue
				}
				c.merge(&ws)
				_ = os.Remove(out)
				if fi, err := os.Stat(logp); err == nil && fi.Size() == 0 {
					_ = os.Remove(logp)
				}
			}
		}()
	}
	wg.Wait()
}

const workerMemGiB = 3.0

// memAvailableGiB reads MemAvailable from /proc/meminfo (0 when unknown).
func memAvailableGiB() int {
	data, err := ioutil.ReadFile("/proc/meminfo")
	if err != nil {
		return 0
	}
	for _, l := range strings.Split(string(data), "\n") {
		if strings.HasPrefix(l, "MemAvailable:") {
			f := strings.Fields(l)
			if len(f) >= 2 {
				kb, _ := strconv.Atoi(f[1])
				return kb / (1024 * 1024)
			}
		}
	}
	return 0
}

func gomaxprocs() string {
	if s := os.Getenv("VERIF_WORKER_GOMAXPROCS"); s != "" {
		return s
	}
	return "2"
}

func tailFile(p string, n int) string {
	b, _ := ioutil.ReadFile(p)
	lines := strings.Split(string(b), "\n")
	if len(lines) > n {
		lines = lines[len(lines)-n:]
	}
	return strings.Join(lines, "\n")
}

func (c *Check) runTask(t Task) {
	defer func() {
		if r := recover(); r != nil {
			buf := make([]byte, 4096)
			buf = buf[:runtime.Stack(buf, false)]
			c.EngineError(fmt.Sprintf("task %s panicked in the harness: %v\n%s", t.Name, r, buf))
		}
	}()
	st := time.Now()
	t.Run()
	c.Add("tasks_run", 1)
	c.mu.Lock()
	c.st.TaskSeconds = append(c.st.TaskSeconds, taskTime{t.Name, float64(int(time.Since(st).Seconds()*10)) / 10})
	c.mu.Unlock()
}

func (c *Check) dumpWorker() {
	c.mu.Lock()
	defer c.mu.Unlock()
	data, err := json.Marshal(c.st)
	if err != nil {
		fmt.Fprintln(os.Stderr, "marshal:", err)
		os.Exit(3)
	}
	out := filepath.Join(c.workDir(), fmt.Sprintf("worker-%d.json", c.worker))
	if err := ioutil.WriteFile(out, data, 0o644); err != nil {
		fmt.Fprintln(os.Stderr, "write:", err)
		os.Exit(3)
	}
}

func (c *Check) merge(ws *state) {
	c.mu.Lock()
	defer c.mu.Unlock()
	for k, v := range ws.Counters {
		c.st.Counters[k] += v
	}
	for k, v := range ws.Max {
		if v > c.st.Max[k] {
			c.st.Max[k] = v
		}
	}
	for k, m := range ws.Distinct {
		d := c.st.Distinct[k]
		if d == nil {
			d = map[string]struct{}{}
			c.st.Distinct[k] = d
		}
		for v := range m {
			d[v] = struct{}{}
		}
	}
	for k, s := range ws.Samples {
		for _, x := range s {
			if len(c.st.Samples[k]) < 4 {
				c.st.Samples[k] = append(c.st.Samples[k], x)
			}
		}
	}
	for k, v := range ws.Violations {
		if o, ok := c.st.Violations[k]; ok {
			o.Count += v.Count
		} else {
			c.st.Violations[k] = v
		}
	}
	for _, r := range ws.NotExhaustive {
		dup := false
		for _, o := range c.st.NotExhaustive {
			dup = dup || o == r
		}
		if !dup {
			c.st.NotExhaustive = append(c.st.NotExhaustive, r)
		}
	}
	c.st.EngineErrors = append(c.st.EngineErrors, ws.EngineErrors...)
	c.st.TaskSeconds = append(c.st.TaskSeconds, ws.TaskSeconds...)
	for k, v := range ws.Notes {
		c.st.Notes[k] = v
	}
}

type knownFile struct {
	Findings []struct {
		Property string `json:"property"`
		Key      string `json:"key"`
		What     string `json:"what"`
	} `json:"findings"`
	Fixed []struct {
		Property string `json:"property"`
		Commit   string `json:"commit"`
		What     string `json:"what"`
	} `json:"fixed"`
}

// Counter returns a merged counter value.
func (c *Check) Counter(name string) int64 {
	c.mu.Lock()
	defer c.mu.Unlock()
	return c.st.Counters[name]
}

func (c *Check) DistinctCount(set string) int64 {
	c.mu.Lock()
	defer c.mu.Unlock()
	return int64(len(c.st.Distinct[set]))
}

// Finish writes the evidence file, prints KNOWN-FINDING / VIOLATION lines and exits.
// cov supplies the level-specific coverage keys (computed from counters by the
// caller); all counters, distinct-set sizes and samples are added to it.
func (c *Check) Finish(cov map[string]interface{}) {
	if c.worker >= 0 {
		c.dumpWorker()
		os.Exit(0)
	}
	c.mu.Lock()
	defer c.mu.Unlock()
	var known knownFile
	if data, err := ioutil.ReadFile(filepath.Join(root, "known_findings.json")); err == nil {
		if err := json.Unmarshal(data, &known); err != nil {
			fmt.Println("ENGINE-ERROR: known_findings.json does not parse:", err)
			os.Exit(2)
		}
	}
	isKnown := func(key string) (string, bool) {
		for _, f := range known.Findings {
			if f.Property == c.ID && f.Key == key {
				return f.What, true
			}
		}
		return "", false
	}
	if cov == nil {
		cov = map[string]interface{}{}
	}
	for k, v := range c.st.Counters {
		if _, ok := cov[k]; !ok {
			cov[k] = v
		}
	}
	for k, v := range c.st.Max {
		if _, ok := cov[k]; !ok {
			cov[k] = v
		}
	}
	for k, m := range c.st.Distinct {
		cov["distinct_"+k] = len(m)
	}
	for k, v := range c.st.Notes {
		if _, ok := cov[k]; !ok {
			cov[k] = v
		}
	}
	var samples []interface{}
	kinds := make([]string, 0, len(c.st.Samples))
	for k := range c.st.Samples {
		kinds = append(kinds, k)
	}
	sort.Strings(kinds)
	for _, k := range kinds {
		for _, s := range c.st.Samples[k] {
			samples = append(samples, map[string]interface{}{"kind": k, "case": s})
		}
	}
	if len(samples) == 0 {
		samples = append(samples, "no sample recorded")
	}
	cov["samples"] = samples
	sort.Slice(c.st.TaskSeconds, func(i, j int) bool { return c.st.TaskSeconds[i].Seconds > c.st.TaskSeconds[j].Seconds })
	if len(c.st.TaskSeconds) > 5 {
		cov["slowest_tasks"] = c.st.TaskSeconds[:5]
	} else if len(c.st.TaskSeconds) > 0 {
		cov["slowest_tasks"] = c.st.TaskSeconds
	}
	exhaustive := len(c.st.NotExhaustive) == 0 && len(c.st.EngineErrors) == 0
	if v, ok := cov["exhaustive"].(bool); ok {
		exhaustive = exhaustive && v
	}
	cov["exhaustive"] = exhaustive
	if len(c.st.NotExhaustive) > 0 {
		cov["not_exhaustive_because"] = c.st.NotExhaustive
	}
	if len(c.st.EngineErrors) > 0 {
		cov["engine_errors"] = c.st.EngineErrors
	}

	keys := make([]string, 0, len(c.st.Violations))
	for k := range c.st.Violations {
		keys = append(keys, k)
	}
	sort.Strings(keys)
	var unknown, knownHit []string
	var vlist []interface{}
	for _, k := range keys {
		v := c.st.Violations[k]
		if _, ok := isKnown(k); ok {
			knownHit = append(knownHit, k)
		} else {
			unknown = append(unknown, k)
		}
		vlist = append(vlist, map[string]interface{}{"key": v.Key, "what": v.What, "count": v.Count})
	}
	if len(vlist) > 0 {
		cov["violation_list"] = vlist
	}
	e := map[string]interface{}{
		"property_id": c.ID, "tier": c.Tier, "seed": c.Seed, "level": c.Level, "coverage": cov,
		"assumptions": c.Assume, "wall_s": float64(int(time.Since(c.start).Seconds()*100)) / 100, "violations": len(unknown),
		"known_findings_reproduced": knownHit,
	}
	_ = os.MkdirAll(filepath.Join(outRoot(), "evidence"), 0o755)
	data, _ := json.MarshalIndent(e, "", " ")
	if err := ioutil.WriteFile(filepath.Join(outRoot(), "evidence", c.ID+".json"), append(data, '\n'), 0o644); err != nil {
		fmt.Println("ENGINE-ERROR: cannot write evidence:", err)
		os.Exit(2)
	}
	for _, k := range knownHit {
		what, _ := isKnown(k)
		fmt.Printf("KNOWN-FINDING: property=%s %s [%s] (%d cases)\n", c.ID, what, k, c.st.Violations[k].Count)
	}
	for _, m := range c.st.EngineErrors {
		fmt.Println("ENGINE-ERROR:", m)
	}
	if len(unknown) > 0 {
		dir := filepath.Join(outRoot(), "replays", "out")
		_ = os.MkdirAll(dir, 0o755)
		for i, k := range unknown {
			v := c.st.Violations[k]
			p := filepath.Join(dir, fmt.Sprintf("%s-%02d.json", c.ID, i))
			rd, _ := json.MarshalIndent(map[string]interface{}{"property": c.ID, "key": v.Key, "what": v.What, "replay": v.Replay, "tier": c.Tier}, "", " ")
			_ = ioutil.WriteFile(p, append(rd, '\n'), 0o644)
			if i < 12 {
				fmt.Printf("  %s: %s (%d cases)\n", v.Key, v.What, v.Count)
				fmt.Printf("VIOLATION property=%s replay=%s\n", c.ID, p)
			}
		}
		if len(unknown) > 12 {
			fmt.Printf("  ... and %d more violation classes (all in the evidence file and %s)\n", len(unknown)-12, dir)
		}
		os.Exit(1)
	}
	fmt.Printf("OK property=%s tier=%s exhaustive=%v wall=%.1fs\n", c.ID, c.Tier, exhaustive, time.Since(c.start).Seconds())
	if len(c.st.EngineErrors) > 0 {
		os.Exit(2)
	}
	os.Exit(0)
}

// LoadReplay reads a replay file written by Finish and returns its "replay" object.
func (c *Check) LoadReplay() map[string]interface{} {
	data, err := ioutil.ReadFile(c.replayIn)
	if err != nil {
		fmt.Println("ENGINE-ERROR: cannot read replay file:", err)
		os.Exit(2)
	}
	var f struct {
		Replay map[string]interface{} `json:"replay"`
	}
	if err := json.Unmarshal(data, &f); err != nil || f.Replay == nil {
		fmt.Println("ENGINE-ERROR: replay file has no replay object:", err)
		os.Exit(2)
	}
	return f.Replay
}

// ReplayVerdict prints the outcome of a replay and exits (1 = the violation reproduced).
func (c *Check) ReplayVerdict(err error, detail []string) {
	for _, l := range detail {
		fmt.Println("  ", l)
	}
	if err != nil {
		fmt.Printf("REPLAY property=%s reproduced: %v\n", c.ID, err)
		fmt.Printf("VIOLATION property=%s replay=%s\n", c.ID, c.replayIn)
		os.Exit(1)
	}
	fmt.Printf("REPLAY property=%s: no violation on this tree\n", c.ID)
	os.Exit(0)
}
