// Package ctlrig drives the real gateway UpstreamClusterController: the
// harness edits the lister's store and delivers objects to the controller's
// sync function, i.e. it plays the informer and the single queue worker.
package ctlrig

import (
	"crypto/ecdsa"
	"crypto/elliptic"
	"crypto/rand"
	"crypto/tls"
	"crypto/x509"
	"crypto/x509/pkix"
	"encoding/pem"
	"math/big"
	"net/http"
	"net/http/httptest"
	"time"

	"k8s.io/apimachinery/pkg/runtime"
	apirequest "k8s.io/apiserver/pkg/endpoints/request"
	"k8s.io/client-go/tools/cache"

	proxyv1alpha1 "github.com/kubewharf/kubegateway/pkg/apis/proxy/v1alpha1"
	gwinformers "github.com/kubewharf/kubegateway/pkg/client/informers"
	gwfake "github.com/kubewharf/kubegateway/pkg/client/kubernetes/fake"
	gwscheme "github.com/kubewharf/kubegateway/pkg/client/kubernetes/scheme"
	"github.com/kubewharf/kubegateway/pkg/clusters"
	"github.com/kubewharf/kubegateway/pkg/gateway/controllers"
	"github.com/kubewharf/kubegateway/pkg/gateway/endpoints/filters"
	"github.com/kubewharf/kubegateway/pkg/gateway/endpoints/request"
	proxyoptions "github.com/kubewharf/kubegateway/pkg/gateway/proxy/options"
	"github.com/kubewharf/kubegateway/pkg/syncqueue"
)

type Rig struct {
	C       *controllers.UpstreamClusterController
	Indexer cache.Indexer
}

func New() *Rig {
	gw := gwfake.NewSimpleClientset()
	inf := gwinformers.NewSharedInformerFactory(gw, 0).Proxy().V1alpha1().UpstreamClusters()
	c := controllers.NewUpstreamClusterController(inf, proxyoptions.NewRateLimiterOptions())
	return &Rig{C: c, Indexer: inf.Informer().GetIndexer()}
}

// Apply stores the object version in the lister's cache and delivers it.
func (r *Rig) Apply(o *proxyv1alpha1.UpstreamCluster) (syncqueue.Result, error) {
	if _, exists, _ := r.Indexer.Get(o); exists {
		_ = r.Indexer.Update(o)
	} else {
		_ = r.Indexer.Add(o)
	}
	return r.C.VerifSync(o)
}

// Store only updates the lister's cache (the event is delivered later).
func (r *Rig) Store(o *proxyv1alpha1.UpstreamCluster) {
	if _, exists, _ := r.Indexer.Get(o); exists {
		_ = r.Indexer.Update(o)
	} else {
		_ = r.Indexer.Add(o)
	}
}

// Delete removes the object from the lister's cache and delivers the deletion.
func (r *Rig) Delete(o *proxyv1alpha1.UpstreamCluster) (syncqueue.Result, error) {
	_ = r.Indexer.Delete(o)
	return r.C.VerifSync(o)
}

// Redeliver hands the same object to the sync function again (a requeued item).
func (r *Rig) Redeliver(o *proxyv1alpha1.UpstreamCluster) (syncqueue.Result, error) {
	return r.C.VerifSync(o)
}

func (r *Rig) Close() { r.C.DeleteAll() }

// Resolve sends a request for host through the gateway's own host parsing
// (ExtraRequestInfoFactory) and the WithUpstreamInfo filter and returns the
// cluster the request was attached to (nil + status when the gateway answered).
func (r *Rig) Resolve(host string) (*clusters.ClusterInfo, int) {
	var got *clusters.ClusterInfo
	inner := http.HandlerFunc(func(w http.ResponseWriter, req *http.Request) {
		if info, ok := request.ExtraRequestInfoFrom(req.Context()); ok {
			got = info.UpstreamCluster
		}
		w.WriteHeader(200)
	})
	h := filters.WithUpstreamInfo(inner, r.C, gwscheme.Codecs)
	req := httptest.NewRequest("GET", "http://placeholder/api/v1/pods", nil)
	req.Host = host
	ctx := apirequest.WithRequestInfo(req.Context(), &apirequest.RequestInfo{IsResourceRequest: true, Path: "/api/v1/pods", Verb: "list", APIVersion: "v1", Resource: "pods"})
	req = req.WithContext(ctx)
	f := &request.ExtraRequestInfoFactory{LongRunningFunc: func(*http.Request, *apirequest.RequestInfo) bool { return false }}
	info, err := f.NewExtraRequestInfo(req)
	if err != nil {
		panic(err)
	}
	req = req.WithContext(request.WithExtraRequestInfo(req.Context(), info))
	w := httptest.NewRecorder()
	h.ServeHTTP(w, req)
	return got, w.Code
}

var _ runtime.Object

// ------------------------------------------------------------------ TLS material

type Material struct {
	CertPEM, KeyPEM, CAPEM []byte
	CertDER                []byte
	CASubject              []byte
	// a renewal of the serving certificate that KEEPS the key (new serial, same subject, same CA)
	RenewedCertPEM, RenewedCertDER []byte
}

// NewMaterial generates a CA and a serving certificate signed by it.
func NewMaterial(cn string) Material {
	caKey, _ := ecdsa.GenerateKey(elliptic.P256(), rand.Reader)
	caTpl := &x509.Certificate{SerialNumber: big.NewInt(1), Subject: pkix.Name{CommonName: cn + "-ca"}, NotBefore: time.Now().Add(-time.Hour), NotAfter: time.Now().Add(24 * time.Hour),
		IsCA: true, KeyUsage: x509.KeyUsageCertSign, BasicConstraintsValid: true}
	caDER, _ := x509.CreateCertificate(rand.Reader, caTpl, caTpl, &caKey.PublicKey, caKey)
	caCert, _ := x509.ParseCertificate(caDER)
	key, _ := ecdsa.GenerateKey(elliptic.P256(), rand.Reader)
	tpl := &x509.Certificate{SerialNumber: big.NewInt(2), Subject: pkix.Name{CommonName: cn}, NotBefore: time.Now().Add(-time.Hour), NotAfter: time.Now().Add(24 * time.Hour),
		KeyUsage: x509.KeyUsageDigitalSignature, ExtKeyUsage: []x509.ExtKeyUsage{x509.ExtKeyUsageServerAuth, x509.ExtKeyUsageClientAuth}, DNSNames: []string{cn}}
	der, _ := x509.CreateCertificate(rand.Reader, tpl, caCert, &key.PublicKey, caKey)
	keyDER, _ := x509.MarshalECPrivateKey(key)
	m := Material{CertDER: der, CASubject: caCert.RawSubject}
	m.CertPEM = pem.EncodeToMemory(&pem.Block{Type: "CERTIFICATE", Bytes: der})
	m.KeyPEM = pem.EncodeToMemory(&pem.Block{Type: "EC PRIVATE KEY", Bytes: keyDER})
	m.CAPEM = pem.EncodeToMemory(&pem.Block{Type: "CERTIFICATE", Bytes: caDER})
	if _, err := tls.X509KeyPair(m.CertPEM, m.KeyPEM); err != nil {
		panic(err)
	}
	tpl.SerialNumber = big.NewInt(3)
	m.RenewedCertDER, _ = x509.CreateCertificate(rand.Reader, tpl, caCert, &key.PublicKey, caKey)
	m.RenewedCertPEM = pem.EncodeToMemory(&pem.Block{Type: "CERTIFICATE", Bytes: m.RenewedCertDER})
	if _, err := tls.X509KeyPair(m.RenewedCertPEM, m.KeyPEM); err != nil {
		panic(err)
	}
	return m
}
