package ctlrig

import (
	"sync"
	"time"

	metav1 "k8s.io/apimachinery/pkg/apis/meta/v1"
	"k8s.io/apimachinery/pkg/runtime"
	"k8s.io/apimachinery/pkg/watch"
	k8stesting "k8s.io/client-go/testing"

	proxyv1alpha1 "github.com/kubewharf/kubegateway/pkg/apis/proxy/v1alpha1"
	gwinformers "github.com/kubewharf/kubegateway/pkg/client/informers"
	gwinformersv1 "github.com/kubewharf/kubegateway/pkg/client/informers/proxy/v1alpha1"
	gwfake "github.com/kubewharf/kubegateway/pkg/client/kubernetes/fake"
	gwlisters "github.com/kubewharf/kubegateway/pkg/client/listers/proxy/v1alpha1"
	"github.com/kubewharf/kubegateway/pkg/gateway/controllers"
	proxyoptions "github.com/kubewharf/kubegateway/pkg/gateway/proxy/options"
)

// Live runs the real delivery path end to end: fake API (object tracker) -> client-go reflector and shared
// informer -> the controller's own event handler (syncqueue.ResourceEventHandler) -> its queue and single worker
// -> syncUpstreamCluster. The harness owns the watch connection: it decides whether a change is announced on the
// open watch or happens while the watch is down (the reflector then relists and the informer reports what it
// missed, a deletion as a cache.DeletedFinalStateUnknown tombstone).
type Live struct {
	C    *controllers.UpstreamClusterController
	gw   *gwfake.Clientset
	mu   sync.Mutex
	w    *watch.RaceFreeFakeWatcher
	n    int // watches opened
	stop chan struct{}
	hl   *holdingLister
}

var gvr = proxyv1alpha1.SchemeGroupVersion.WithResource("upstreamclusters")

func NewLive() *Live { return newLive(false) }

// NewLiveHolding is NewLive with a lister that can hold one Get: after Hold(), the next Get that the controller's
// worker makes returns only when Release() is called (it has read its answer by then) - a worker caught between
// reading the latest object and applying it.
func NewLiveHolding() *Live { return newLive(true) }

// Hold arms the lister; Held reports whether a Get is being held; Release lets it go.
func (l *Live) Hold()      { l.hl.mu.Lock(); l.hl.armed = true; l.hl.mu.Unlock() }
func (l *Live) Held() bool { l.hl.mu.Lock(); defer l.hl.mu.Unlock(); return l.hl.held }
func (l *Live) Release() {
	l.hl.mu.Lock()
	if l.hl.held {
		l.hl.held = false
		close(l.hl.release)
	}
	l.hl.armed = false
	l.hl.mu.Unlock()
}

type holdingLister struct {
	gwlisters.UpstreamClusterLister
	mu          sync.Mutex
	armed, held bool
	release     chan struct{}
}

func (h *holdingLister) Get(name string) (*proxyv1alpha1.UpstreamCluster, error) {
	o, err := h.UpstreamClusterLister.Get(name)
	h.mu.Lock()
	if !h.armed {
		h.mu.Unlock()
		return o, err
	}
	h.armed, h.held = false, true
	h.release = make(chan struct{})
	ch := h.release
	h.mu.Unlock()
	<-ch
	return o, err
}

type holdingInformer struct {
	gwinformersv1.UpstreamClusterInformer
	l *holdingLister
}

func (h holdingInformer) Lister() gwlisters.UpstreamClusterLister { return h.l }

func newLive(holding bool) *Live {
	l := &Live{gw: gwfake.NewSimpleClientset(), stop: make(chan struct{})}
	l.gw.PrependWatchReactor("upstreamclusters", func(k8stesting.Action) (bool, watch.Interface, error) {
		l.mu.Lock()
		defer l.mu.Unlock()
		l.w = watch.NewRaceFreeFake()
		l.n++
		return true, l.w, nil
	})
	f := gwinformers.NewSharedInformerFactory(l.gw, 0)
	var inf gwinformersv1.UpstreamClusterInformer = f.Proxy().V1alpha1().UpstreamClusters()
	if holding {
		l.hl = &holdingLister{UpstreamClusterLister: inf.Lister()}
		inf = holdingInformer{UpstreamClusterInformer: inf, l: l.hl}
	}
	l.C = controllers.NewUpstreamClusterController(inf, proxyoptions.NewRateLimiterOptions())
	f.Start(l.stop)
	go l.C.Run(l.stop)
	l.Wait(func() bool { return l.Watches() >= 1 }, 20*time.Second)
	return l
}

func (l *Live) Watches() int {
	l.mu.Lock()
	defer l.mu.Unlock()
	return l.n
}

func (l *Live) cur() *watch.RaceFreeFakeWatcher {
	l.mu.Lock()
	defer l.mu.Unlock()
	return l.w
}

// Wait polls cond (count-based conditions only; d is a generous upper bound, not an oracle).
func (l *Live) Wait(cond func() bool, d time.Duration) bool {
	end := time.Now().Add(d)
	for !cond() {
		if time.Now().After(end) {
			return false
		}
		time.Sleep(5 * time.Millisecond)
	}
	return true
}

func (l *Live) store(kind string, o *proxyv1alpha1.UpstreamCluster) {
	var err error
	switch kind {
	case "create":
		err = l.gw.Tracker().Add(o.DeepCopy())
	case "update":
		err = l.gw.Tracker().Update(gvr, o.DeepCopy(), "")
	case "delete":
		err = l.gw.Tracker().Delete(gvr, "", o.Name)
	}
	if err != nil {
		panic("ctlrig.Live: tracker " + kind + ": " + err.Error())
	}
}

// Watched makes the change and announces it on the open watch.
func (l *Live) Watched(kind string, o *proxyv1alpha1.UpstreamCluster) {
	l.store(kind, o)
	var obj runtime.Object = o.DeepCopy()
	switch kind {
	case "create":
		l.cur().Add(obj)
	case "update":
		l.cur().Modify(obj)
	case "delete":
		l.cur().Delete(obj)
	}
}

// InGap ends the watch, makes the change while no watch is open, and returns once the reflector has
// listed again and opened its next watch (so the informer has been told what it missed).
func (l *Live) InGap(kind string, o *proxyv1alpha1.UpstreamCluster) bool {
	before := l.Watches()
	l.store(kind, o)
	// the API server ends the watch with 410 Gone (resource version too old): the reflector lists again
	l.cur().Error(&metav1.Status{Status: metav1.StatusFailure, Code: 410, Reason: metav1.StatusReasonExpired, Message: "too old resource version"})
	return l.Wait(func() bool { return l.Watches() > before }, 60*time.Second)
}

func (l *Live) Close() {
	close(l.stop)
	l.C.DeleteAll()
}
