// C11 — hot reload converges to the latest object's configuration, whatever the history.
// Engine B with a differential oracle: a "history" gateway processes every
// sequence of object versions (fields and annotations added, changed, removed,
// restored; deletions; a second cluster causing refused attempts; redelivery of
// requeued - possibly superseded - objects), and in every quiescent state its
// effective configuration is compared with that of a fresh gateway that was
// given only the latest objects.
package main

import (
	"bytes"
	"fmt"
	"sort"
	"strings"
	"sync"
	"sync/atomic"
	"time"

	metav1 "k8s.io/apimachinery/pkg/apis/meta/v1"
	"k8s.io/apimachinery/pkg/types"
	"k8s.io/apiserver/pkg/authentication/user"
	"k8s.io/apiserver/pkg/authorization/authorizer"
	"k8s.io/component-base/featuregate"

	proxyv1alpha1 "github.com/kubewharf/kubegateway/pkg/apis/proxy/v1alpha1"
	"github.com/kubewharf/kubegateway/pkg/apis/proxy/v1alpha1/validation"
	"github.com/kubewharf/kubegateway/pkg/clusters"
	"github.com/kubewharf/kubegateway/pkg/clusters/features"
	"github.com/kubewharf/kubegateway/pkg/syncqueue"

	"verifh/ctlrig"
	"verifh/ev"
	"verifh/kit"
	"verifh/xstate"
)

var matA, matB = ctlrig.NewMaterial("a-1"), ctlrig.NewMaterial("a-2")

const e1, e2 = "https://127.0.0.1:1", "https://127.0.0.1:2"

type dimension struct {
	name   string
	values []string
	set    func(o *proxyv1alpha1.UpstreamCluster, v string)
}

func rule(mut func(r *proxyv1alpha1.DispatchPolicyRule)) proxyv1alpha1.DispatchPolicyRule {
	r := proxyv1alpha1.DispatchPolicyRule{Verbs: []string{"*"}, APIGroups: []string{"*"}, Resources: []string{"*"}, NonResourceURLs: []string{"*"}}
	mut(&r)
	return r
}

func mif(n string, m int32) proxyv1alpha1.FlowControlSchema {
	return proxyv1alpha1.FlowControlSchema{Name: n, FlowControlSchemaConfiguration: proxyv1alpha1.FlowControlSchemaConfiguration{MaxRequestsInflight: &proxyv1alpha1.MaxRequestsInflightFlowControlSchema{Max: m}}}
}

var dims = []dimension{
	{"servers", []string{"e1", "e1+e2", "e2", "e1(disabled)+e2", "e2+e1", "e1+e2(disabled)", "e1(disabled)+e2(disabled)", "e1(flag=false)+e2"}, func(o *proxyv1alpha1.UpstreamCluster, v string) {
		t, no := true, false
		switch v {
		case "e2+e1":
			o.Spec.Servers = []proxyv1alpha1.UpstreamClusterServer{{Endpoint: e2}, {Endpoint: e1}}
		case "e1+e2(disabled)":
			o.Spec.Servers = []proxyv1alpha1.UpstreamClusterServer{{Endpoint: e1}, {Endpoint: e2, Disabled: &t}}
		case "e1(disabled)+e2(disabled)":
			o.Spec.Servers = []proxyv1alpha1.UpstreamClusterServer{{Endpoint: e1, Disabled: &t}, {Endpoint: e2, Disabled: &t}}
		case "e1(flag=false)+e2":
			o.Spec.Servers = []proxyv1alpha1.UpstreamClusterServer{{Endpoint: e1, Disabled: &no}, {Endpoint: e2}}
		case "e1":
			o.Spec.Servers = []proxyv1alpha1.UpstreamClusterServer{{Endpoint: e1}}
		case "e1+e2":
			o.Spec.Servers = []proxyv1alpha1.UpstreamClusterServer{{Endpoint: e1}, {Endpoint: e2}}
		case "e2":
			o.Spec.Servers = []proxyv1alpha1.UpstreamClusterServer{{Endpoint: e2}}
		case "e1(disabled)+e2":
			o.Spec.Servers = []proxyv1alpha1.UpstreamClusterServer{{Endpoint: e1, Disabled: &t}, {Endpoint: e2}}
		}
	}},
	{"policies", []string{"P1", "P2", "P1+P2", "P1[e1]", "P1:s", "P2+P1", "P1[e2]", "P1[e1,e2]", "P1:t", "P1(log)", "P2(nolog)+P1"}, func(o *proxyv1alpha1.UpstreamCluster, v string) {
		p1 := proxyv1alpha1.DispatchPolicy{Rules: []proxyv1alpha1.DispatchPolicyRule{rule(func(r *proxyv1alpha1.DispatchPolicyRule) { r.Resources = []string{"pods"} })}, Strategy: proxyv1alpha1.RoundRobin}
		p2 := proxyv1alpha1.DispatchPolicy{Rules: []proxyv1alpha1.DispatchPolicyRule{rule(func(r *proxyv1alpha1.DispatchPolicyRule) { r.Verbs = []string{"get"} })}, Strategy: proxyv1alpha1.RoundRobin, LogMode: proxyv1alpha1.LogOn}
		switch v {
		case "P1":
			o.Spec.DispatchPolicies = []proxyv1alpha1.DispatchPolicy{p1}
		case "P2":
			o.Spec.DispatchPolicies = []proxyv1alpha1.DispatchPolicy{p2}
		case "P1+P2":
			o.Spec.DispatchPolicies = []proxyv1alpha1.DispatchPolicy{p1, p2}
		case "P1[e1]":
			p1.UpstreamSubset = []string{e1}
			o.Spec.DispatchPolicies = []proxyv1alpha1.DispatchPolicy{p1}
		case "P1:s":
			p1.FlowControlSchemaName = "s"
			o.Spec.DispatchPolicies = []proxyv1alpha1.DispatchPolicy{p1}
		case "P2+P1":
			o.Spec.DispatchPolicies = []proxyv1alpha1.DispatchPolicy{p2, p1}
		case "P1[e2]":
			p1.UpstreamSubset = []string{e2}
			o.Spec.DispatchPolicies = []proxyv1alpha1.DispatchPolicy{p1}
		case "P1[e1,e2]":
			p1.UpstreamSubset = []string{e1, e2}
			o.Spec.DispatchPolicies = []proxyv1alpha1.DispatchPolicy{p1}
		case "P1:t":
			p1.FlowControlSchemaName = "t"
			o.Spec.DispatchPolicies = []proxyv1alpha1.DispatchPolicy{p1}
		case "P1(log)":
			p1.LogMode = proxyv1alpha1.LogOn
			o.Spec.DispatchPolicies = []proxyv1alpha1.DispatchPolicy{p1}
		case "P2(nolog)+P1":
			p2.LogMode = proxyv1alpha1.LogOff
			o.Spec.DispatchPolicies = []proxyv1alpha1.DispatchPolicy{p2, p1}
		}
	}},
	{"flowcontrol", []string{"none", "s:mif1", "s:mif2", "s:tb", "s:exempt", "s+t", "t", "t+s", "s:mif1(local)", "s:mif1(globalCount)", "s:tb(qps2)", "s:tb(burst3)"}, func(o *proxyv1alpha1.UpstreamCluster, v string) {
		tbs := func(q, b int32) proxyv1alpha1.FlowControl {
			return proxyv1alpha1.FlowControl{Schemas: []proxyv1alpha1.FlowControlSchema{{Name: "s", FlowControlSchemaConfiguration: proxyv1alpha1.FlowControlSchemaConfiguration{TokenBucket: &proxyv1alpha1.TokenBucketFlowControlSchema{QPS: q, Burst: b}}}}}
		}
		switch v {
		case "t":
			o.Spec.FlowControl = proxyv1alpha1.FlowControl{Schemas: []proxyv1alpha1.FlowControlSchema{mif("t", 3)}}
		case "t+s":
			o.Spec.FlowControl = proxyv1alpha1.FlowControl{Schemas: []proxyv1alpha1.FlowControlSchema{mif("t", 3), mif("s", 1)}}
		case "s:mif1(local)", "s:mif1(globalCount)":
			sc := mif("s", 1)
			sc.Strategy = proxyv1alpha1.LimitStrategy(strings.TrimSuffix(strings.TrimPrefix(v, "s:mif1("), ")"))
			if sc.Strategy == proxyv1alpha1.GlobalCountLimit {
				sc.GlobalMaxRequestsInflight = &proxyv1alpha1.MaxRequestsInflightFlowControlSchema{Max: 5}
			}
			o.Spec.FlowControl = proxyv1alpha1.FlowControl{Schemas: []proxyv1alpha1.FlowControlSchema{sc}}
		case "s:tb(qps2)":
			o.Spec.FlowControl = tbs(2, 2)
		case "s:tb(burst3)":
			o.Spec.FlowControl = tbs(1, 3)
		case "none":
			o.Spec.FlowControl = proxyv1alpha1.FlowControl{}
		case "s:mif1":
			o.Spec.FlowControl = proxyv1alpha1.FlowControl{Schemas: []proxyv1alpha1.FlowControlSchema{mif("s", 1)}}
		case "s:mif2":
			o.Spec.FlowControl = proxyv1alpha1.FlowControl{Schemas: []proxyv1alpha1.FlowControlSchema{mif("s", 2)}}
		case "s:tb":
			o.Spec.FlowControl = proxyv1alpha1.FlowControl{Schemas: []proxyv1alpha1.FlowControlSchema{{Name: "s", FlowControlSchemaConfiguration: proxyv1alpha1.FlowControlSchemaConfiguration{TokenBucket: &proxyv1alpha1.TokenBucketFlowControlSchema{QPS: 1, Burst: 2}}}}}
		case "s:exempt":
			o.Spec.FlowControl = proxyv1alpha1.FlowControl{Schemas: []proxyv1alpha1.FlowControlSchema{{Name: "s", FlowControlSchemaConfiguration: proxyv1alpha1.FlowControlSchemaConfiguration{Exempt: &proxyv1alpha1.ExemptFlowControlSchema{}}}}}
		case "s+t":
			o.Spec.FlowControl = proxyv1alpha1.FlowControl{Schemas: []proxyv1alpha1.FlowControlSchema{mif("s", 1), mif("t", 3)}}
		}
	}},
	{"annotations", []string{"nil", "empty", "other", "deny", "tracing", "deny+tracing", "fg-empty"}, func(o *proxyv1alpha1.UpstreamCluster, v string) {
		k := features.FeatureGateAnnotationKey
		switch v {
		case "nil":
			o.Annotations = nil
		case "empty":
			o.Annotations = map[string]string{}
		case "other":
			o.Annotations = map[string]string{"other": "k"}
		case "deny":
			o.Annotations = map[string]string{k: "DenyAllRequests=true"}
		case "tracing":
			o.Annotations = map[string]string{k: "Tracing=true"}
		case "deny+tracing":
			o.Annotations = map[string]string{k: "DenyAllRequests=true,Tracing=true"}
		case "fg-empty":
			o.Annotations = map[string]string{k: ""}
		}
	}},
	{"logging", []string{"unset", "on", "off"}, func(o *proxyv1alpha1.UpstreamCluster, v string) {
		switch v {
		case "unset":
			o.Spec.Logging.Mode = ""
		case "on":
			o.Spec.Logging.Mode = proxyv1alpha1.LogOn
		case "off":
			o.Spec.Logging.Mode = proxyv1alpha1.LogOff
		}
	}},
	{"tls", []string{"none", "A", "B", "A-cert-only", "A-ca-only", "A-renewed"}, func(o *proxyv1alpha1.UpstreamCluster, v string) {
		names := o.Spec.SecureServing.ServerNames
		o.Spec.SecureServing = proxyv1alpha1.SecureServing{ServerNames: names}
		switch v {
		case "A":
			o.Spec.SecureServing.CertData, o.Spec.SecureServing.KeyData, o.Spec.SecureServing.ClientCAData = matA.CertPEM, matA.KeyPEM, matA.CAPEM
		case "B":
			o.Spec.SecureServing.CertData, o.Spec.SecureServing.KeyData, o.Spec.SecureServing.ClientCAData = matB.CertPEM, matB.KeyPEM, matB.CAPEM
		case "A-renewed": // the certificate re-issued under the SAME key
			o.Spec.SecureServing.CertData, o.Spec.SecureServing.KeyData, o.Spec.SecureServing.ClientCAData = matA.RenewedCertPEM, matA.KeyPEM, matA.CAPEM
		case "A-cert-only":
			o.Spec.SecureServing.CertData = matA.CertPEM
		case "A-ca-only":
			o.Spec.SecureServing.ClientCAData = matA.CAPEM
		}
	}},
	{"names", []string{"none", "x", "y", "x+y", "y+x", "X"}, func(o *proxyv1alpha1.UpstreamCluster, v string) {
		switch v {
		case "none":
			o.Spec.SecureServing.ServerNames = nil
		case "x+y":
			o.Spec.SecureServing.ServerNames = []string{"x", "y"}
		case "y+x":
			o.Spec.SecureServing.ServerNames = []string{"y", "x"}
		default:
			o.Spec.SecureServing.ServerNames = []string{v}
		}
	}},
}

func baseA() *proxyv1alpha1.UpstreamCluster {
	o := &proxyv1alpha1.UpstreamCluster{ObjectMeta: metav1.ObjectMeta{Name: "a"}}
	o.Spec.Servers = []proxyv1alpha1.UpstreamClusterServer{{Endpoint: e1}}
	o.Spec.ClientConfig.Insecure = true
	o.Spec.ClientConfig.BearerToken = []byte("gw-secret")
	o.Spec.DispatchPolicies = []proxyv1alpha1.DispatchPolicy{{Rules: []proxyv1alpha1.DispatchPolicyRule{rule(func(*proxyv1alpha1.DispatchPolicyRule) {})}, Strategy: proxyv1alpha1.RoundRobin}}
	return o
}

func objB(names ...string) *proxyv1alpha1.UpstreamCluster {
	o := &proxyv1alpha1.UpstreamCluster{ObjectMeta: metav1.ObjectMeta{Name: "b"}}
	o.Spec.Servers = []proxyv1alpha1.UpstreamClusterServer{{Endpoint: "https://127.0.0.1:3"}}
	o.Spec.ClientConfig.Insecure = true
	o.Spec.ClientConfig.BearerToken = []byte("gw-secret")
	o.Spec.SecureServing.ServerNames = names
	o.Spec.DispatchPolicies = []proxyv1alpha1.DispatchPolicy{{Rules: []proxyv1alpha1.DispatchPolicyRule{rule(func(*proxyv1alpha1.DispatchPolicyRule) {})}, Strategy: proxyv1alpha1.RoundRobin}}
	return o
}

func valid(o *proxyv1alpha1.UpstreamCluster) bool {
	ok := false
	kit.TryShort(func() { ok = len(validation.ValidateUpstreamCluster(o)) == 0 })
	if !ok {
		return false
	}
	if fg := o.Annotations[features.FeatureGateAnnotationKey]; fg != "" {
		if features.DefaultMutableFeatureGate.DeepCopy().Set(fg) != nil {
			return false
		}
	}
	return true
}

// ------------------------------------------------------------------ fingerprint

var probes = func() []authorizer.Attributes {
	var out []authorizer.Attributes
	for _, verb := range []string{"get", "list"} {
		for _, res := range []string{"pods", "nodes"} {
			out = append(out, authorizer.AttributesRecord{User: &user.DefaultInfo{Name: "alice"}, Verb: verb, Resource: res, ResourceRequest: true})
		}
	}
	return out
}()

var gates = []featuregate.Feature{features.CloseConnectionWhenIdle, features.DenyAllRequests, features.GlobalRateLimiter, features.Tracing}

func fingerprint(r *ctlrig.Rig, cluster string) []string {
	ci, ok := r.C.Get(cluster)
	if !ok {
		return []string{"cluster absent"}
	}
	var fp []string
	eps := ci.AllEndpoints()
	sort.Strings(eps)
	for _, ep := range eps {
		info, _ := ci.Endpoints.Load(ep)
		fp = append(fp, fmt.Sprintf("endpoint %s disabled=%v probing=%v", ep, info.IstDisabled(), info.VerifProbing()))
	}
	for _, a := range probes {
		p, err := ci.MatchAttributes(a)
		if err != nil {
			fp = append(fp, fmt.Sprintf("route %s %s: %v", a.GetVerb(), a.GetResource(), err))
			continue
		}
		ups := map[string]int{}
		for i := 0; i < 4; i++ {
			if e, err := p.Pop(); err == nil {
				ups[e.Endpoint]++
			}
		}
		// endpoints are unhealthy in this rig (no upstream is running): the upstream set is read from the picker by marking healthy
		set, strat := clusters.VerifPickerUpstreams(p)
		sort.Strings(set) // the property speaks of the endpoint SET of a route; the order picks rotate in is C14's business
		fp = append(fp, fmt.Sprintf("route %s %s: fc=%s fctype=%s log=%v upstreams=%v strategy=%s", a.GetVerb(), a.GetResource(), p.FlowControlName(), p.FlowControl().String(), p.EnableLog(), set, strat))
	}
	for _, n := range []string{"s", "t"} {
		fc := ci.GetFlowSchema(n)
		adm := -1 // a token bucket cannot be probed without spending its tokens (real clock): its printed configuration is compared
		if fc.Type() != proxyv1alpha1.TokenBucket {
			adm = 0
			for i := 0; i < 4; i++ {
				if fc.TryAcquire() {
					adm++
				}
			}
			for i := 0; i < adm; i++ {
				fc.Release()
			}
		}
		fp = append(fp, fmt.Sprintf("schema %s: %s type=%s burst-admitted=%d", n, fc.String(), fc.Type(), adm))
	}
	// the strategy in force and the configuration each schema's limiter was synced with (a strategy does not show in what
	// a probe admits while the limiter runs in local mode, but it decides which limiter is charged in remote mode)
	sc := ci.VerifSchemaConfigs()
	var scn []string
	for n := range sc {
		scn = append(scn, n)
	}
	sort.Strings(scn)
	for _, n := range scn {
		fp = append(fp, fmt.Sprintf("schema-config %s: %s", n, sc[n]))
	}
	for _, g := range gates {
		fp = append(fp, fmt.Sprintf("gate %s=%v", g, ci.FeatureEnabled(g)))
	}
	fp = append(fp, fmt.Sprintf("servernames %v", ci.LoadServerNames()))
	if cfg, ok := ci.LoadTLSConfig(); ok {
		cert := "none"
		if len(cfg.Certificates) > 0 {
			switch {
			case bytes.Equal(cfg.Certificates[0].Certificate[0], matA.CertDER):
				cert = "A"
			case bytes.Equal(cfg.Certificates[0].Certificate[0], matB.CertDER):
				cert = "B"
			default:
				cert = "other"
			}
		}
		fp = append(fp, "tls cert="+cert+" clientCA="+caName(cfg.ClientCAs))
	} else {
		fp = append(fp, "tls none")
	}
	if vo, ok := ci.LoadVerifyOptions(); ok {
		fp = append(fp, "verify roots="+caName(vo.Roots))
	} else {
		fp = append(fp, "verify none")
	}
	for _, h := range []string{"a", "x", "y", "b"} {
		c, code := r.Resolve(h)
		name := ""
		if c != nil {
			name = c.Cluster
		}
		fp = append(fp, fmt.Sprintf("host %s -> %q (%d)", h, name, code))
	}
	return fp
}

type subjecter interface{ Subjects() [][]byte }

func caName(p subjecter) string {
	if p == nil || fmt.Sprint(p) == "<nil>" {
		return "none"
	}
	var out []string
	for _, s := range p.Subjects() { //nolint
		switch {
		case bytes.Equal(s, matA.CASubject):
			out = append(out, "A")
		case bytes.Equal(s, matB.CASubject):
			out = append(out, "B")
		default:
			out = append(out, "other")
		}
	}
	return strings.Join(out, "+")
}

// ------------------------------------------------------------------ system

type sys struct {
	rig      *ctlrig.Rig
	cur      map[string]string // current value per dimension of the latest object of a
	latestA  *proxyv1alpha1.UpstreamCluster
	latestB  *proxyv1alpha1.UpstreamCluster
	latestN  *proxyv1alpha1.UpstreamCluster // a third object whose own NAME is "x", a server name cluster a may claim
	pending  map[string]*proxyv1alpha1.UpstreamCluster
	redeliv  int
	maxRedel int
	// what the control plane stamps on the object: the generation counts the versions of one incarnation (1 for a new
	// object, also for one re-created under an old name), the UID names the incarnation
	genA, incA int64
}

func (s *sys) build() *proxyv1alpha1.UpstreamCluster {
	o := baseA()
	for _, d := range dims {
		if v, ok := s.cur[d.name]; ok {
			d.set(o, v)
		}
	}
	o.Generation = s.genA
	o.UID = types.UID(fmt.Sprintf("a-%d", s.incA))
	return o
}

func names(o *proxyv1alpha1.UpstreamCluster) []string {
	if o == nil {
		return nil
	}
	out := []string{strings.ToLower(o.Name)}
	for _, n := range o.Spec.SecureServing.ServerNames {
		out = append(out, strings.ToLower(n))
	}
	return out
}

func overlap(a, b []string) bool {
	for _, x := range a {
		for _, y := range b {
			if x == y {
				return true
			}
		}
	}
	return false
}

func requeued(res syncqueue.Result, err error) bool {
	return err != nil || res.Requeue || res.RequeueAfter > 0
}

var invalidSkipped int

var unboundedRequeue = true // set from the queue conformance run

// core: how many leading values of a dimension the multi-dimension specs use (the single-dimension spec of each
// dimension uses all of them: shapes of a change - reordered, removed, flag spelled out - are letters of their own)
var core = map[string]int{"servers": 4, "policies": 5, "flowcontrol": 6, "names": 3}

func specFull(dimFilter map[string]bool, name string) xstate.Spec {
	return specWith(dimFilter, name, false)
}

func spec(dimFilter map[string]bool, name string) xstate.Spec {
	return specWith(dimFilter, name, dimFilter == nil || len(dimFilter) > 1)
}

func specWith(dimFilter map[string]bool, name string, coreOnly bool) xstate.Spec {
	return xstate.Spec{
		Name: name,
		New: func() interface{} {
			return &sys{rig: ctlrig.New(), cur: map[string]string{}, pending: map[string]*proxyv1alpha1.UpstreamCluster{}}
		},
		Events: func(si interface{}) []string {
			s := si.(*sys)
			var evs []string
			for _, d := range dims {
				if dimFilter != nil && !dimFilter[d.name] {
					continue
				}
				values := d.values
				if n := core[d.name]; coreOnly && n > 0 {
					values = values[:n]
				}
				for _, v := range values {
					if s.latestA != nil && s.cur[d.name] == v {
						continue
					}
					evs = append(evs, "a "+d.name+"="+v)
				}
				// the object is deleted and created again under the same name with another value, and the informer has
				// stored the new object before the worker gets to the queued deletion
				if s.latestA != nil {
					for _, v := range values {
						if s.cur[d.name] != v {
							evs = append(evs, "a recreated-with "+d.name+"="+v)
							break
						}
					}
				}
			}
			if s.latestA != nil {
				evs = append(evs, "a duplicate", "delete a")
			}
			if dimFilter == nil || dimFilter["names"] {
				evs = append(evs, "b none", "b x")
				if s.latestB != nil {
					evs = append(evs, "delete b")
				}
				if s.latestN == nil {
					evs = append(evs, "create object named x")
				} else {
					evs = append(evs, "delete object named x")
				}
			}
			for _, c := range []string{"a", "b", "n"} {
				if s.pending[c] != nil && (unboundedRequeue || s.redeliv < 3) {
					evs = append(evs, "redeliver "+c)
				}
			}
			return evs
		},
		Apply: func(si interface{}, e string) error {
			s := si.(*sys)
			f := strings.Fields(e)
			deliver := func(c string, o *proxyv1alpha1.UpstreamCluster, res syncqueue.Result, err error) {
				if requeued(res, err) {
					s.pending[c] = o
				} else if s.pending[c] == o {
					delete(s.pending, c)
				}
			}
			switch {
			case f[0] == "a" && f[1] == "duplicate":
				o := s.latestA.DeepCopy() // a resync delivers an equal object again
				s.latestA = o
				res, err := s.rig.Apply(o)
				deliver("a", o, res, err)
			case f[0] == "a" && f[1] == "recreated-with":
				kv := strings.SplitN(f[2], "=", 2)
				oldObj, oldCur, oldGen, oldInc := s.latestA, s.cur, s.genA, s.incA
				s.cur = map[string]string{kv[0]: kv[1]}
				s.genA, s.incA = 1, s.incA+1
				o := s.build()
				if !valid(o) {
					invalidSkipped++
					s.cur, s.genA, s.incA = oldCur, oldGen, oldInc
					return nil
				}
				s.latestA = o
				s.rig.Store(o)                 // the informer's cache already holds the new incarnation
				_, _ = s.rig.Redeliver(oldObj) // the worker handles the deletion event of the old one ...
				res, err := s.rig.Redeliver(o) // ... and then the creation event
				deliver("a", o, res, err)
			case f[0] == "a":
				kv := strings.SplitN(f[1], "=", 2)
				old, had := s.cur[kv[0]]
				s.cur[kv[0]] = kv[1]
				oldGen := s.genA
				if s.latestA == nil {
					s.genA, s.incA = 1, s.incA+1
				} else {
					s.genA++
				}
				o := s.build()
				if !valid(o) {
					invalidSkipped++
					s.genA = oldGen
					if s.latestA == nil {
						s.incA--
					}
					// the control plane would not have admitted this version: it is not part of any history
					if had {
						s.cur[kv[0]] = old
					} else {
						delete(s.cur, kv[0])
					}
					return nil
				}
				s.latestA = o
				res, err := s.rig.Apply(o)
				deliver("a", o, res, err)
			case f[0] == "create": // "create object named x"
				o := objB()
				o.Name = "x"
				o.Spec.Servers[0].Endpoint = "https://127.0.0.1:5"
				s.latestN = o
				res, err := s.rig.Apply(o)
				deliver("n", o, res, err)
			case f[0] == "delete" && f[1] == "object":
				o := s.latestN
				s.latestN = nil
				delete(s.pending, "n") // the queue finds the object gone
				_, _ = s.rig.Delete(o)
			case f[0] == "b":
				var o *proxyv1alpha1.UpstreamCluster
				if f[1] == "none" {
					o = objB()
				} else {
					o = objB(f[1])
				}
				s.latestB = o
				res, err := s.rig.Apply(o)
				deliver("b", o, res, err)
			case f[0] == "delete":
				if f[1] == "a" {
					o := s.latestA
					s.latestA = nil
					s.genA = 0
					s.cur = map[string]string{}
					_, _ = s.rig.Delete(o)
				} else {
					o := s.latestB
					s.latestB = nil
					_, _ = s.rig.Delete(o)
				}
			case f[0] == "redeliver":
				o := s.pending[f[1]]
				s.redeliv++
				res, err := s.rig.Redeliver(o)
				if !requeued(res, err) {
					delete(s.pending, f[1])
				}
			}
			return s.compare(e)
		},
		Canon: func(si interface{}) string {
			s := si.(*sys)
			p := []string{}
			for c, o := range s.pending {
				p = append(p, c+":"+kit.JSON(o.Spec)+kit.JSON(o.Annotations))
			}
			sort.Strings(p)
			la, lb := "", ""
			if s.latestA != nil {
				la = kit.JSON(s.latestA.Spec) + kit.JSON(s.latestA.Annotations) + fmt.Sprint(s.latestA.Annotations == nil)
			}
			if s.latestB != nil {
				lb = kit.JSON(s.latestB.Spec)
			}
			return fmt.Sprint(la, lb, s.latestN != nil, p, fingerprint(s.rig, "a"), fingerprint(s.rig, "b"), fingerprint(s.rig, "x"))
		},
		Close: func(si interface{}) { si.(*sys).rig.Close() },
	}
}

// compare: in a quiescent state (nothing waits for redelivery) and with latest objects that do not compete
// for a name, the history gateway must look exactly like a fresh gateway given only the latest objects.
func (s *sys) compare(e string) error {
	if len(s.pending) > 0 || overlap(names(s.latestA), names(s.latestB)) || overlap(names(s.latestA), names(s.latestN)) || overlap(names(s.latestB), names(s.latestN)) {
		return nil
	}
	fresh := ctlrig.New()
	defer fresh.Close()
	if s.latestB != nil {
		if res, err := fresh.Apply(s.latestB.DeepCopy()); requeued(res, err) {
			return nil
		}
	}
	if s.latestA != nil {
		if res, err := fresh.Apply(s.latestA.DeepCopy()); requeued(res, err) {
			return nil // the latest object cannot be applied even by a fresh gateway (C16 judges that)
		}
	}
	if s.latestN != nil {
		if res, err := fresh.Apply(s.latestN.DeepCopy()); requeued(res, err) {
			return nil
		}
	}
	for _, c := range []string{"a", "b", "x"} {
		h, f := fingerprint(s.rig, c), fingerprint(fresh, c)
		for i := range h {
			if i >= len(f) || h[i] != f[i] {
				want := "<missing>"
				if i < len(f) {
					want = f[i]
				}
				what := strings.Fields(h[i])[0]
				if len(strings.Fields(h[i])) > 1 && (what == "gate" || what == "schema" || what == "host") {
					what += "-" + strings.SplitN(strings.Fields(h[i])[1], "=", 2)[0]
				}
				return fmt.Errorf("diverges-%s: after %q cluster %s of the gateway that saw the whole history has [%s]; a fresh gateway given only the latest objects has [%s]", strings.TrimSuffix(what, ":"), e, c, h[i], want)
			}
		}
		if len(f) != len(h) {
			return fmt.Errorf("diverges-shape: cluster %s: %d facts vs %d facts on a fresh gateway", c, len(h), len(f))
		}
	}
	return nil
}

// ------------------------------------------------------------------ queue conformance

// queueConformance runs the real SyncQueue with a handler that always asks for a requeue the way the
// controller does (RequeueAfter, MaxRequeueTimes 3) and reports how often one object is delivered.
func queueConformance(c *ev.Check) {
	var mu sync.Mutex
	var n int32
	var ptrs []interface{}
	q := syncqueue.NewPassthroughSyncQueue(proxyv1alpha1.SchemeGroupVersion.WithKind("UpstreamCluster"), func(obj interface{}) (syncqueue.Result, error) {
		mu.Lock()
		ptrs = append(ptrs, obj)
		mu.Unlock()
		atomic.AddInt32(&n, 1)
		return syncqueue.Result{RequeueAfter: time.Millisecond, MaxRequeueTimes: 3}, nil
	})
	q.Run(1)
	o := objB()
	q.Enqueue(o)
	deadline := time.Now().Add(3 * time.Second)
	for atomic.LoadInt32(&n) < 8 && time.Now().Before(deadline) {
		time.Sleep(5 * time.Millisecond)
	}
	q.ShutDown()
	got := int(atomic.LoadInt32(&n))
	same := true
	mu.Lock()
	for _, p := range ptrs {
		if p != interface{}(o) {
			same = false
		}
	}
	mu.Unlock()
	c.Note("queue_conformance", map[string]interface{}{"deliveries_of_one_requeued_object_within_3s": got, "same_object_redelivered": same, "max_requeue_times_in_result": 3})
	c.Add("queue_traces", 1)
}

// ------------------------------------------------------------------ delivery conformance (real informer, queue, worker)
// The histories above deliver objects to the controller's sync function directly (the harness plays informer and
// worker). That the real delivery path hands every change to that function is decided here, end to end: fake API ->
// client-go reflector + shared informer -> syncqueue.ResourceEventHandler -> queue -> worker. Each of create, update
// and delete happens either announced on the open watch or while the watch is down (the informer then reports it
// after a relist, a deletion as a DeletedFinalStateUnknown tombstone): all 8 combinations, a bystander cluster along.

func deliveryTasks(c *ev.Check) []ev.Task {
	var out []ev.Task
	modes := []string{"watched", "in-gap"}
	for m := 0; m < 8; m++ {
		seq := []string{modes[m&1], modes[m>>1&1], modes[m>>2&1]}
		name := "delivery/create-" + seq[0] + ",update-" + seq[1] + ",delete-" + seq[2]
		out = append(out, ev.Task{Name: name, Run: func() { deliveryHistory(c, name, seq) }})
	}
	return out
}

func deliveryHistory(c *ev.Check, name string, seq []string) {
	l := ctlrig.NewLive()
	defer l.Close()
	replay := map[string]interface{}{"task": name}
	endpointsOf := func(n string) string {
		ci, ok := l.C.Get(n)
		if !ok {
			return "<absent>"
		}
		eps := ci.AllEndpoints()
		sort.Strings(eps)
		return strings.Join(eps, ",")
	}
	l.Watched("create", baseA())
	if !l.Wait(func() bool { return endpointsOf("a") == e1 }, 20*time.Second) {
		c.EngineError("delivery conformance: the bystander cluster never appeared: " + endpointsOf("a"))
	}
	v1, v2 := objB(), objB()
	v2.Spec.Servers = []proxyv1alpha1.UpstreamClusterServer{{Endpoint: "https://127.0.0.1:4"}}
	steps := []struct {
		kind string
		obj  *proxyv1alpha1.UpstreamCluster
		want string
	}{{"create", v1, "https://127.0.0.1:3"}, {"update", v2, "https://127.0.0.1:4"}, {"delete", v2, "<absent>"}}
	for i, st := range steps {
		if seq[i] == "watched" {
			l.Watched(st.kind, st.obj)
		} else if !l.InGap(st.kind, st.obj) {
			c.EngineError("delivery conformance: the reflector did not open a new watch within 60 s")
		}
		c.Add("transitions", 1)
		if !l.Wait(func() bool { return endpointsOf("b") == st.want }, 20*time.Second) {
			c.Violation("delivery/"+st.kind+"-"+seq[i]+"-never-processed", fmt.Sprintf("%s of cluster b %s (history %s): 20 s after the informer learned of it the gateway still has endpoints %q for b, the latest object says %q", st.kind, map[string]string{"watched": "announced on the open watch", "in-gap": "while the watch was down, reported by the informer after its relist"}[seq[i]], name, endpointsOf("b"), st.want), replay)
			return
		}
		if got := endpointsOf("a"); got != e1 {
			c.Violation("delivery/bystander-changed", fmt.Sprintf("after %s of b the bystander cluster a has endpoints %q", st.kind, got), replay)
			return
		}
	}
	c.Add("states", 4)
	c.Add("queue_traces", 1)
}

// oneAtATime: the histories assume that the versions of one cluster are applied one at a time, in delivery order (the
// controller's single worker). On the real controller: a worker is held right after it has read version 1 from the
// lister; version 2 is delivered; one second later the worker is let go. Whatever else happened meanwhile, once the
// queue has drained the cluster is that of version 2.
func oneAtATime(c *ev.Check) {
	l := ctlrig.NewLiveHolding()
	defer l.Close()
	endpointsOfB := func() string {
		ci, ok := l.C.Get("b")
		if !ok {
			return "<absent>"
		}
		eps := ci.AllEndpoints()
		sort.Strings(eps)
		return strings.Join(eps, ",")
	}
	v1, v2 := objB(), objB()
	v2.Spec.Servers = []proxyv1alpha1.UpstreamClusterServer{{Endpoint: "https://127.0.0.1:4"}}
	l.Watched("create", v1)
	if !l.Wait(func() bool { return endpointsOfB() == "https://127.0.0.1:3" }, 20*time.Second) {
		c.EngineError("one-at-a-time: version 1 was not applied")
		return
	}
	v1b := v1.DeepCopy()
	v1b.Spec.Servers = []proxyv1alpha1.UpstreamClusterServer{{Endpoint: "https://127.0.0.1:5"}}
	l.Hold()
	l.Watched("update", v1b)
	if !l.Wait(l.Held, 20*time.Second) {
		c.EngineError("one-at-a-time: no worker asked the lister within 20 s")
		return
	}
	l.Watched("update", v2)
	time.Sleep(time.Second) // (not an oracle: room for whatever else may run while the worker is held)
	l.Release()
	c.Add("transitions", 3)
	if !l.Wait(func() bool { return endpointsOfB() == "https://127.0.0.1:4" }, 20*time.Second) {
		c.Violation("delivery/superseded-version-applied-last", fmt.Sprintf("a worker was held after it had read a version of cluster b from the lister; the next version was delivered; the worker was let go one second later: 20 s on the gateway has endpoints %q for b, the latest object says %q", endpointsOfB(), "https://127.0.0.1:4"), map[string]interface{}{"task": "one-at-a-time"})
		return
	}
	time.Sleep(300 * time.Millisecond)
	if got := endpointsOfB(); got != "https://127.0.0.1:4" {
		c.Violation("delivery/superseded-version-applied-last", fmt.Sprintf("the latest version of cluster b was applied and then replaced by a superseded one: endpoints %q", got), map[string]interface{}{"task": "one-at-a-time"})
	}
	c.Add("queue_traces", 1)
}

func main() {
	c := ev.Start("C11", "model_checking")
	c.Assume = []string{
		"delivery model (bound to pkg/syncqueue by a conformance run of the real queue recorded in the evidence): events are delivered in order, an equal object may be delivered again (resync), and an object whose attempt asked for a requeue is redelivered (the same object, possibly superseded meanwhile) at any later point, without limit",
		"only object versions that ValidateUpstreamCluster and the feature-gate check accept on this tree take part in histories",
		"compared in quiescent states only (no object waiting for redelivery) and only when the latest objects do not compete for a name; client connection settings are excluded as the property says; endpoint health is not part of the comparison (no upstream runs in this rig)",
	}
	if !valid(baseA()) || !valid(objB("x")) {
		c.EngineError("the harness's base objects are not accepted by ValidateUpstreamCluster on this tree: every history would be empty")
	}
	all := spec(nil, "all-dimensions")
	var specs = []xstate.Spec{all}
	for _, d := range dims {
		specs = append(specs, spec(map[string]bool{d.name: true}, "dimension-"+d.name))
	}
	specs = append(specs, spec(map[string]bool{"names": true, "annotations": true}, "requeue-names+annotations"), spec(map[string]bool{"names": true, "tls": true}, "requeue-names+tls"),
		spec(map[string]bool{"flowcontrol": true, "policies": true}, "pair-flowcontrol+policies"), spec(map[string]bool{"servers": true, "policies": true}, "pair-servers+policies"))
	if c.ReplayFile() != "" {
		xstate.ReplayIfAsked(c, specs)
	}
	// the coupled dimensions once more with their full alphabets (shallower)
	fullPairs := []xstate.Spec{specFull(map[string]bool{"servers": true, "policies": true}, "full-servers+policies"), specFull(map[string]bool{"flowcontrol": true, "policies": true}, "full-flowcontrol+policies"),
		specFull(map[string]bool{"names": true, "tls": true}, "full-names+tls")}
	if c.ReplayFile() != "" {
		xstate.ReplayIfAsked(c, fullPairs)
	}
	var tasks []ev.Task
	for _, sp := range fullPairs {
		tasks = append(tasks, xstate.Tasks(c, sp, c.Pick(3, 4), 8)...)
	}
	tasks = append(tasks, ev.Task{Name: "queue-conformance", Run: func() { queueConformance(c) }})
	tasks = append(tasks, deliveryTasks(c)...)
	tasks = append(tasks, ev.Task{Name: "delivery/one-at-a-time", Run: func() { oneAtATime(c) }})
	tasks = append(tasks, xstate.Tasks(c, all, c.Pick(3, 4), 32)...)
	for _, sp := range specs[1:] {
		d := c.Pick(4, 5)
		if strings.HasPrefix(sp.Name, "requeue") {
			d = c.Pick(5, 6) // refused, superseded, conflict cleared, redelivered: needs 5 events
		}
		tasks = append(tasks, xstate.Tasks(c, sp, d, 6)...)
	}
	c.RunTasks(tasks)
	c.Finish(map[string]interface{}{
		"states":                        c.Counter("states"),
		"transitions":                   c.Counter("transitions"),
		"traces_validated_against_impl": c.Counter("replays") + c.Counter("queue_traces"),
	})
}
