// C06 — local token bucket: admissions <= burst + qps*T, never stricter than set.
// Engine C: every sequence of {acquire, advance the (virtual) clock, no-op
// Syncs, reconfigurations} up to a bound through the real upstreamLimiter on a
// driver-owned clock (client-go's realClock.Now is redirected to vtime).
// Engine A: concurrent acquirers (and a reconfiguration) at a frozen clock.
package main

import (
	"context"
	"fmt"
	"math"
	"strings"
	"time"

	proxyv1alpha1 "github.com/kubewharf/kubegateway/pkg/apis/proxy/v1alpha1"
	"github.com/kubewharf/kubegateway/pkg/flowcontrols"
	"github.com/kubewharf/kubegateway/pkg/zzverif/vsched"
	"github.com/kubewharf/kubegateway/pkg/zzverif/vtime"

	"verifh/ev"
	"verifh/xa"
)

type cfg struct {
	qps, burst int32
	// shape: "" = only the tokenBucket member; "global-member" = the rarely used globalTokenBucket member is set as well
	// (50 x larger) under the default strategy; "global-strategy" = same with strategy globalCount. This limiter runs in
	// local mode, where the LOCAL member is what binds in all three. "remote-fallback" = plain schema, but the gateway
	// runs with the remote limiter selected and has no limiter server: Load()'s fallback branch hands out the local bucket.
	shape string
}

func (c cfg) String() string {
	if c.shape == "" {
		return fmt.Sprintf("{%d %d}", c.qps, c.burst)
	}
	return fmt.Sprintf("{%d %d %s}", c.qps, c.burst, c.shape)
}

func tb(name string, c cfg) proxyv1alpha1.FlowControlSchema {
	sc := proxyv1alpha1.FlowControlSchema{Name: name, FlowControlSchemaConfiguration: proxyv1alpha1.FlowControlSchemaConfiguration{TokenBucket: &proxyv1alpha1.TokenBucketFlowControlSchema{QPS: c.qps, Burst: c.burst}}}
	if c.shape != "" && c.shape != "remote-fallback" {
		sc.GlobalTokenBucket = &proxyv1alpha1.TokenBucketFlowControlSchema{QPS: c.qps * 50, Burst: c.burst * 50}
		if c.shape == "global-strategy" {
			sc.Strategy = proxyv1alpha1.GlobalCountLimit
		}
	}
	return sc
}
func mif(name string, m int32) proxyv1alpha1.FlowControlSchema {
	return proxyv1alpha1.FlowControlSchema{Name: name, FlowControlSchemaConfiguration: proxyv1alpha1.FlowControlSchemaConfiguration{MaxRequestsInflight: &proxyv1alpha1.MaxRequestsInflightFlowControlSchema{Max: m}}}
}

var t0 = time.Unix(1700000000, 0)

var cfgs = []cfg{{qps: 1, burst: 1}, {qps: 1, burst: 3}, {qps: 2, burst: 2}, {qps: 4, burst: 8}, {qps: 2, burst: 5}, {qps: 2, burst: 3, shape: "global-member"}, {qps: 1, burst: 2, shape: "global-strategy"}, {qps: 2, burst: 2, shape: "remote-fallback"}}

type step struct {
	kind string
	d    time.Duration
	to   cfg
}

func (s step) String() string {
	switch s.kind {
	case "adv":
		return "+" + s.d.String()
	case "reconf":
		return fmt.Sprintf("reconf(%d,%d)", s.to.qps, s.to.burst)
	}
	return s.kind
}

func steps(c cfg) []step {
	return []step{
		{kind: "acquire"},
		{kind: "adv", d: 125 * time.Millisecond}, {kind: "adv", d: 500 * time.Millisecond}, {kind: "adv", d: time.Second}, {kind: "adv", d: 10 * time.Second},
		{kind: "sync-same"}, {kind: "sync-other-schema"}, {kind: "sync-other-toggled"}, {kind: "sync-reordered"},
		{kind: "reconf", to: cfg{c.qps, c.burst + 2, c.shape}},     // burst only
		{kind: "reconf", to: cfg{c.qps * 2, c.burst, c.shape}},     // qps only
		{kind: "reconf", to: cfg{c.qps + 1, c.burst + 1, c.shape}}, // both
		{kind: "reconf", to: cfg{c.qps, 1, c.shape}},               // burst only, down
	}
}

type attempt struct {
	at time.Duration
	ok bool
}

// judge one stable segment (no reconfiguration inside)
func judge(c cfg, seg []attempt, segStart time.Duration) string {
	var adm []time.Duration
	for _, a := range seg {
		if a.ok {
			adm = append(adm, a.at)
		}
	}
	for i := range adm {
		for j := i; j < len(adm); j++ {
			T := (adm[j] - adm[i]).Seconds()
			if float64(j-i+1) > float64(c.burst)+float64(c.qps)*T+1e-6 {
				return fmt.Sprintf("over-rate: qps=%d burst=%d: %d requests admitted within %.3fs (bound %.3f)", c.qps, c.burst, j-i+1, T, float64(c.burst)+float64(c.qps)*T)
			}
		}
	}
	// never stricter: a run of attempts at one instant after an idle gap g admits at least min(run, burst, floor(qps*g))
	last := segStart
	fresh := true // a freshly configured bucket is full
	for i := 0; i < len(seg); {
		j, okc := i, 0
		for j < len(seg) && seg[j].at == seg[i].at {
			if seg[j].ok {
				okc++
			}
			j++
		}
		g := (seg[i].at - last).Seconds()
		want := math.Min(float64(c.burst), math.Floor(float64(c.qps)*g+1e-9))
		if fresh {
			want = float64(c.burst)
		}
		if float64(j-i) < want {
			want = float64(j - i)
		}
		if float64(okc) < want {
			return fmt.Sprintf("too-strict: qps=%d burst=%d: after %.3fs without calls %d calls arrived at once and only %d were admitted (at least %.0f required)", c.qps, c.burst, g, j-i, okc, want)
		}
		last = seg[i].at
		fresh = false
		i = j
	}
	return ""
}

func runSeq(c *ev.Check, lim flowcontrols.UpstreamLimiter, base cfg, all []step, idx []int) {
	vtime.SetVirtual(t0)
	lim.Sync(proxyv1alpha1.FlowControl{}) // drop everything: the next Sync creates a fresh (full) bucket
	cur := base
	otherMax := int32(1)
	otherPresent, reordered := true, false
	sync := func() {
		sch := []proxyv1alpha1.FlowControlSchema{tb("s", cur)}
		if otherPresent {
			sch = append(sch, mif("S", otherMax))
			if reordered {
				sch[0], sch[1] = sch[1], sch[0]
			}
		}
		lim.Sync(proxyv1alpha1.FlowControl{Schemas: sch})
	}
	sync()
	var now, segStart time.Duration
	var seg []attempt
	flush := func() {
		if v := judge(cur, seg, segStart); v != "" {
			key := v[:strings.Index(v, ":")]
			c.Violation(key, fmt.Sprintf("%s [start (%d,%d); steps %s]", v, base.qps, base.burst, seqString(all, idx)), map[string]interface{}{"base": fmt.Sprint(base), "steps": seqString(all, idx)})
		}
	}
	admitted := 0
	for _, k := range idx {
		st := all[k]
		switch st.kind {
		case "acquire":
			ok := lim.GetOrDefault("s").TryAcquire()
			seg = append(seg, attempt{now, ok})
			if ok {
				admitted++
			}
		case "adv":
			vtime.Advance(st.d)
			now += st.d
		case "sync-same":
			sync()
		case "sync-other-schema":
			otherMax++
			sync()
		case "sync-other-toggled": // the other schema disappears / comes back: s itself is byte-identical
			otherPresent = !otherPresent
			sync()
		case "sync-reordered":
			reordered = !reordered
			sync()
		case "reconf":
			if st.to == cur {
				sync() // same (qps, burst): not a reconfiguration
				continue
			}
			flush()
			cur = st.to
			sync()
			seg, segStart = nil, now
		}
	}
	flush()
	c.Add("sequences", 1)
	c.Outcome("admission_patterns", fmt.Sprintf("%v/%d/%d", base, len(idx), admitted))
}

func seqString(all []step, idx []int) string {
	var s []string
	for _, k := range idx {
		s = append(s, all[k].String())
	}
	return strings.Join(s, " ")
}

func enumerate(c *ev.Check, base cfg, L int, first int) {
	ctx, cancel := context.WithCancel(context.Background())
	defer cancel()
	mode := ""
	if base.shape == "remote-fallback" {
		mode = "remote"
	}
	lim := flowcontrols.NewUpstreamLimiter(ctx, "c1", mode, nil)
	all := steps(base)
	var idx []int
	var rec func()
	rec = func() {
		if len(idx) > 0 {
			runSeq(c, lim, base, all, idx)
			if len(idx) == 3 && idx[1] == 0 && idx[2] == 0 {
				c.Sample("sequence", map[string]interface{}{"config": fmt.Sprint(base), "steps": seqString(all, idx)})
			}
		}
		if len(idx) == L || c.Expired() {
			if c.Expired() {
				c.NotExhaustive("deadline reached during sequence enumeration")
			}
			return
		}
		for k := range all {
			if len(idx) == 0 && k != first {
				continue
			}
			idx = append(idx, k)
			rec()
			idx = idx[:len(idx)-1]
		}
	}
	rec()
	lim.Sync(proxyv1alpha1.FlowControl{})
}

// bigBursts: burst far above the rate (1/s burst 100, 2/s burst 150, 5/s burst 1000) and rate far above the burst
// do not occur among the step sequences' small numbers. A bucket as created (first sync), as re-created (schema removed
// and added again) and as resized admits exactly `burst` back-to-back requests at a frozen clock - not more, not fewer.
func bigBursts(c *ev.Check) {
	for _, cf := range []cfg{{qps: 1, burst: 100}, {qps: 2, burst: 150}, {qps: 5, burst: 1000}, {qps: 100, burst: 100}} {
		for _, how := range []string{"created", "re-created", "resized"} {
			vtime.SetVirtual(t0)
			ctx, cancel := context.WithCancel(context.Background())
			lim := flowcontrols.NewUpstreamLimiter(ctx, "c1", "", nil)
			switch how {
			case "created":
				lim.Sync(proxyv1alpha1.FlowControl{Schemas: []proxyv1alpha1.FlowControlSchema{tb("s", cf)}})
			case "re-created":
				lim.Sync(proxyv1alpha1.FlowControl{Schemas: []proxyv1alpha1.FlowControlSchema{tb("s", cfg{qps: 1, burst: 1})}})
				lim.Sync(proxyv1alpha1.FlowControl{})
				lim.Sync(proxyv1alpha1.FlowControl{Schemas: []proxyv1alpha1.FlowControlSchema{tb("s", cf)}})
			case "resized":
				lim.Sync(proxyv1alpha1.FlowControl{Schemas: []proxyv1alpha1.FlowControlSchema{tb("s", cfg{qps: 1, burst: 1})}})
				lim.Sync(proxyv1alpha1.FlowControl{Schemas: []proxyv1alpha1.FlowControlSchema{tb("s", cf)}})
			}
			n := 0
			for i := 0; i < int(cf.burst)+10; i++ {
				if lim.GetOrDefault("s").TryAcquire() {
					n++
				}
			}
			c.Add("big_burst_cases", 1)
			if n != int(cf.burst) {
				key := "too-strict-big-burst"
				if n > int(cf.burst) {
					key = "over-rate-big-burst"
				}
				c.Violation(key, fmt.Sprintf("token bucket %d/s burst %d, %s: %d of %d back-to-back requests at a frozen clock were admitted, the configured burst is %d", cf.qps, cf.burst, how, n, int(cf.burst)+10, cf.burst), map[string]interface{}{"qps": cf.qps, "burst": cf.burst, "how": how})
			}
			lim.Sync(proxyv1alpha1.FlowControl{})
			cancel()
		}
	}
	vtime.SetReal()
}

// ------------------------------------------------------------------ engine A

type obsA struct{ admitted, after, idle int }

func harnessA(c *ev.Check, name string, base cfg, threads, each int, reconf *cfg, bound, shards int) xa.Harness {
	body := func() interface{} {
		var lim flowcontrols.UpstreamLimiter
		var cancel context.CancelFunc
		vsched.Passthrough(func() {
			vtime.SetVirtual(t0)
			var ctx context.Context
			ctx, cancel = context.WithCancel(context.Background())
			lim = flowcontrols.NewUpstreamLimiter(ctx, "c1", "", nil)
			lim.Sync(proxyv1alpha1.FlowControl{Schemas: []proxyv1alpha1.FlowControlSchema{tb("s", base)}})
		})
		o := &obsA{}
		done := false
		for t := 0; t < threads; t++ {
			vsched.GoNamed(fmt.Sprintf("A%d", t+1), func() {
				for i := 0; i < each; i++ {
					startedAfter := done // only a call that starts after the reconfiguration returned is a "later" request
					if lim.GetOrDefault("s").TryAcquire() {
						if startedAfter {
							o.after++
						} else {
							o.admitted++
						}
					}
				}
			})
		}
		if reconf != nil {
			vsched.GoNamed("R", func() {
				lim.Sync(proxyv1alpha1.FlowControl{Schemas: []proxyv1alpha1.FlowControlSchema{tb("s", *reconf)}})
				done = true
			})
		}
		vsched.Join()
		if reconf == nil {
			// never stricter, afterwards: the concurrent calls (more than the burst, so some were refused while others
			// ran) emptied the bucket; two refill periods later exactly min(burst, 2) of `burst` sequential calls fit
			vtime.Advance(time.Duration(2 * float64(time.Second) / float64(base.qps)))
			for i := 0; i < int(base.burst); i++ {
				if lim.GetOrDefault("s").TryAcquire() {
					o.idle++
				}
			}
		}
		vsched.Passthrough(func() { lim.Sync(proxyv1alpha1.FlowControl{}); cancel() })
		return o
	}
	check := func(x *vsched.Exec) error {
		o := x.Obs.(*obsA)
		c.Outcome("concurrent_outcomes", fmt.Sprint(name, o.admitted, o.after, o.idle))
		if reconf == nil {
			if o.admitted > int(base.burst) {
				return fmt.Errorf("over-rate-concurrent: burst %d at a frozen clock but %d concurrent requests were admitted", base.burst, o.admitted)
			}
			want := threads * each
			if want > int(base.burst) {
				want = int(base.burst)
			}
			if o.admitted < want {
				return fmt.Errorf("too-strict-concurrent: burst %d, %d requests arrived at a frozen clock on a full bucket and only %d were admitted", base.burst, threads*each, o.admitted)
			}
			if threads*each >= int(base.burst) {
				wantIdle := 2
				if int(base.burst) < wantIdle {
					wantIdle = int(base.burst)
				}
				if o.idle < wantIdle {
					return fmt.Errorf("too-strict-after-concurrent-refusals: %d/s burst %d: %d concurrent requests emptied the bucket (some refused); two refill periods later only %d of %d sequential requests were admitted (%d tokens had accrued)", base.qps, base.burst, threads*each, o.idle, base.burst, wantIdle)
				}
				if o.idle > wantIdle {
					return fmt.Errorf("over-rate-concurrent: two refill periods after the bucket was emptied %d requests were admitted (%d tokens had accrued)", o.idle, wantIdle)
				}
			}
			return nil
		}
		if o.after > int(reconf.burst) {
			return fmt.Errorf("over-rate-concurrent: after the reconfiguration to burst %d completed, %d requests were admitted at a frozen clock", reconf.burst, o.after)
		}
		if o.admitted > int(base.burst)+int(reconf.burst) {
			return fmt.Errorf("over-rate-concurrent: %d admitted around a reconfiguration (old burst %d + new burst %d)", o.admitted, base.burst, reconf.burst)
		}
		return nil
	}
	return xa.Harness{Name: name, Bound: bound, Shards: shards, Horizon: 20000, Body: body, Check: check}
}

func harnesses(c *ev.Check, b int) []xa.Harness {
	sh := 1
	if b >= 2 {
		sh = 4
	}
	return []xa.Harness{
		harnessA(c, "three-acquirers-burst3", cfg{qps: 1, burst: 3}, 3, 2, nil, b, sh),
		harnessA(c, "two-acquirers-burst1", cfg{qps: 1, burst: 1}, 2, 2, nil, b, sh),
		harnessA(c, "acquirers-vs-reconf-burst-down", cfg{qps: 1, burst: 3}, 2, 2, &cfg{qps: 1, burst: 1}, b, sh),
		harnessA(c, "acquirers-vs-reconf-qps-only", cfg{qps: 1, burst: 2}, 2, 2, &cfg{qps: 5, burst: 2}, b, sh),
	}
}

func main() {
	c := ev.Start("C06", "model_checking")
	c.Assume = []string{
		"clock seam: k8s.io/client-go/util/flowcontrol/throttle.go (module cache) is instrumented so that realClock.Now reads the driver-owned virtual clock; golang.org/x/time/rate is used as is",
		"(qps, burst) and time steps are chosen so that the bucket arithmetic is exact in float64; a reconfiguration that changes qps and/or burst starts a new (full) bucket and a new judged segment; Sync with an unchanged schema, or with only another schema changed, is not a reconfiguration",
		"never-stricter clause judged per run of calls arriving at one instant after a gap without calls",
	}
	if c.ReplayFile() != "" {
		xa.ReplayIfAsked(c, harnesses(c, 0))
	}
	L := c.Pick(5, 7)
	var tasks []ev.Task
	for _, base := range cfgs {
		for k := range steps(base) {
			base, k := base, k
			l := L
			if base.shape != "" {
				l = L - 1
			}
			tasks = append(tasks, ev.Task{Name: fmt.Sprintf("enum-%v-first%d", base, k), Run: func() { enumerate(c, base, l, k) }})
		}
	}
	bounds := []int{0, 1, 2}
	if c.Thorough() {
		bounds = []int{0, 1, 2, 3}
	}
	for _, b := range bounds {
		for _, h := range harnesses(c, b) {
			tasks = append(tasks, xa.Tasks(c, h)...)
		}
	}
	tasks = append(tasks, ev.Task{Name: "big-bursts", Run: func() { bigBursts(c) }})
	c.RunTasks(tasks)
	c.Finish(map[string]interface{}{
		"states":                        c.Counter("sequences") + c.Counter("choice_points"),
		"transitions":                   c.Counter("sequences")*int64(L)/2 + c.Counter("steps"),
		"traces_validated_against_impl": c.Counter("sequences") + c.Counter("schedules"),
		"sequence_len_bound":            L,
		"explanation":                   "every step sequence up to the bound over 13 steps x 8 start configurations (two with the globalTokenBucket member also set, one in remote mode without a limiter server; these one step shorter) is one trace of the real limiter on the virtual clock (states = sequences, transitions ~ steps executed); plus the scheduling decision points/steps of the concurrent harnesses.",
	})
}
