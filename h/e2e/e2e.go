// Package e2e is the end-to-end rig shared by C02, C03, C04 and C15: the
// gateway's real proxy handler chain (buildProxyHandlerChainFunc) served over
// loopback HTTP in front of real ClusterInfo objects whose endpoints are
// httptest upstreams; authentication and authorization are stubs the driver
// scripts per request.
package e2e

import (
	"bytes"
	"context"
	"fmt"
	"io"
	"io/ioutil"
	"net"
	"net/http"
	"net/http/httptest"
	"sync"
	"sync/atomic"
	"time"

	metav1 "k8s.io/apimachinery/pkg/apis/meta/v1"
	"k8s.io/apimachinery/pkg/util/sets"
	utilwaitgroup "k8s.io/apimachinery/pkg/util/waitgroup"
	"k8s.io/apiserver/pkg/authentication/authenticator"
	"k8s.io/apiserver/pkg/authentication/user"
	"k8s.io/apiserver/pkg/authorization/authorizer"
	apirequest "k8s.io/apiserver/pkg/endpoints/request"
	genericapiserver "k8s.io/apiserver/pkg/server"
	"k8s.io/client-go/kubernetes/scheme"

	"github.com/kubewharf/kubegateway/cmd/kube-gateway/app"
	proxyv1alpha1 "github.com/kubewharf/kubegateway/pkg/apis/proxy/v1alpha1"
	"github.com/kubewharf/kubegateway/pkg/clusters"
)

const GatewayToken = "gw-secret"

// Captured is one request as an upstream saw it.
type Captured struct {
	Method, Path, RawPath, RawQuery, Host string
	Header                                http.Header
	Body                                  []byte
	ContentLength                         int64
	TransferEncoding                      []string
	CtxDone                               <-chan struct{}
}

// Upstream is a stub kube-apiserver.
type Upstream struct {
	Name   string
	Server *httptest.Server
	mu     sync.Mutex
	reqs   []*Captured
	// Respond writes the response for a captured request (default: 200 with a small JSON body).
	Respond func(w http.ResponseWriter, r *http.Request, c *Captured)
	BytesIn int64
	probes  int64
	// probeMode: how the gateway's health probe is answered - "" (200 ok), "500", "404", "hang" (no answer until the
	// prober gives up), "slow-body" (200 and headers at once, the body never completes)
	probeMode atomic.Value
}

// SetProbeMode decides how health probes are answered from now on.
func (u *Upstream) SetProbeMode(m string) { u.probeMode.Store(m) }

// ProbeCount is the monotonic number of gateway health probes received (never cleared).
func (u *Upstream) ProbeCount() int64 { return atomic.LoadInt64(&u.probes) }

func NewUpstream(name string) *Upstream {
	u := &Upstream{Name: name}
	u.Server = httptest.NewServer(http.HandlerFunc(func(w http.ResponseWriter, r *http.Request) {
		if r.URL.Path == "/healthz" && r.Header.Get("X-Verif-Probe") == "" && r.Header.Get("Impersonate-User") == "" && r.Header.Get("X-Forwarded-For") == "" {
			// the gateway's own health probe (never sent through the proxy path)
			atomic.AddInt64(&u.probes, 1)
			u.mu.Lock()
			u.reqs = append(u.reqs, &Captured{Method: "PROBE", Path: "/healthz"})
			u.mu.Unlock()
			mode, _ := u.probeMode.Load().(string)
			switch mode {
			case "500":
				w.WriteHeader(500)
				_, _ = w.Write([]byte("etcd unreachable"))
				return
			case "404":
				w.WriteHeader(404)
				return
			case "slow-ok":
				time.Sleep(1500 * time.Millisecond)
			case "hang":
				select {
				case <-r.Context().Done():
				case <-time.After(60 * time.Second):
				}
				return
			case "slow-body":
				w.Header().Set("Content-Length", "1000")
				w.WriteHeader(200)
				_, _ = w.Write([]byte("o"))
				if f, ok := w.(http.Flusher); ok {
					f.Flush()
				}
				select {
				case <-r.Context().Done():
				case <-time.After(60 * time.Second):
				}
				return
			}
			w.WriteHeader(200)
			_, _ = w.Write([]byte("ok"))
			return
		}
		body, _ := ioutil.ReadAll(r.Body)
		c := &Captured{Method: r.Method, Path: r.URL.Path, RawPath: r.URL.EscapedPath(), RawQuery: r.URL.RawQuery, Host: r.Host, Header: r.Header.Clone(), Body: body,
			ContentLength: r.ContentLength, TransferEncoding: r.TransferEncoding, CtxDone: r.Context().Done()}
		u.mu.Lock()
		u.reqs = append(u.reqs, c)
		u.BytesIn += int64(len(body))
		respond := u.Respond
		u.mu.Unlock()
		if respond != nil {
			respond(w, r, c)
			return
		}
		w.Header().Set("Content-Type", "application/json")
		w.WriteHeader(200)
		_, _ = w.Write([]byte(`{"kind":"Status","status":"Success","from":"` + u.Name + `"}`))
	}))
	return u
}

// Requests returns the proxied requests received so far (probes excluded) and clears the log.
func (u *Upstream) Requests() []*Captured {
	u.mu.Lock()
	defer u.mu.Unlock()
	var out []*Captured
	for _, c := range u.reqs {
		if c.Method != "PROBE" {
			out = append(out, c)
		}
	}
	u.reqs = nil
	return out
}

// Probes counts health probes received so far without clearing proxied requests.
func (u *Upstream) Probes() int {
	u.mu.Lock()
	defer u.mu.Unlock()
	n := 0
	for _, c := range u.reqs {
		if c.Method == "PROBE" {
			n++
		}
	}
	return n
}

func (u *Upstream) URL() string { return u.Server.URL }
func (u *Upstream) Close()      { u.Server.Close() }

// Rig is the gateway.
type Rig struct {
	Manager clusters.Manager
	GW      *httptest.Server
	Client  *http.Client

	mu       sync.Mutex
	identity user.Info
	authnErr error
	// Authorize decides every authorizer call (impersonation checks); default allow
	Authorize func(a authorizer.Attributes) (authorizer.Decision, string, error)
	AuthzLog  []string
	// Real, when set, is asked instead of Authorize (e.g. the gateway's own webhook authorizer with its decision cache)
	Real authorizer.Authorizer
}

type stubAuthn struct{ r *Rig }

func (s stubAuthn) AuthenticateRequest(req *http.Request) (*authenticator.Response, bool, error) {
	s.r.mu.Lock()
	defer s.r.mu.Unlock()
	if s.r.authnErr != nil {
		return nil, false, s.r.authnErr
	}
	if s.r.identity == nil {
		return nil, false, nil
	}
	return &authenticator.Response{User: s.r.identity}, true, nil
}

type stubAuthz struct{ r *Rig }

func (s stubAuthz) Authorize(ctx context.Context, a authorizer.Attributes) (authorizer.Decision, string, error) {
	s.r.mu.Lock()
	f, real := s.r.Authorize, s.r.Real
	s.r.AuthzLog = append(s.r.AuthzLog, fmt.Sprintf("%s %s/%s %s", a.GetVerb(), a.GetResource(), a.GetSubresource(), a.GetName()))
	s.r.mu.Unlock()
	if real != nil {
		return real.Authorize(ctx, a)
	}
	if f == nil {
		return authorizer.DecisionAllow, "", nil
	}
	return f(a)
}

// New builds the gateway on a fresh cluster manager.
func New() *Rig { return NewWithManager(clusters.NewManager()) }

// NewWithManager builds the gateway in front of the given manager (e.g. a real UpstreamClusterController).
func NewWithManager(m clusters.Manager) *Rig { return NewWithOptions(m, false, false) }

// NewWithOptions: accessLog / tracing are the proxy server's --enable-access-log / --enable-proxy-tracing options
// (tracing additionally needs the cluster's feature gate Tracing=true).
func NewWithOptions(m clusters.Manager, accessLog, tracing bool) *Rig {
	r := &Rig{Manager: m, identity: &user.DefaultInfo{Name: "alice", Groups: []string{"system:authenticated"}}}
	cfg := &genericapiserver.Config{}
	cfg.Serializer = scheme.Codecs
	cfg.RequestInfoResolver = &apirequest.RequestInfoFactory{APIPrefixes: sets.NewString("api", "apis"), GrouplessAPIPrefixes: sets.NewString("api")}
	cfg.LongRunningFunc = func(req *http.Request, info *apirequest.RequestInfo) bool {
		return info.Verb == "watch" || info.Verb == "proxy" || req.URL.Query().Get("watch") == "true"
	}
	cfg.Authentication.Authenticator = stubAuthn{r}
	cfg.Authorization.Authorizer = stubAuthz{r}
	cfg.HandlerChainWaitGroup = new(utilwaitgroup.SafeWaitGroup)
	notFound := http.HandlerFunc(func(w http.ResponseWriter, req *http.Request) { http.Error(w, "not a proxy request", 404) })
	h := app.VerifBuildProxyHandlerChainWith(m, accessLog, tracing)(notFound, cfg)
	r.GW = httptest.NewServer(h)
	r.Client = &http.Client{Transport: &http.Transport{DisableCompression: true, MaxIdleConnsPerHost: 64}, CheckRedirect: func(*http.Request, []*http.Request) error { return http.ErrUseLastResponse }}
	return r
}

func (r *Rig) SetIdentity(u user.Info) { r.mu.Lock(); r.identity = u; r.mu.Unlock() }
func (r *Rig) SetAuthorize(f func(a authorizer.Attributes) (authorizer.Decision, string, error)) {
	r.mu.Lock()
	r.Authorize = f
	r.mu.Unlock()
}

func (r *Rig) Close() {
	r.GW.Close()
	r.Manager.DeleteAll()
}

// ClusterObject builds the UpstreamCluster object for a cluster whose endpoints are the given upstreams.
func ClusterObject(name string, ups ...*Upstream) *proxyv1alpha1.UpstreamCluster {
	o := &proxyv1alpha1.UpstreamCluster{ObjectMeta: metav1.ObjectMeta{Name: name}}
	for _, u := range ups {
		o.Spec.Servers = append(o.Spec.Servers, proxyv1alpha1.UpstreamClusterServer{Endpoint: u.URL()})
	}
	o.Spec.ClientConfig.BearerToken = []byte(GatewayToken)
	o.Spec.DispatchPolicies = []proxyv1alpha1.DispatchPolicy{{Strategy: proxyv1alpha1.RoundRobin,
		Rules: []proxyv1alpha1.DispatchPolicyRule{{Verbs: []string{"*"}, APIGroups: []string{"*"}, Resources: []string{"*"}, NonResourceURLs: []string{"*"}}}}}
	return o
}

// HealthyCheck marks an endpoint healthy whenever it is probed (no HTTP involved).
func HealthyCheck(e *clusters.EndpointInfo) bool { e.UpdateStatus(true, "", ""); return true }

// AddCluster creates the ClusterInfo through CreateClusterInfo and registers it; endpoints are marked healthy.
func (r *Rig) AddCluster(o *proxyv1alpha1.UpstreamCluster, check clusters.EndpointHealthCheck) *clusters.ClusterInfo {
	if check == nil {
		check = HealthyCheck
	}
	ci, err := clusters.CreateClusterInfo(o, check, "", nil)
	if err != nil {
		panic(err)
	}
	for _, s := range o.Spec.Servers {
		if e, ok := ci.Endpoints.Load(s.Endpoint); ok {
			e.UpdateStatus(true, "", "")
		}
	}
	r.Manager.Add(ci)
	return ci
}

// Do sends req to the gateway; host selects the cluster. It returns the response with its body read.
func (r *Rig) Do(method, host, pathAndQuery string, header http.Header, body io.Reader) (*http.Response, []byte, error) {
	req, err := http.NewRequest(method, r.GW.URL+pathAndQuery, body)
	if err != nil {
		return nil, nil, err
	}
	req.Host = host
	for k, v := range header {
		req.Header[k] = append([]string{}, v...)
	}
	resp, err := r.Client.Do(req)
	if err != nil {
		return nil, nil, err
	}
	defer resp.Body.Close()
	b, err := ioutil.ReadAll(resp.Body)
	return resp, b, err
}

// DoRaw writes a raw HTTP/1.1 request (exact bytes) to the gateway and returns the raw response.
func (r *Rig) DoRaw(raw string, timeout time.Duration) ([]byte, error) {
	conn, err := net.DialTimeout("tcp", r.GW.Listener.Addr().String(), timeout)
	if err != nil {
		return nil, err
	}
	defer conn.Close()
	_ = conn.SetDeadline(time.Now().Add(timeout))
	if _, err := conn.Write([]byte(raw)); err != nil {
		return nil, err
	}
	var buf bytes.Buffer
	_, _ = io.Copy(&buf, conn)
	return buf.Bytes(), nil
}
