// Package wire puts the real parts on both ends of the gateway <-> limiter-server connection: the gateway's
// UpstreamLimiter with its real clientSets (generated REST client) talks over loopback HTTP to the limiter server's
// real handler chain (request info, dispatcher, go-restful routes) in front of the real rateLimiter.
package wire

import (
	"context"
	"net/http"
	"net/http/httptest"

	"k8s.io/apimachinery/pkg/util/sets"
	apirequest "k8s.io/apiserver/pkg/endpoints/request"
	apiserver "k8s.io/apiserver/pkg/server"
	"k8s.io/client-go/rest"

	"github.com/kubewharf/kubegateway/pkg/flowcontrols"
	"github.com/kubewharf/kubegateway/pkg/flowcontrols/remote"
	"github.com/kubewharf/kubegateway/pkg/ratelimiter/clientsets"
	"github.com/kubewharf/kubegateway/pkg/ratelimiter/endpoints"

	"verifh/limrig"
)

type Server struct {
	Rig  *limrig.Rig
	HTTP *httptest.Server
	URL  string
}

// NewServer starts a limiter server (local store) that leads all its shards, behind its real handler chain.
func NewServer(shards int) *Server {
	ts := httptest.NewUnstartedServer(nil)
	s := &Server{HTTP: ts, URL: "http://" + ts.Listener.Addr().String()}
	s.Rig = limrig.NewWithIdentity(shards, "local", 0, s.URL)
	resolver := &apirequest.RequestInfoFactory{APIPrefixes: sets.NewString("api", "apis"), GrouplessAPIPrefixes: sets.NewString("api")}
	su := apiserver.AuthenticationInfo{Authenticator: &apiserver.InsecureSuperuser{}}
	ts.Config.Handler = endpoints.BuildHandlerChain(http.NotFoundHandler(), s.Rig.L, nil, &su, resolver) // as config.go does for the insecure port
	ts.Start()
	for sh := 0; sh < shards; sh++ {
		s.Rig.Gain(sh)
	}
	return s
}

func (s *Server) Close() { s.HTTP.Close() }

// Gateway is one gateway instance's limiter for one upstream cluster; server lookups, heartbeats and reconcile
// rounds happen when the driver says so (no timer loops).
type Gateway struct {
	ID     string
	V      *clientsets.VerifClientSets
	CS     clientsets.ClientSets
	Lim    flowcontrols.UpstreamLimiter
	cancel context.CancelFunc
}

func NewGateway(serverURL, id, cluster string) *Gateway {
	ctx, cancel := context.WithCancel(context.Background())
	v, cs := clientsets.VerifNew(serverURL, id, &rest.Config{QPS: 10000, Burst: 10000})
	g := &Gateway{ID: id, V: v, CS: cs, cancel: cancel}
	g.Lim = flowcontrols.NewUpstreamLimiter(ctx, cluster, "remote", cs)
	return g
}

// Round is one reconcile round: report the status, apply the answer.
func (g *Gateway) Round() { remote.VerifReconcileOnce(flowcontrols.VerifReconcile(g.Lim)) }

func (g *Gateway) Close() { g.cancel() }
