// C02 — identity propagation: the upstream acts as exactly the authenticated user.
// Engine C over the real proxy handler chain: authenticated identities x
// client-supplied Authorization / Impersonate-* headers (all casings) x
// authorizer answers; a reference implementation of the impersonation rules
// says who the upstream must be told to act as, or that the gateway must
// answer itself; the stub upstream's view is compared with it.
package main

import (
	"encoding/json"
	"fmt"
	"net"
	"net/http"
	"net/url"
	"reflect"
	"sort"
	"strings"
	"time"

	"k8s.io/apiserver/pkg/authentication/serviceaccount"
	"k8s.io/apiserver/pkg/authentication/user"
	"k8s.io/apiserver/pkg/authorization/authorizer"

	sarwebhook "github.com/kubewharf/kubegateway/pkg/gateway/authorization/webhook"
	authorizationv1 "k8s.io/api/authorization/v1"

	"verifh/e2e"
	"verifh/ev"
)

// ------------------------------------------------------------------ alphabets

type ident struct {
	name   string
	groups []string
	extra  map[string][]string
}

var names = []string{"alice", "system:serviceaccount:ns:sa", "system:anonymous", "a b", "ü", "%41", "kube:admin,cn=x"}
var groupSets = [][]string{{}, {"g1"}, {"g1", "system:authenticated"}, {"g 2", "system:authenticated"}, {"system:masters", "g,3"}}

// (keys that already look percent-encoded must be escaped once more, or the upstream decodes them into another key)
var extras = []map[string][]string{nil, {"scopes": {"x"}}, {"k/1": {"v", "w"}}, {"Key": {"v"}}, {"%": {"v"}}, {"a b": {"v w", "ü"}, "scopes": {"s1", "s2"}},
	{"example.com%2fscopes": {"v"}}, {"%41": {"v"}, "100%": {"w"}}, {"x%2": {"v"}, "é/k": {"v"}}}

var authHeaders = [][]string{nil, {"Bearer client-token"}, {"Basic Y2xpZW50OnB3"}}
var impUsers = []string{"", "bob", "system:serviceaccount:n:s", "system:anonymous"}

// (a header that is present with an empty value is still "groups were specified": [""] and ["", "g9"])
var impGroups = [][]string{nil, {"g9"}, {"g9", "system:unauthenticated"}, {"system:authenticated"}, {""}, {"", "g9"}}
var impExtras = []map[string][]string{nil, {"Scopes": {"s"}}, {"%41bc": {"v"}}, {"Scopes": {"s", "t"}, "X-Y": {"z"}}}

// (a client may also name identity-bearing headers in its Connection header: a proxy deletes the headers listed there,
// which must hit only what the CLIENT sent, never what the gateway generates)
var others = []http.Header{nil, {"Impersonate-Uid": {"1234"}}, {"Impersonate-Foo": {"bar"}}, {"Impersonate-Userx": {"eve"}, "Impersonate-Extra": {"e"}},
	{"Connection": {"Impersonate-Group, Impersonate-Extra-Scopes"}}, {"Connection": {"Impersonate-User, Authorization"}}, {"Connection": {"keep-alive, impersonate-extra-scopes, impersonate-group, impersonate-user"}, "Impersonate-Uid": {"7"}}}
var casings = []string{"canonical", "lower", "UPPER"}

// authorizer behaviours: allow everything, deny the k-th check, error on the k-th check
type authzMode struct {
	kind string
	k    int
}

func recase(k, casing string) string {
	switch casing {
	case "lower":
		return strings.ToLower(k)
	case "UPPER":
		return strings.ToUpper(k)
	}
	return k
}

// ------------------------------------------------------------------ reference

type expectation struct {
	gatewayAnswers int // 0 = forwarded
	who            ident
}

func lowerKeys(m map[string][]string) map[string][]string {
	if len(m) == 0 {
		return map[string][]string{}
	}
	out := map[string][]string{}
	for k, v := range m {
		out[strings.ToLower(k)] = append(out[strings.ToLower(k)], v...)
	}
	return out
}

// reference: Kubernetes impersonation semantics (user / group / extra headers), all requested items must be allowed
func reference(auth ident, impUser string, impGroup []string, impExtra map[string][]string, mode authzMode) expectation {
	if impUser == "" {
		if len(impGroup) > 0 || len(impExtra) > 0 {
			return expectation{gatewayAnswers: 500}
		}
		return expectation{who: auth}
	}
	checks := 1 + len(impGroup)
	for _, v := range impExtra {
		checks += len(v)
	}
	if mode.kind != "allow" && mode.k < checks {
		return expectation{gatewayAnswers: 403}
	}
	who := ident{name: impUser, extra: map[string][]string{}}
	if ns, _, err := serviceaccount.SplitUsername(impUser); err == nil && len(impGroup) == 0 {
		who.groups = serviceaccount.MakeGroupNames(ns)
	}
	who.groups = append(who.groups, impGroup...)
	has := func(g string) bool {
		for _, x := range who.groups {
			if x == g {
				return true
			}
		}
		return false
	}
	if impUser != user.Anonymous {
		if !has(user.AllAuthenticated) && !has(user.AllUnauthenticated) {
			who.groups = append(who.groups, user.AllAuthenticated)
		}
	} else if !has(user.AllUnauthenticated) {
		who.groups = append(who.groups, user.AllUnauthenticated)
	}
	for k, v := range impExtra {
		key, err := url.PathUnescape(strings.ToLower(k))
		if err != nil {
			key = strings.ToLower(k)
		}
		who.extra[key] = append(who.extra[key], v...)
	}
	return expectation{who: who}
}

// decode what the upstream was told, the way kube-apiserver reads impersonation headers
func decode(h http.Header) (ident, []string) {
	var id ident
	var unknown []string
	id.extra = map[string][]string{}
	for k, vs := range h {
		switch {
		case k == "Impersonate-User":
			id.name = strings.Join(vs, "|")
		case k == "Impersonate-Group":
			id.groups = append(id.groups, vs...)
		case strings.HasPrefix(k, "Impersonate-Extra-"):
			key, err := url.PathUnescape(strings.ToLower(k[len("Impersonate-Extra-"):]))
			if err != nil {
				key = strings.ToLower(k[len("Impersonate-Extra-"):])
			}
			id.extra[key] = append(id.extra[key], vs...)
		case strings.HasPrefix(k, "Impersonate-"):
			unknown = append(unknown, fmt.Sprintf("%s: %q", k, vs))
		}
	}
	sort.Strings(unknown)
	return id, unknown
}

func sameIdent(a, b ident) bool {
	if a.name != b.name || !reflect.DeepEqual(append([]string{}, a.groups...), append([]string{}, b.groups...)) && !(len(a.groups) == 0 && len(b.groups) == 0) {
		return false
	}
	ea, eb := lowerKeys(a.extra), lowerKeys(b.extra)
	if len(ea) != len(eb) {
		return false
	}
	for k, v := range ea {
		w := append([]string{}, eb[k]...)
		v = append([]string{}, v...)
		sort.Strings(v)
		sort.Strings(w)
		if !reflect.DeepEqual(v, w) {
			return false
		}
	}
	return true
}

// ------------------------------------------------------------------ one case

type world struct {
	r  *e2e.Rig
	up *e2e.Upstream
}

func runCase(c *ev.Check, w *world, auth ident, authz []string, impUser string, impGroup []string, impExtra map[string][]string, other http.Header, casing string, mode authzMode) {
	c.Add("cases", 1)
	w.r.SetIdentity(&user.DefaultInfo{Name: auth.name, Groups: auth.groups, Extra: auth.extra})
	n := 0
	w.r.SetAuthorize(func(a authorizer.Attributes) (authorizer.Decision, string, error) {
		if a.GetVerb() != "impersonate" {
			return authorizer.DecisionAllow, "", nil
		}
		i := n
		n++
		if mode.kind == "deny" && i == mode.k {
			return authorizer.DecisionDeny, "denied by the cluster", nil
		}
		if mode.kind == "error" && i == mode.k {
			return authorizer.DecisionNoOpinion, "", fmt.Errorf("authorizer unavailable")
		}
		return authorizer.DecisionAllow, "", nil
	})
	h := http.Header{}
	set := func(k string, vs []string) {
		if len(vs) > 0 {
			h[recase(k, casing)] = vs
		}
	}
	set("Authorization", authz)
	if impUser != "" {
		set("Impersonate-User", []string{impUser})
	}
	set("Impersonate-Group", impGroup)
	for k, v := range impExtra {
		set("Impersonate-Extra-"+k, v)
	}
	for k, v := range other {
		set(k, v)
	}
	label := fmt.Sprintf("authenticated=%s%v%v client headers=%v (%s) authorizer=%v", auth.name, auth.groups, auth.extra, h, casing, mode)
	w.up.Requests()
	resp, body, err := w.r.Do("GET", "c1", "/api/v1/namespaces/ns/pods", h, nil)
	viol := func(key, f string, a ...interface{}) {
		c.Violation(key, label+": "+fmt.Sprintf(f, a...), map[string]interface{}{"authenticated": fmt.Sprint(auth), "client_headers": h, "authorizer": fmt.Sprint(mode)})
	}
	if err != nil {
		viol("client-error", "%v", err)
		return
	}
	want := reference(auth, impUser, impGroup, impExtra, mode)
	got := w.up.Requests()
	c.Outcome("outcomes", fmt.Sprintf("%d/%v/%v/%v/%v/%d", want.gatewayAnswers, impUser != "", len(impGroup), len(impExtra), len(other), len(authz)))
	if want.gatewayAnswers != 0 {
		if len(got) != 0 {
			viol("forwarded-despite-refusal", "the impersonation must be answered by the gateway (%d) but the upstream received the request as %v", want.gatewayAnswers, got[0].Header)
		}
		if resp.StatusCode != want.gatewayAnswers {
			viol("wrong-refusal-status", "answered %d, expected %d (%s)", resp.StatusCode, want.gatewayAnswers, trunc(body))
		}
		return
	}
	if len(got) != 1 {
		viol("not-forwarded", "expected the request to be forwarded once, the upstream received %d (gateway answered %d %s)", len(got), resp.StatusCode, trunc(body))
		return
	}
	g := got[0]
	if a := g.Header["Authorization"]; len(a) != 1 || a[0] != "Bearer "+e2e.GatewayToken {
		viol("client-credential-forwarded", "Authorization at the upstream is %q, expected only the gateway's own credential", a)
	}
	told, unknown := decode(g.Header)
	if len(unknown) > 0 {
		viol("client-impersonate-header-forwarded", "client-supplied header(s) of the Impersonate-* family reached the upstream: %v", unknown)
	}
	if !sameIdent(told, want.who) {
		viol("wrong-identity", "the upstream is told to act as %s %q %v, expected %s %q %v", told.name, told.groups, told.extra, want.who.name, want.who.groups, want.who.extra)
	}
}

// ------------------------------------------------------------------ the upgrade path (exec / attach / port-forward)
// Connection upgrades leave the reverse proxy and travel through the upgrade-aware handler and its own round tripper:
// a second door to the upstream, for which the same identity rules hold.

// rawHead sends a raw request and returns the response head (generous deadline; the connection is closed as soon as
// the head is complete - an upgraded connection would otherwise stay open)
func rawHead(r *e2e.Rig, raw string) ([]byte, error) {
	conn, err := net.DialTimeout("tcp", r.GW.Listener.Addr().String(), 20*time.Second)
	if err != nil {
		return nil, err
	}
	defer conn.Close()
	_ = conn.SetDeadline(time.Now().Add(20 * time.Second))
	if _, err := conn.Write([]byte(raw)); err != nil {
		return nil, err
	}
	var out []byte
	b := make([]byte, 1)
	for !strings.HasSuffix(string(out), "\r\n\r\n") {
		n, err := conn.Read(b)
		if n > 0 {
			out = append(out, b[0])
		}
		if err != nil {
			return out, err
		}
	}
	return out, nil
}

func upgradeCase(c *ev.Check, w *world, auth ident, authz []string, impUser string, impGroup []string, other http.Header, mode authzMode) {
	c.Add("cases", 1)
	c.Add("upgrade_cases", 1)
	w.r.SetIdentity(&user.DefaultInfo{Name: auth.name, Groups: auth.groups, Extra: auth.extra})
	n := 0
	w.r.SetAuthorize(func(a authorizer.Attributes) (authorizer.Decision, string, error) {
		if a.GetVerb() != "impersonate" {
			return authorizer.DecisionAllow, "", nil
		}
		i := n
		n++
		if mode.kind == "deny" && i == mode.k {
			return authorizer.DecisionDeny, "denied by the cluster", nil
		}
		return authorizer.DecisionAllow, "", nil
	})
	w.up.Requests()
	w.up.Respond = func(rw http.ResponseWriter, r *http.Request, _ *e2e.Captured) {
		conn, buf, err := rw.(http.Hijacker).Hijack()
		if err != nil {
			return
		}
		_, _ = buf.WriteString("HTTP/1.1 101 Switching Protocols\r\nConnection: Upgrade\r\nUpgrade: " + r.Header.Get("Upgrade") + "\r\n\r\n")
		_ = buf.Flush()
		conn.Close()
	}
	defer func() { w.up.Respond = nil }()
	raw := "POST /api/v1/namespaces/ns/pods/p/exec?command=id HTTP/1.1\r\nHost: c1\r\nConnection: Upgrade\r\nUpgrade: SPDY/3.1\r\nX-Stream-Protocol-Version: v4.channel.k8s.io\r\nContent-Length: 0\r\n"
	hdr := http.Header{}
	if len(authz) > 0 {
		hdr["Authorization"] = authz
	}
	if impUser != "" {
		hdr["Impersonate-User"] = []string{impUser}
	}
	if len(impGroup) > 0 {
		hdr["Impersonate-Group"] = impGroup
	}
	for k, v := range other {
		if k != "Connection" { // the upgrade needs the Connection header for itself
			hdr[k] = v
		}
	}
	var names []string
	for k := range hdr {
		names = append(names, k)
	}
	sort.Strings(names)
	for _, k := range names {
		for _, v := range hdr[k] {
			raw += k + ": " + v + "\r\n"
		}
	}
	answer, err := rawHead(w.r, raw+"\r\n")
	label := fmt.Sprintf("UPGRADE authenticated=%s%v%v client headers=%v authorizer=%v", auth.name, auth.groups, auth.extra, hdr, mode)
	viol := func(key, f string, a ...interface{}) {
		c.Violation("upgrade/"+key, label+": "+fmt.Sprintf(f, a...), map[string]interface{}{"authenticated": fmt.Sprint(auth), "client_headers": hdr, "authorizer": fmt.Sprint(mode), "upgrade": true})
	}
	if err != nil && len(answer) == 0 {
		viol("client-error", "%v", err)
		return
	}
	want := reference(auth, impUser, impGroup, nil, mode)
	got := w.up.Requests()
	c.Outcome("outcomes", fmt.Sprintf("upgrade/%d/%v/%v/%d", want.gatewayAnswers, impUser != "", len(impGroup), len(other)))
	if want.gatewayAnswers != 0 {
		if len(got) != 0 {
			viol("forwarded-despite-refusal", "the impersonation must be answered by the gateway (%d) but the upstream received the upgrade request as %v", want.gatewayAnswers, got[0].Header)
		}
		if !strings.HasPrefix(string(answer), fmt.Sprintf("HTTP/1.1 %d", want.gatewayAnswers)) {
			viol("wrong-refusal-status", "answered %q, expected status %d", trunc(answer), want.gatewayAnswers)
		}
		return
	}
	if len(got) != 1 {
		viol("not-forwarded", "expected the upgrade request to be forwarded once, the upstream received %d (gateway answered %q)", len(got), trunc(answer))
		return
	}
	g := got[0]
	// (with a bearer-token client configuration the upgrade path carries no Authorization at all - recorded by C04,
	// DESIGN.md 0.6; what must never happen is the CLIENT's credential arriving)
	for _, a := range g.Header["Authorization"] {
		if a != "Bearer "+e2e.GatewayToken {
			viol("client-credential-forwarded", "Authorization at the upstream is %q", g.Header["Authorization"])
		}
	}
	told, unknown := decode(g.Header)
	if len(unknown) > 0 {
		viol("client-impersonate-header-forwarded", "client-supplied header(s) of the Impersonate-* family reached the upstream: %v", unknown)
	}
	if !sameIdent(told, want.who) {
		viol("wrong-identity", "the upstream is told to act as %s %q %v, expected %s %q %v", told.name, told.groups, told.extra, want.who.name, want.who.groups, want.who.extra)
	}
}

// ------------------------------------------------------------------ the real authorizer and its decision cache
// The product above scripts the authorizer. Here the gateway's own MultiClusterSubjectAccessReviewAuthorizer (with its
// per-cluster decision cache, long TTL) sits in the chain and the stub upstream answers the SubjectAccessReviews from a
// policy that depends on WHO asks: a permission to impersonate granted to one requestor must not be replayed for
// another requestor who differs in name, groups or extra.

type requestor struct {
	label string
	id    ident
}

var requestors = []requestor{
	{"alice/E1", ident{"alice", []string{"dev", "system:authenticated"}, map[string][]string{"scopes": {"full"}}}},
	{"alice/E2", ident{"alice", []string{"dev", "system:authenticated"}, map[string][]string{"scopes": {"read"}}}},
	{"alice/no-extra", ident{"alice", []string{"dev", "system:authenticated"}, nil}},
	{"alice/other-group", ident{"alice", []string{"ops", "system:authenticated"}, map[string][]string{"scopes": {"full"}}}},
	{"alice2", ident{"alice2", []string{"dev", "system:authenticated"}, map[string][]string{"scopes": {"full"}}}},
}

// policies: which requestors the upstream's authorizer lets impersonate
var sarPolicies = map[string]func(u string, groups []string, extra map[string][]string) bool{
	"by extra": func(u string, g []string, e map[string][]string) bool {
		return len(e["scopes"]) == 1 && e["scopes"][0] == "full"
	},
	"by group": func(u string, g []string, e map[string][]string) bool { return has(g, "dev") },
	"by name":  func(u string, g []string, e map[string][]string) bool { return u == "alice" },
	"all three": func(u string, g []string, e map[string][]string) bool {
		return u == "alice" && has(g, "dev") && len(e["scopes"]) == 1 && e["scopes"][0] == "full"
	},
}

func has(l []string, x string) bool {
	for _, y := range l {
		if y == x {
			return true
		}
	}
	return false
}

func realAuthorizer(c *ev.Check) {
	var pnames []string
	for n := range sarPolicies {
		pnames = append(pnames, n)
	}
	sort.Strings(pnames)
	for _, pn := range pnames {
		allowed := sarPolicies[pn]
		seqLen := c.Pick(2, 3)
		var rec func(seq []int)
		rec = func(seq []int) {
			if len(seq) == seqLen {
				// how the target cluster says "no": denied, no opinion at all, or - a confused authorizer chain - allowed
				// and denied at once; none of them is an allowance
				for _, shape := range []string{"denied", "no-opinion", "allowed+denied"} {
					runRealSeq(c, pn, allowed, seq, shape)
				}
				return
			}
			for i := range requestors {
				rec(append(append([]int{}, seq...), i))
			}
		}
		rec(nil)
	}
}

func runRealSeq(c *ev.Check, pn string, allowed func(string, []string, map[string][]string) bool, seq []int, noShape string) {
	pn = pn + ", refusals answered as " + noShape
	w := &world{r: e2e.New(), up: e2e.NewUpstream("u1")}
	defer func() { w.r.Close(); w.up.Close() }()
	w.r.AddCluster(e2e.ClusterObject("c1", w.up), nil)
	w.r.Real = sarwebhook.NewMultiClusterSubjectAccessReviewAuthorizer(w.r.Manager, time.Hour, time.Hour)
	reviews := 0
	w.up.Respond = func(rw http.ResponseWriter, r *http.Request, cap *e2e.Captured) {
		if strings.HasSuffix(r.URL.Path, "/subjectaccessreviews") {
			var sar authorizationv1.SubjectAccessReview
			_ = json.Unmarshal(cap.Body, &sar)
			extra := map[string][]string{}
			for k, v := range sar.Spec.Extra {
				extra[k] = []string(v)
			}
			reviews++
			sar.Status = authorizationv1.SubjectAccessReviewStatus{Allowed: allowed(sar.Spec.User, sar.Spec.Groups, extra)}
			if !sar.Status.Allowed {
				sar.Status.Reason = "policy " + pn
				switch noShape {
				case "denied":
					sar.Status.Denied = true
				case "allowed+denied":
					sar.Status.Allowed, sar.Status.Denied = true, true
				}
			}
			rw.Header().Set("Content-Type", "application/json")
			rw.WriteHeader(201)
			_ = json.NewEncoder(rw).Encode(&sar)
			return
		}
		rw.Header().Set("Content-Type", "application/json")
		rw.WriteHeader(200)
		_, _ = rw.Write([]byte("{}"))
	}
	var labels []string
	for step, i := range seq {
		q := requestors[i]
		labels = append(labels, q.label)
		c.Add("cases", 1)
		c.Add("real_authorizer_requests", 1)
		w.r.SetIdentity(&user.DefaultInfo{Name: q.id.name, Groups: q.id.groups, Extra: q.id.extra})
		w.up.Requests()
		resp, body, err := w.r.Do("GET", "c1", "/api/v1/namespaces/ns/pods", http.Header{"Impersonate-User": {"carol"}}, nil)
		label := fmt.Sprintf("real authorizer, policy [%s], requestors in order %v (step %d)", pn, labels, step+1)
		viol := func(key, f string, a ...interface{}) {
			c.Violation("real-authorizer/"+key, label+": "+fmt.Sprintf(f, a...), map[string]interface{}{"policy": pn, "requestors": labels})
		}
		if err != nil {
			viol("client-error", "%v", err)
			return
		}
		want := allowed(q.id.name, q.id.groups, q.id.extra)
		var proxied []*e2e.Captured
		for _, r := range w.up.Requests() {
			if !strings.HasSuffix(r.Path, "/subjectaccessreviews") {
				proxied = append(proxied, r)
			}
		}
		c.Outcome("outcomes", fmt.Sprintf("real/%s/%v/%d", pn, want, resp.StatusCode))
		if want {
			if len(proxied) != 1 || proxied[0].Header.Get("Impersonate-User") != "carol" {
				viol("allowed-impersonation-not-forwarded", "%s may impersonate carol, but the request was answered %d %s (upstream saw %d requests)", q.label, resp.StatusCode, trunc(body), len(proxied))
			}
		} else {
			if len(proxied) != 0 {
				viol("forwarded-despite-refusal", "%s is NOT allowed to impersonate by the target cluster, yet the request was forwarded as %q (a decision obtained for another requestor was replayed; reviews sent so far: %d)", q.label, proxied[0].Header.Get("Impersonate-User"), reviews)
			} else if resp.StatusCode != 403 && !(noShape == "allowed+denied" && resp.StatusCode == 500) {
				viol("wrong-refusal-status", "answered %d, expected 403", resp.StatusCode)
			}
		}
	}
}

func trunc(b []byte) string {
	if len(b) > 120 {
		b = b[:120]
	}
	return string(b)
}

func main() {
	c := ev.Start("C02", "exploration")
	c.Assume = []string{
		"the gateway's real handler chain with a stub authenticator (returns the case's identity) and a stub authorizer (allow / deny the k-th impersonation check / error on the k-th); loopback HTTP/1.1, so header-name case is normalised by Go's server as it would be for any client",
		"reference = Kubernetes impersonation semantics written independently in h/c02; identities are compared as the upstream decodes them (extra keys lower-cased and percent-decoded; extra keys compared case-insensitively because HTTP field names carry no case)",
		"an authenticated identity without any group cannot be expressed by impersonation headers and is compared by name and extra only",
	}
	base := ident{name: "alice", groups: []string{"g1", "system:authenticated"}}
	allow := authzMode{"allow", 0}
	var modes = []authzMode{allow, {"deny", 0}, {"deny", 1}, {"deny", 2}, {"error", 0}, {"error", 1}}
	mkWorld := func() *world {
		w := &world{r: e2e.New(), up: e2e.NewUpstream("u1")}
		w.r.AddCluster(e2e.ClusterObject("c1", w.up), nil)
		return w
	}
	var tasks []ev.Task
	// every dimension fully against defaults
	tasks = append(tasks, ev.Task{Name: "dimensions", Run: func() {
		w := mkWorld()
		defer func() { w.r.Close(); w.up.Close() }()
		for _, n := range names {
			for _, g := range groupSets {
				for _, e := range extras {
					runCase(c, w, ident{n, g, e}, nil, "", nil, nil, nil, "canonical", allow)
				}
			}
		}
		for _, a := range authHeaders {
			for _, cs := range casings {
				runCase(c, w, base, a, "", nil, nil, nil, cs, allow)
			}
		}
		for _, o := range others {
			for _, cs := range casings {
				runCase(c, w, base, nil, "", nil, nil, o, cs, allow)
				runCase(c, w, base, nil, "bob", nil, nil, o, cs, allow)
			}
		}
	}})
	// the client-header product x authorizer modes (quick: canonical casing for the product, all casings for pairs; thorough: all casings)
	for ui, iu := range impUsers {
		iu := iu
		tasks = append(tasks, ev.Task{Name: fmt.Sprintf("header-product-%d", ui), Run: func() {
			w := mkWorld()
			defer func() { w.r.Close(); w.up.Close() }()
			cs := casings[:1]
			if c.Thorough() {
				cs = casings
			}
			for _, ig := range impGroups {
				for _, ie := range impExtras {
					for _, o := range others {
						for _, a := range authHeaders {
							for _, m := range modes {
								for _, casing := range cs {
									runCase(c, w, base, a, iu, ig, ie, o, casing, m)
								}
							}
						}
					}
				}
			}
		}})
	}
	// identity x impersonation pairs, and casing x everything pairs
	tasks = append(tasks, ev.Task{Name: "identity-x-impersonation", Run: func() {
		w := mkWorld()
		defer func() { w.r.Close(); w.up.Close() }()
		for _, n := range names {
			for _, e := range extras {
				for _, iu := range impUsers {
					for _, o := range others {
						runCase(c, w, ident{n, groupSets[2], e}, authHeaders[1], iu, nil, nil, o, "canonical", allow)
					}
				}
			}
		}
		for _, casing := range casings[1:] {
			for _, iu := range impUsers {
				for _, ig := range impGroups {
					for _, ie := range impExtras {
						runCase(c, w, base, authHeaders[1], iu, ig, ie, others[1], casing, allow)
					}
				}
			}
		}
	}})
	tasks = append(tasks, ev.Task{Name: "upgrade-path", Run: func() {
		w := mkWorld()
		defer func() { w.r.Close(); w.up.Close() }()
		for _, n := range names {
			for _, e := range extras {
				upgradeCase(c, w, ident{n, groupSets[2], e}, nil, "", nil, nil, allow)
			}
		}
		for _, a := range authHeaders {
			for _, iu := range impUsers {
				for _, ig := range impGroups {
					for _, o := range others {
						for _, m := range []authzMode{allow, {"deny", 0}, {"deny", 1}} {
							upgradeCase(c, w, base, a, iu, ig, o, m)
						}
					}
				}
			}
		}
	}})
	tasks = append(tasks, ev.Task{Name: "real-authorizer", Run: func() { realAuthorizer(c) }})
	c.RunTasks(tasks)
	c.Finish(map[string]interface{}{
		"real_authorizer_requests": c.Counter("real_authorizer_requests"),
		"upgrade_cases":            c.Counter("upgrade_cases"),
		"evaluations":              c.Counter("cases"),
		"distinct_nontrivial":      c.DistinctCount("outcomes"),
		"rule":                     "authenticated identity (7 names incl. spaces, UTF-8, percent, comma x 5 group lists x 6 extra maps) fully; the product of client headers Authorization (3) x Impersonate-User (4) x Impersonate-Group (6, incl. an empty first value) x Impersonate-Extra-* (4) x other Impersonate-* members / Connection headers naming identity headers (7) x authorizer behaviour (6: allow, deny/err the k-th check) with canonical header names (all three casings in the thorough tier), plus identity x impersonation and casing x impersonation pairs; and the upgrade path (SPDY exec): identities, and Authorization x Impersonate-User x Impersonate-Group x others x {allow, deny 1st, deny 2nd}. Distinct = (gateway answer class, which header families were present).",
	})
}
