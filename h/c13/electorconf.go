package main

// Elector conformance: the leadership histories deliver the elector's callbacks themselves (gain / lose / other) and
// state which orders client-go produces. Here the real thing runs: two limiter servers' leaderElectors (client-go
// leader election over one fake API, leases of 600 ms) compete for shard 0, the harness makes the current leader's
// lease updates fail three times in a row, and what each server's elector reported - OnStartedLeading,
// OnStoppedLeading, and every change of the leader it knows - is recorded in order. Each recorded trace is compared with
// the orders the histories assume (recorded in the evidence) and must be accepted step by step by the leadership spec
// on the real rateLimiter, with requests between the callbacks.

import (
	"context"
	"fmt"
	"strings"
	"sync"
	"time"

	coordinationv1 "k8s.io/api/coordination/v1"
	metav1 "k8s.io/apimachinery/pkg/apis/meta/v1"
	"k8s.io/apimachinery/pkg/runtime"
	k8sfake "k8s.io/client-go/kubernetes/fake"
	k8stesting "k8s.io/client-go/testing"
	componentbaseconfig "k8s.io/component-base/config"

	"github.com/kubewharf/kubegateway/pkg/ratelimiter/limiter/elector"

	"verifh/ev"
	"verifh/limrig"
)

type electorTrace struct {
	mu     sync.Mutex
	events []string // gain | lose | sees:<id>
}

func (t *electorTrace) add(e string) {
	t.mu.Lock()
	t.events = append(t.events, e)
	t.mu.Unlock()
}

func (t *electorTrace) has(e string, from int) bool {
	t.mu.Lock()
	defer t.mu.Unlock()
	for _, x := range t.events[from:] {
		if x == e {
			return true
		}
	}
	return false
}

func (t *electorTrace) len() int { t.mu.Lock(); defer t.mu.Unlock(); return len(t.events) }

func electorConformance(c *ev.Check) {
	api := k8sfake.NewSimpleClientset()
	var mu sync.Mutex
	blocked := map[string]bool{}
	api.PrependReactor("update", "leases", func(a k8stesting.Action) (bool, runtime.Object, error) {
		l, ok := a.(k8stesting.UpdateAction).GetObject().(*coordinationv1.Lease)
		if !ok || l.Spec.HolderIdentity == nil {
			return false, nil, nil
		}
		mu.Lock()
		b := blocked[*l.Spec.HolderIdentity]
		mu.Unlock()
		if b {
			return true, nil, fmt.Errorf("the API server does not answer %s", *l.Spec.HolderIdentity)
		}
		return false, nil, nil
	})
	cfg := componentbaseconfig.LeaderElectionConfiguration{ResourceLock: "leases", ResourceNamespace: "ns", ResourceName: "limiter",
		LeaseDuration: metav1.Duration{Duration: 600 * time.Millisecond}, RenewDeadline: metav1.Duration{Duration: 400 * time.Millisecond}, RetryPeriod: metav1.Duration{Duration: 100 * time.Millisecond}}
	ctx, cancel := context.WithCancel(context.Background())
	defer cancel()
	ids := []string{"server-a", "server-b"}
	traces := map[string]*electorTrace{}
	electors := map[string]elector.LeaderElector{}
	start := func(id string) bool {
		e, err := elector.NewLeaderElector(cfg, api, id, 1)
		if err != nil {
			c.EngineError("elector conformance: " + err.Error())
			return false
		}
		t := &electorTrace{}
		traces[id], electors[id] = t, e
		e.SetCallbacks(elector.LeaderCallbacks{OnStartedLeading: func(int) { t.add("gain") }, OnStoppedLeading: func(int) { t.add("lose") }})
		e.Run(ctx)
		go func() { // what the elector knows as the shard's leader, sampled
			last := ""
			for ctx.Err() == nil {
				if cur := e.GetLeaders()[0].Leader; cur != last {
					t.add("sees:" + cur)
					last = cur
				}
				time.Sleep(time.Millisecond)
			}
		}()
		return true
	}
	wait := func(what string, cond func() bool) bool {
		for d := time.Now().Add(30 * time.Second); time.Now().Before(d); time.Sleep(2 * time.Millisecond) {
			if cond() {
				return true
			}
		}
		c.EngineError("elector conformance: " + what + " did not happen within 30 s")
		return false
	}
	leaderNow := func() string {
		for _, id := range ids {
			if e := electors[id]; e != nil && e.IsLeader(0) {
				return id
			}
		}
		return ""
	}
	if !start("server-a") || !wait("server-a gains the shard", func() bool { return traces["server-a"].has("gain", 0) }) {
		return
	}
	if !start("server-b") || !wait("server-b learns of the leader", func() bool { return traces["server-b"].has("sees:server-a", 0) }) {
		return
	}
	for round := 0; round < 3; round++ {
		var cur string
		if !wait("a leader exists", func() bool { cur = leaderNow(); return cur != "" }) {
			return
		}
		other := ids[0]
		if cur == ids[0] {
			other = ids[1]
		}
		mark, markO := traces[cur].len(), traces[other].len()
		mu.Lock()
		blocked[cur] = true
		mu.Unlock()
		ok := wait(cur+" stops leading", func() bool { return traces[cur].has("lose", mark) }) &&
			wait(other+" starts leading", func() bool { return traces[other].has("gain", markO) })
		mu.Lock()
		blocked[cur] = false
		mu.Unlock()
		if !ok || !wait(cur+" learns of the new leader", func() bool { return traces[cur].has("sees:"+other, mark) }) {
			return
		}
	}
	cancel()
	time.Sleep(50 * time.Millisecond)
	// (a) the orders the leadership histories assume, (b) the spec accepts every recorded trace
	for _, id := range ids {
		t := traces[id]
		t.mu.Lock()
		evs := append([]string{}, t.events...)
		t.mu.Unlock()
		c.Add("elector_trace_events", int64(len(evs)))
		c.Note("elector_trace_"+id, strings.Join(evs, " "))
		leading := false
		for i, e := range evs {
			switch e {
			case "gain":
				if leading {
					// (client-go starts OnStartedLeading in a goroutine of its own; under CPU starvation it can run after the
					// OnStoppedLeading of the same term. Recorded, not judged: the replay below decides what comes of a trace)
					c.Add("elector_order_anomalies", 1)
					c.Note("elector_order_anomaly", fmt.Sprintf("%s: OnStartedLeading delivered while leading (event %d of %v)", id, i, evs))
				}
				leading = true
			case "lose":
				leading = false
			}
		}
		sp := specLeader("local")
		sys := sp.New()
		var hist []string
		for _, e := range evs {
			var me string
			switch {
			case e == "gain":
				me = "gain 0"
			case e == "lose":
				me = "lose 0"
			case e == "sees:"+id || e == "sees:":
				continue // its own identity is set by the gain itself; an emptied entry by the loss
			default:
				me = "other 0"
			}
			for _, step := range []string{me, "report 0", "acquire 0", "leaderCheck", "report 0"} {
				hist = append(hist, step)
				c.Add("transitions", 1)
				if err := sp.Apply(sys, step); err != nil {
					c.Violation("elector-conformance/"+strings.SplitN(err.Error(), ":", 2)[0], fmt.Sprintf("the callbacks the real elector of %s delivered, replayed on the rateLimiter with requests in between: %v", id, err), map[string]interface{}{"spec": sp.Name, "history": hist})
					break
				}
			}
		}
		if sp.Close != nil {
			sp.Close(sys)
		}
		c.Add("elector_traces_replayed", 1)
	}
	_ = limrig.Me
}
