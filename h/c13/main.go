// C13 — sharding: one shard per upstream on both sides; only its leader serves it.
//
//	C (enum): names x shard counts through the real gateway-side clientSets and
//	  the real limiter server: range, determinism, agreement of both sides, and
//	  requests addressed to the leader of the computed shard — across sequences of
//	  shard-count changes on one live clientSets.
//	B (xstate): leadership histories (gain / lose / other leader / leaderCheck)
//	  interleaved with reports, acquires, cluster updates/deletions and cleanups
//	  on the real rateLimiter + leaderElector with the local and the k8s store.
package main

import (
	"context"
	"encoding/json"
	"fmt"
	"net/http"
	"net/http/httptest"
	"strings"
	"sync"
	"time"

	apierrors "k8s.io/apimachinery/pkg/api/errors"
	"k8s.io/apimachinery/pkg/runtime"
	"k8s.io/client-go/rest"
	k8stesting "k8s.io/client-go/testing"

	proxyv1alpha1 "github.com/kubewharf/kubegateway/pkg/apis/proxy/v1alpha1"
	"github.com/kubewharf/kubegateway/pkg/ratelimiter/clientsets"
	limutil "github.com/kubewharf/kubegateway/pkg/ratelimiter/util"
	"github.com/kubewharf/kubegateway/pkg/zzverif/vsched"
	"github.com/kubewharf/kubegateway/pkg/zzverif/vtime"

	"verifh/ev"
	"verifh/kit"
	"verifh/limrig"
	"verifh/xa"
	"verifh/xstate"
)

// ------------------------------------------------------------------ names

func names(thorough bool) []string {
	alpha := []byte{0x00, 0x01, ' ', '-', '.', '/', '0', '9', ':', 'A', 'Z', '_', 'a', 'b', 'z', '~', 0x7f, 0x80, 0xc3, 0xa9, 0xe4, 0xbd, 0xfe, 0xff}
	out := []string{""}
	for _, a := range alpha {
		out = append(out, string([]byte{a}))
		for _, b := range alpha {
			out = append(out, string([]byte{a, b}))
		}
	}
	n := 2000
	if thorough {
		n = 100000
	}
	pat := []string{"cluster-%d", "prod-eu-%d.k8s.example.com", "k8s-%04d", "%d", "TENANT-%d", "a.b.c.d.%d.svc.cluster.local"}
	for i := 0; i < n; i++ {
		out = append(out, fmt.Sprintf(pat[i%len(pat)], i))
	}
	return out
}

// ------------------------------------------------------------------ C: gateway side vs server side

type stubs struct {
	mu      sync.Mutex
	servers []*httptest.Server
	n       int                                                  // shard count currently advertised
	answer  func(self string) *proxyv1alpha1.RateLimitServerInfo // when set: the server-info answer to give
	hits    [][]string                                           // per server: probe paths received
}

func newStubs(k int) *stubs {
	s := &stubs{hits: make([][]string, k)}
	for i := 0; i < k; i++ {
		i := i
		srv := httptest.NewServer(http.HandlerFunc(func(w http.ResponseWriter, r *http.Request) {
			s.mu.Lock()
			defer s.mu.Unlock()
			switch {
			case r.URL.Path == clientsets.ServerInfoUrl:
				if s.answer != nil {
					_ = json.NewEncoder(w).Encode(s.answer(s.servers[i].URL))
					return
				}
				info := proxyv1alpha1.RateLimitServerInfo{Server: s.servers[i].URL, ShardCount: int32(s.n)}
				for sh := 0; sh < s.n && sh < 64; sh++ {
					info.Endpoints = append(info.Endpoints, proxyv1alpha1.EndpointInfo{ShardID: int32(sh), Leader: s.servers[sh%len(s.servers)].URL})
				}
				_ = json.NewEncoder(w).Encode(info)
			case strings.HasPrefix(r.URL.Path, "/probe/"):
				s.hits[i] = append(s.hits[i], strings.TrimPrefix(r.URL.Path, "/probe/"))
				w.WriteHeader(200)
			default:
				w.WriteHeader(200)
			}
		}))
		s.servers = append(s.servers, srv)
	}
	return s
}

func (s *stubs) close() {
	for _, x := range s.servers {
		x.Close()
	}
}

func gatewaySide(c *ev.Check, nseq []int, probeNames []string, all []string) {
	st := newStubs(5)
	defer st.close()
	v, cs := clientsets.VerifNew(st.servers[0].URL, "gw1", &rest.Config{QPS: 10000, Burst: 10000})
	if _, err := cs.ShardIDFor("x"); err == nil {
		c.Violation("gateway/shard-before-sync", "ShardIDFor answered before any server told the shard count", nil)
	}
	for step, n := range nseq {
		st.mu.Lock()
		st.n = n
		st.mu.Unlock()
		v.Sync()
		// server side with the same N: the function the limiter server's request paths call (serverSide() below checks that they do)
		rig := serverShards(n)
		for _, name := range all {
			c.Add("shard_evaluations", 1)
			g, err := cs.ShardIDFor(name)
			if err != nil {
				c.Violation("gateway/shard-error", fmt.Sprintf("N=%d name %q: %v", n, name, err), nil)
				continue
			}
			if g < 0 || g >= n {
				c.Violation("gateway/out-of-range", fmt.Sprintf("N=%d name %q: shard %d", n, name, g), nil)
			}
			if g2, _ := cs.ShardIDFor(name); g2 != g {
				c.Violation("gateway/nondeterministic", fmt.Sprintf("N=%d name %q: %d then %d", n, name, g, g2), nil)
			}
			srv := rig.Shard(name)
			c.Outcome("shards_seen", fmt.Sprintf("%d/%d", n, g))
			if srv != g {
				c.Violation("sides-disagree", fmt.Sprintf("after shard counts %v (now N=%d) the gateway maps %q to shard %d, the limiter server to shard %d", nseq[:step+1], n, name, g, srv),
					map[string]interface{}{"shard_count_sequence": nseq[:step+1], "name": name})
			}
		}
		// requests go to the server known as leader of the shard
		if n <= 64 {
			for _, name := range probeNames {
				g, _ := cs.ShardIDFor(name)
				cl, err := cs.ClientFor(name)
				if err != nil {
					c.Violation("gateway/no-client", fmt.Sprintf("N=%d name %q shard %d: %v", n, name, g, err), nil)
					continue
				}
				tag := fmt.Sprintf("s%d-%d", step, c.Counter("probes"))
				c.Add("probes", 1)
				_ = cl.ProxyV1alpha1().RESTClient().Get().AbsPath("/probe/" + tag).Do(context.TODO()).Error()
				want := rig.Shard(name) % len(st.servers)
				st.mu.Lock()
				got := -1
				for i, h := range st.hits {
					for _, t := range h {
						if t == tag {
							got = i
						}
					}
				}
				st.mu.Unlock()
				if got != want {
					c.Violation("wrong-leader-addressed", fmt.Sprintf("after shard counts %v: request for upstream %q went to server #%d, the leader of its shard %d is server #%d", nseq[:step+1], name, got, rig.Shard(name), want),
						map[string]interface{}{"shard_count_sequence": nseq[:step+1], "name": name})
				}
			}
		}
	}
}

// leaderKnowledge: sequences of server-info answers that are partial (a shard has no known leader yet: the limiter
// server only lists shards whose lease it has observed), re-ordered, or re-assign leaders. After each answer every
// upstream's request must reach the server LAST REPORTED as leader of its shard, and must not be sent anywhere while
// no leader was ever reported for that shard.
type infoAnswer struct {
	mask  uint // which shards are listed
	rot   int  // leader of shard sh is server (sh+rot)%k
	order int  // 0 ascending shard ids, 1 descending
}

func (a infoAnswer) String() string {
	return fmt.Sprintf("{listed=%03b rot=%d order=%d}", a.mask, a.rot, a.order)
}

func leaderKnowledge(c *ev.Check, n int, seq []infoAnswer, probeNames []string) {
	st := newStubs(4)
	defer st.close()
	v, cs := clientsets.VerifNew(st.servers[0].URL, "gw1", &rest.Config{QPS: 10000, Burst: 10000})
	known := map[int]int{}
	for step, a := range seq {
		a := a
		st.mu.Lock()
		st.answer = func(self string) *proxyv1alpha1.RateLimitServerInfo {
			info := &proxyv1alpha1.RateLimitServerInfo{Server: self, ShardCount: int32(n)}
			for i := 0; i < n; i++ {
				sh := i
				if a.order == 1 {
					sh = n - 1 - i
				}
				if a.mask&(1<<uint(sh)) != 0 {
					info.Endpoints = append(info.Endpoints, proxyv1alpha1.EndpointInfo{ShardID: int32(sh), Leader: st.servers[(sh+a.rot)%len(st.servers)].URL})
				}
			}
			return info
		}
		st.mu.Unlock()
		v.Sync()
		for sh := 0; sh < n; sh++ {
			if a.mask&(1<<uint(sh)) != 0 {
				known[sh] = (sh + a.rot) % len(st.servers)
			}
		}
		c.Add("knowledge_steps", 1)
		for _, name := range probeNames {
			sh := limutil.GetShardID(name, n)
			want, has := known[sh]
			cl, err := cs.ClientFor(name)
			replay := map[string]interface{}{"shards": n, "answers": fmt.Sprint(seq[:step+1]), "name": name}
			if !has {
				if err == nil {
					c.Violation("leaderless-shard-addressed", fmt.Sprintf("N=%d after answers %v: no leader was ever reported for shard %d, but a request for upstream %q (shard %d) is handed a client", n, seq[:step+1], sh, name, sh), replay)
				}
				c.Outcome("knowledge", fmt.Sprintf("%d/%v/none", n, a))
				continue
			}
			if err != nil {
				c.Violation("known-leader-not-addressed", fmt.Sprintf("N=%d after answers %v: server #%d was reported as leader of shard %d, but a request for upstream %q fails: %v", n, seq[:step+1], want, sh, name, err), replay)
				continue
			}
			tag := fmt.Sprintf("k%d-%d", step, c.Counter("probes"))
			c.Add("probes", 1)
			_ = cl.ProxyV1alpha1().RESTClient().Get().AbsPath("/probe/" + tag).Do(context.TODO()).Error()
			st.mu.Lock()
			got := -1
			for i, h := range st.hits {
				for _, t := range h {
					if t == tag {
						got = i
					}
				}
			}
			st.mu.Unlock()
			c.Outcome("knowledge", fmt.Sprintf("%d/%v/%d", n, a, got))
			if got != want {
				c.Violation("wrong-leader-addressed", fmt.Sprintf("N=%d after answers %v: the request for upstream %q (shard %d) went to server #%d; the leader last reported for that shard is server #%d", n, seq[:step+1], name, sh, got, want), replay)
			}
		}
	}
}

func knowledgeTasks(c *ev.Check) []ev.Task {
	var tasks []ev.Task
	for _, n := range []int{2, 3} {
		n := n
		// one probe name per shard
		var probeNames []string
		for sh := 0; sh < n; sh++ {
			for i := 0; ; i++ {
				if nm := fmt.Sprintf("up-%d", i); limutil.GetShardID(nm, n) == sh {
					probeNames = append(probeNames, nm)
					break
				}
			}
		}
		var answers []infoAnswer
		for mask := uint(0); mask < 1<<uint(n); mask++ {
			for rot := 0; rot < 2; rot++ {
				for order := 0; order < 2; order++ {
					if (mask == 0 && (rot > 0 || order > 0)) || (mask&(mask-1) == 0 && order > 0) {
						continue // same answer
					}
					answers = append(answers, infoAnswer{mask, rot, order})
				}
			}
		}
		depth := c.Pick(2, 3)
		if n == 2 {
			depth = 3
		}
		for _, first := range answers {
			first := first
			tasks = append(tasks, ev.Task{Name: fmt.Sprintf("leader-knowledge/N=%d/%v", n, first), Run: func() {
				var rec func(seq []infoAnswer)
				rec = func(seq []infoAnswer) {
					if len(seq) == depth {
						leaderKnowledge(c, n, seq, probeNames)
						c.Add("knowledge_sequences", 1)
						return
					}
					for _, a := range answers {
						rec(append(append([]infoAnswer{}, seq...), a))
					}
				}
				rec([]infoAnswer{first})
			}})
		}
	}
	return tasks
}

type serverShards int

func (n serverShards) Shard(name string) int { return limutil.GetShardID(name, int(n)) }

// serverSide: the real limiter serves a name exactly under the shard the mapping names.
func serverSide(c *ev.Check, n int, probe []string) {
	for lead := 0; lead < n; lead++ {
		rig := limrig.New(n, "local")
		rig.Gain(lead)
		for _, name := range probe {
			c.Add("server_side_evaluations", 1)
			cl := limrig.MIFCluster(name, "s", proxyv1alpha1.GlobalCountLimit, 1, 5)
			_ = rig.ApplyCluster(cl)
			_, err := rig.L.DoAcquire(name, limrig.Acquire(name, "i1", "s", 1, 1))
			served := err == nil
			if served != (rig.Shard(name) == lead) {
				c.Violation("server/serves-foreign-shard", fmt.Sprintf("N=%d leader of shard %d only: upstream %q (shard %d) served=%v err=%v", n, lead, name, rig.Shard(name), served, err), nil)
			}
		}
	}
}

// ------------------------------------------------------------------ B: leadership histories

type sysL struct {
	rig    *limrig.Rig
	leader [2]string // "", me, other
	ups    [2]string // upstream of shard 0 / shard 1
	inList [2]bool
	nextID int64
	store  string
	// pending[sh]: OnNewLeader(other) arrived while this server was leading shard sh; client-go then always
	// delivers OnStoppedLeading next (same goroutine: renew fails, Run returns), never OnStartedLeading
	pending [2]bool
	apiDown bool // (store kind k8s-writeback-api-failures) the control plane refuses writes
}

func findUpstreams() [2]string {
	var u [2]string
	for i := 0; u[0] == "" || u[1] == ""; i++ {
		n := fmt.Sprintf("up%d", i)
		s := limrig.New(2, "local").Shard(n)
		if u[s] == "" {
			u[s] = n
		}
	}
	return u
}

var ups = findUpstreams()

func specLeader(store string) xstate.Spec {
	schemas := []string{"s"}
	return xstate.Spec{
		Name: "leadership-" + store,
		New: func() interface{} {
			vsched.InlineGo = true
			s := &sysL{rig: limrig.New(2, store), ups: ups, store: store}
			if store == "k8s-writeback-api-failures" {
				// write-back mode again, with the API refusing writes as one more thing that can happen: the final flush of
				// a shard that is given up then fails (the server retries with virtual sleeps, then drops the store)
				vtime.SetVirtual(time.Unix(1700000000, 0))
				s.rig = limrig.NewWithSyncPeriod(2, "k8s", 24*time.Hour)
				s.rig.GW.PrependReactor("*", "ratelimitconditions", func(a k8stesting.Action) (bool, runtime.Object, error) {
					if s.apiDown && (a.GetVerb() == "create" || a.GetVerb() == "update" || a.GetVerb() == "delete") {
						return true, nil, apierrors.NewServiceUnavailable("the control plane refuses writes")
					}
					return false, nil, nil
				})
			}
			if store == "k8s-writeback" {
				// the limiter binary's default for --limit-store=k8s: conditions are written to the API by a periodic flush
				// (never reached in a run) and by the final flush when the shard is given up
				s.rig = limrig.NewWithSyncPeriod(2, "k8s", 24*time.Hour)
			}
			// both clusters exist in the lister from the start
			for i, u := range s.ups {
				_ = s.rig.Indexer.Add(limrig.MIFCluster(u, "s", proxyv1alpha1.GlobalCountLimit, 1, 5))
				s.inList[i] = true
			}
			return s
		},
		Events: func(si interface{}) []string {
			var evs []string
			for sh := 0; sh < 2; sh++ {
				evs = append(evs, fmt.Sprintf("gain %d", sh), fmt.Sprintf("lose %d", sh), fmt.Sprintf("other %d", sh))
			}
			evs = append(evs, "leaderCheck")
			for sh := 0; sh < 2; sh++ {
				evs = append(evs, fmt.Sprintf("report %d", sh), fmt.Sprintf("acquire %d", sh), fmt.Sprintf("clusterUpdate %d", sh), fmt.Sprintf("clusterDelete %d", sh))
			}
			evs = append(evs, "cleanup")
			if store == "k8s-writeback-api-failures" {
				evs = append(evs, "api-down", "api-up")
			}
			return evs
		},
		Apply: func(si interface{}, e string) error {
			s := si.(*sysL)
			var op string
			var sh int
			fmt.Sscanf(e, "%s %d", &op, &sh)
			u := s.ups[sh]
			before := s.rig.Dump(s.ups[:], schemas)
			isLeader := s.leader[sh] == limrig.Me
			refusal := func(err error) error {
				if err == nil {
					return fmt.Errorf("served-without-leadership: %s for upstream %s (shard %d) succeeded while the shard's leader is %q", op, u, sh, s.leader[sh])
				}
				if !strings.Contains(err.Error(), "leader is "+s.leader[sh]) {
					return fmt.Errorf("refusal-does-not-name-leader: %s refused with %q, the known leader of shard %d is %q", op, err.Error(), sh, s.leader[sh])
				}
				if after := s.rig.Dump(s.ups[:], schemas); after != before {
					return fmt.Errorf("refused-but-changed-state: %s for shard %d was refused but the stores changed: %s -> %s", op, sh, before, after)
				}
				return nil
			}
			switch op {
			case "api-down":
				s.apiDown = true
				return nil
			case "api-up":
				s.apiDown = false
				return nil
			}
			switch op {
			case "gain":
				// client-go delivers OnStartedLeading only to a server that is not leading yet
				if isLeader || s.pending[sh] {
					return nil
				}
				s.rig.Gain(sh)
				s.leader[sh] = limrig.Me
				if s.rig.H.Store(sh) == nil {
					return fmt.Errorf("no-store-after-gain: shard %d gained but no store exists", sh)
				}
			case "lose":
				if !isLeader && !s.pending[sh] {
					// client-go also delivers OnStoppedLeading to a server that is not leading when its election loop ends
					// (seen in the elector conformance run at shutdown): nothing may come of it
					s.rig.Lose(sh)
					if s.rig.H.Store(sh) != nil {
						return fmt.Errorf("store-after-stray-loss: OnStoppedLeading for shard %d on a server that does not lead it left a store behind", sh)
					}
					if after := s.rig.Dump(s.ups[:], schemas); after != before {
						return fmt.Errorf("stray-loss-changed-state: OnStoppedLeading for shard %d on a server that does not lead it changed the stores: %s -> %s", sh, before, after)
					}
					return nil
				}
				s.rig.Lose(sh)
				if isLeader {
					s.leader[sh] = ""
				}
				s.pending[sh] = false
				if s.rig.H.Store(sh) != nil {
					return fmt.Errorf("state-kept-after-loss: shard %d lost but its store is still present", sh)
				}
			case "other":
				s.rig.Other(sh, "other")
				if isLeader {
					s.pending[sh] = true
				}
				s.leader[sh] = "other"
			case "leaderCheck":
				s.rig.H.LeaderCheck()
				for k := 0; k < 2; k++ {
					has := s.rig.H.Store(k) != nil
					if has != (s.leader[k] == limrig.Me) {
						if s.pending[k] && !has {
							s.pending[k] = false // leaderCheck already dropped the store; the late OnStoppedLeading finds nothing
							continue
						}
						return fmt.Errorf("leadercheck-store-mismatch: after leaderCheck shard %d leader=%q store present=%v", k, s.leader[k], has)
					}
				}
			case "report":
				s.rig.L.Heartbeat("i1")
				_, err := s.rig.L.UpdateRateLimitConditionStatus(u, limrig.Report(u, "i1", "s", proxyv1alpha1.MaxRequestsInflight, proxyv1alpha1.GlobalCountLimit, 0, 0, 1, 50))
				if !isLeader {
					return refusal(err)
				}
				if err != nil && s.inList[sh] {
					return fmt.Errorf("leader-refuses: report for %s refused although this server leads shard %d: %v", u, sh, err)
				}
			case "acquire":
				s.nextID++
				res, err := s.rig.L.DoAcquire(u, limrig.Acquire(u, "i1", "s", s.nextID, 2))
				if !isLeader {
					return refusal(err)
				}
				if err != nil {
					return fmt.Errorf("leader-refuses: acquire for %s refused although this server leads shard %d: %v", u, sh, err)
				}
				_ = res
			case "clusterUpdate":
				s.inList[sh] = true
				err := s.rig.ApplyCluster(limrig.MIFCluster(u, "s", proxyv1alpha1.GlobalCountLimit, 1, 5))
				if !isLeader {
					if err != nil {
						return fmt.Errorf("handler-error-without-leadership: %v", err)
					}
					if after := s.rig.Dump(s.ups[:], schemas); after != before {
						return fmt.Errorf("changed-state-without-leadership: cluster update for shard %d (leader %q) changed the stores: %s -> %s", sh, s.leader[sh], before, after)
					}
				}
			case "clusterDelete":
				s.inList[sh] = false
				err := s.rig.DeleteCluster(limrig.MIFCluster(u, "s", proxyv1alpha1.GlobalCountLimit, 1, 5))
				if !isLeader {
					if err != nil {
						return fmt.Errorf("handler-error-without-leadership: %v", err)
					}
					if after := s.rig.Dump(s.ups[:], schemas); after != before {
						return fmt.Errorf("changed-state-without-leadership: cluster deletion for shard %d (leader %q) changed the stores: %s -> %s", sh, s.leader[sh], before, after)
					}
				}
			case "cleanup":
				s.rig.H.CleanupUnknownCondition()
				// state of shards this server does not lead must be untouched
				after := s.rig.Dump(s.ups[:], schemas)
				bs, as := strings.Split(before, " | "), strings.Split(after, " | ")
				for k := 0; k < 2; k++ {
					if s.leader[k] != limrig.Me && bs[k] != as[k] {
						return fmt.Errorf("cleanup-changed-state-without-leadership: cleanup changed the state held for shard %d whose leader is %q: %s -> %s", k, s.leader[k], bs[k], as[k])
					}
				}
			}
			// a fresh gain starts from the persisted state only: with the local store that is empty apart from the listed clusters
			if op == "gain" && store == "local" {
				d := s.rig.Dump(s.ups[:], schemas)
				part := strings.Split(d, " | ")[sh]
				if strings.Contains(part, ".i1 ") || strings.Contains(part, "[i1:") {
					return fmt.Errorf("stale-state-after-regain: shard %d regained with instance state from an earlier term: %s", sh, part)
				}
			}
			return nil
		},
		Canon: func(si interface{}) string {
			s := si.(*sysL)
			return fmt.Sprint(s.leader, s.pending, s.inList, s.apiDown, s.rig.Dump(s.ups[:], schemas), persisted(s))
		},
	}
}

func persisted(s *sysL) string {
	if !strings.HasPrefix(s.store, "k8s") {
		return ""
	}
	var out []string
	objs, _ := s.rig.GW.Tracker().List(proxyv1alpha1.SchemeGroupVersion.WithResource("ratelimitconditions"), proxyv1alpha1.SchemeGroupVersion.WithKind("RateLimitCondition"), "")
	if l, ok := objs.(*proxyv1alpha1.RateLimitConditionList); ok {
		for _, c := range l.Items {
			out = append(out, c.Name+kit.JSON(c.Spec)+kit.JSON(c.Status))
		}
	}
	return strings.Join(out, ";")
}

// ------------------------------------------------------------------ A: the mapping under concurrent callers
// "The mapping depends only on the name and N": also when several request handlers compute it at the same time.
// GetShardID is instrumented at statement granularity; two / three threads map different names concurrently, every
// interleaving up to the preemption bound - each caller must get the shard a lone caller gets.

func harnessMapping(c *ev.Check, names []string, n int, bound int) xa.Harness {
	name := fmt.Sprintf("concurrent-mapping-%dx-N%d", len(names), n)
	want := make([]int, len(names))
	for i, nm := range names {
		want[i] = limutil.GetShardID(nm, n)
	}
	body := func() interface{} {
		got := make([]int, len(names))
		for i := range names {
			i := i
			vsched.GoNamed(fmt.Sprintf("map-%d", i), func() { got[i] = limutil.GetShardID(names[i], n) })
		}
		vsched.Join()
		return got
	}
	check := func(x *vsched.Exec) error {
		got := x.Obs.([]int)
		c.Outcome("mapping_race_outcomes", fmt.Sprint(name, got))
		for i := range got {
			if got[i] != want[i] {
				return fmt.Errorf("mapping-depends-on-other-callers: GetShardID(%q, %d) returned %d while other names were being mapped concurrently; alone it returns %d", names[i], n, got[i], want[i])
			}
		}
		return nil
	}
	return xa.Harness{Name: name, Bound: bound, Shards: 1, Horizon: 5000, Body: body, Check: check}
}

func harnessesMapping(c *ev.Check, b int) []xa.Harness {
	// names chosen so that they fall into different shards (and the empty name, whose hash is the hasher's initial state)
	return []xa.Harness{harnessMapping(c, []string{"up0", "up1"}, 2, b), harnessMapping(c, []string{"cluster-a", "", "cluster-b"}, 5, b), harnessMapping(c, []string{"a", "b"}, 3, b)}
}

func main() {
	c := ev.Start("C13", "model_checking")
	c.Assume = []string{
		"client-go leader election is replaced by direct delivery of its three callbacks to the real leaderElector in the orders client-go v0.18 can produce them: OnStartedLeading only to a server that is not leading; OnNewLeader(other) at any time; after OnNewLeader(other) arrived at a leading server the next election callback is OnStoppedLeading (never OnStartedLeading); OnStoppedLeading to a leading server, and (shutdown of the election loop) to one that is not - nothing may come of that one",
		"elector conformance: two real leaderElectors (client-go leader election, 600 ms leases, one fake API) compete for a shard while the harness fails the current leader's lease updates three times in a row; the recorded callback traces obey these orders and are replayed, with requests between the callbacks, on the leadership spec",
		"the limiter servers the gateway talks to are loopback HTTP stubs serving /ratelimit/endpoints; the gateway-side clientSets is the real one without its timer loops (its sync() is called by the driver)",
		"names: every byte string of length <= 2 over a 24-byte alphabet plus generated realistic names; N from the stated list",
	}
	specs := []xstate.Spec{specLeader("local"), specLeader("k8s"), specLeader("k8s-writeback"), specLeader("k8s-writeback-api-failures")}
	if c.ReplayFile() != "" {
		xstate.ReplayIfAsked(c, specs)
		xa.ReplayIfAsked(c, harnessesMapping(c, 0))
	}
	all := names(c.Thorough())
	probe := all[len(all)-c.Pick(300, 2000):]
	probe = append(probe, all[:40]...)
	seqs := [][]int{{1, 2, 3, 5}, {5, 3, 2, 1}, {2, 4, 2, 3}, {7, 1, 17}, {31, 32, 33, 64}, {1000, 65536, 2147483647, 16}}
	var tasks []ev.Task
	for _, sq := range seqs {
		sq := sq
		tasks = append(tasks, ev.Task{Name: fmt.Sprint("gateway-side", sq), Run: func() { gatewaySide(c, sq, probe, all) }})
	}
	for n := 1; n <= 17; n++ {
		n := n
		tasks = append(tasks, ev.Task{Name: fmt.Sprint("gateway-side-single", n), Run: func() { gatewaySide(c, []int{n}, probe[:60], all) }})
	}
	for _, n := range []int{1, 2, 3, 5} {
		n := n
		tasks = append(tasks, ev.Task{Name: fmt.Sprint("server-side", n), Run: func() { serverSide(c, n, probe[:c.Pick(120, 600)]) }})
	}
	tasks = append(tasks, knowledgeTasks(c)...)
	tasks = append(tasks, ev.Task{Name: "elector-conformance", Run: func() { electorConformance(c) }})
	for _, b := range []int{0, 1, 2, c.Pick(2, 3)} {
		for _, h := range harnessesMapping(c, b) {
			tasks = append(tasks, xa.Tasks(c, h)...)
		}
	}
	tasks = append(tasks, xstate.Tasks(c, specLeader("local"), c.Pick(10, 14), 16)...)
	tasks = append(tasks, xstate.Tasks(c, specLeader("k8s"), c.Pick(9, 12), 16)...)
	tasks = append(tasks, xstate.Tasks(c, specLeader("k8s-writeback"), c.Pick(8, 11), 16)...)
	tasks = append(tasks, xstate.Tasks(c, specLeader("k8s-writeback-api-failures"), c.Pick(6, 8), 18)...)
	c.RunTasks(tasks)
	c.Finish(map[string]interface{}{
		"states":                        c.Counter("states"),
		"transitions":                   c.Counter("transitions"),
		"traces_validated_against_impl": c.Counter("replays"),
		"mapping_evaluations":           c.Counter("shard_evaluations") + c.Counter("server_side_evaluations"),
		"leader_knowledge_sequences":    c.Counter("knowledge_sequences"),
		"explanation":                   "states/transitions: leadership-history search on the real rateLimiter+leaderElector (per first-event shard); mapping_evaluations: (name, N) pairs compared between the real gateway-side clientSets and the real limiter server, including live shard-count changes; probes: requests issued through ClientFor and located at the stub that received them; leader_knowledge_sequences: every sequence (length 2-3) of server-info answers over {listed subset of shards x leader assignment x listing order} for N=2,3, each followed by one request per shard.",
	})
}
