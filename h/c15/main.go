// C15 — removal: deleted clusters / removed endpoints get no traffic; in-flight
// requests are cut; others are unaffected.
// Engine C over removal points: {delete the cluster through the controller,
// remove an endpoint by a spec update, delete and re-create} x the phase of a
// victim request {not issued, blocked in the upstream before headers,
// streaming a watch, completed} with bystander streams on the other endpoint
// of the same cluster and on another cluster, on the real controller + handler
// chain over loopback. Exhaustive over removal points, not over schedules;
// "promptly" is a generous wall-clock bound.
package main

import (
	"context"
	"fmt"
	"io"
	"net"
	"net/http"
	"sort"
	"strings"
	"sync"
	"time"

	proxyv1alpha1 "github.com/kubewharf/kubegateway/pkg/apis/proxy/v1alpha1"
	"github.com/kubewharf/kubegateway/pkg/clusters"

	"verifh/ctlrig"
	"verifh/e2e"
	"verifh/ev"
)

const prompt = 10 * time.Second

// upstream behaviour: /slow blocks before headers, ?watch=true streams chunks on demand
type gate struct {
	mu      sync.Mutex
	next    chan struct{} // one token = one more chunk for every streaming handler of this upstream
	ctxDone []<-chan struct{}
	// an upgraded (exec-like) stream held by this upstream has ended
	upgradeEnded bool
}

func install(u *e2e.Upstream) *gate {
	g := &gate{next: make(chan struct{}, 64)}
	_ = g.upgradeEnded
	u.Respond = func(w http.ResponseWriter, r *http.Request, c *e2e.Captured) {
		g.mu.Lock()
		g.ctxDone = append(g.ctxDone, r.Context().Done())
		g.mu.Unlock()
		switch {
		case r.Header.Get("Upgrade") != "" && strings.Contains(r.URL.Path, "silent"):
			// an upgrade request the upstream does not answer (no 101 yet)
			select {
			case <-r.Context().Done():
			case <-time.After(60 * time.Second):
			}
		case r.Header.Get("Upgrade") != "":
			// exec / attach / port-forward: switch protocols, then hold the stream open until the peer goes away
			conn, buf, err := w.(http.Hijacker).Hijack()
			if err != nil {
				return
			}
			defer conn.Close()
			_, _ = buf.WriteString("HTTP/1.1 101 Switching Protocols\r\nConnection: Upgrade\r\nUpgrade: " + r.Header.Get("Upgrade") + "\r\n\r\n")
			_ = buf.Flush()
			_, _ = conn.Write([]byte("hello-from-upstream"))
			_ = conn.SetReadDeadline(time.Now().Add(60 * time.Second))
			b := make([]byte, 64)
			for {
				if _, err := conn.Read(b); err != nil {
					g.mu.Lock()
					g.upgradeEnded = true
					g.mu.Unlock()
					return
				}
			}
		case strings.HasSuffix(r.URL.Path, "/slow"):
			select {
			case <-r.Context().Done():
			case <-time.After(60 * time.Second):
			}
		case r.URL.Query().Get("watch") == "true":
			w.Header().Set("Content-Type", "application/json")
			w.WriteHeader(200)
			_, _ = w.Write([]byte(`{"type":"ADDED"}` + "\n"))
			w.(http.Flusher).Flush()
			for {
				select {
				case <-r.Context().Done():
					return
				case <-g.next:
					_, _ = w.Write([]byte(`{"type":"MODIFIED"}` + "\n"))
					w.(http.Flusher).Flush()
				case <-time.After(60 * time.Second):
					return
				}
			}
		default:
			w.WriteHeader(200)
			_, _ = w.Write([]byte("{}"))
		}
	}
	return g
}

// stream is a client-side watch
type stream struct {
	resp   *http.Response
	chunks chan string
	ended  chan error
}

func openStream(r *e2e.Rig, host, path string) (*stream, error) {
	req, _ := http.NewRequest("GET", r.GW.URL+path, nil)
	req.Host = host
	resp, err := r.Client.Do(req)
	if err != nil {
		return nil, err
	}
	s := &stream{resp: resp, chunks: make(chan string, 16), ended: make(chan error, 1)}
	go func() {
		buf := make([]byte, 256)
		for {
			n, err := resp.Body.Read(buf)
			if n > 0 {
				s.chunks <- string(buf[:n])
			}
			if err != nil {
				s.ended <- err
				return
			}
		}
	}()
	return s, nil
}

func (s *stream) nextChunk(d time.Duration) bool {
	select {
	case <-s.chunks:
		return true
	case <-s.ended:
		return false
	case <-time.After(d):
		return false
	}
}

func (s *stream) endsWithin(d time.Duration) bool {
	deadline := time.After(d)
	for {
		select {
		case <-s.chunks:
		case <-s.ended:
			return true
		case <-deadline:
			return false
		}
	}
}

func policies(podsTo, nodesTo *e2e.Upstream) []proxyv1alpha1.DispatchPolicy {
	rule := func(res string) []proxyv1alpha1.DispatchPolicyRule {
		return []proxyv1alpha1.DispatchPolicyRule{{Verbs: []string{"*"}, APIGroups: []string{"*"}, Resources: []string{res, res + "/exec"}}}
	}
	return []proxyv1alpha1.DispatchPolicy{
		{Strategy: proxyv1alpha1.RoundRobin, Rules: rule("pods"), UpstreamSubset: []string{podsTo.URL()}},
		{Strategy: proxyv1alpha1.RoundRobin, Rules: rule("nodes"), UpstreamSubset: []string{nodesTo.URL()}},
	}
}

func waitReady(ci *clusters.ClusterInfo, eps ...string) bool {
	deadline := time.Now().Add(20 * time.Second)
	for time.Now().Before(deadline) {
		ok := true
		for _, e := range eps {
			info, found := ci.Endpoints.Load(e)
			ok = ok && found && info.IsReady()
		}
		if ok {
			return true
		}
		time.Sleep(5 * time.Millisecond)
	}
	return false
}

func scenario(c *ev.Check, removal, phase string) {
	label := fmt.Sprintf("removal=[%s] victim=[%s]", removal, phase)
	viol := func(key, f string, a ...interface{}) {
		c.Violation(key, label+": "+fmt.Sprintf(f, a...), map[string]string{"removal": removal, "victim_phase": phase})
	}
	ctl := ctlrig.New()
	r := e2e.NewWithManager(ctl.C)
	a1, a2, b1 := e2e.NewUpstream("a-e1"), e2e.NewUpstream("a-e2"), e2e.NewUpstream("b-e1")
	g1, g2, gb := install(a1), install(a2), install(b1)
	defer func() {
		r.GW.CloseClientConnections()
		r.Close()
		a1.Server.CloseClientConnections()
		a2.Server.CloseClientConnections()
		b1.Server.CloseClientConnections()
		a1.Close()
		a2.Close()
		b1.Close()
	}()
	objA := e2e.ClusterObject("a", a1, a2)
	objA.Spec.DispatchPolicies = policies(a1, a2)
	objA.Spec.SecureServing.ServerNames = []string{aliasA} // a second name of the cluster, spelled with capitals
	objB := e2e.ClusterObject("b", b1)
	if _, err := ctl.Apply(objA); err != nil {
		c.EngineError("apply a: " + err.Error())
		return
	}
	_, _ = ctl.Apply(objB)
	ciA, _ := ctl.C.Get("a")
	ciB, _ := ctl.C.Get("b")
	if ciA == nil || ciB == nil || !waitReady(ciA, a1.URL(), a2.URL()) || !waitReady(ciB, b1.URL()) {
		c.EngineError(label + ": the rig's clusters did not become ready")
		return
	}
	e1Info, _ := ciA.Endpoints.Load(a1.URL())
	e2Info, _ := ciA.Endpoints.Load(a2.URL())
	// the second pick path: the client sets handed out for TokenReviews / SubjectAccessReviews (manager.ClientFor ->
	// PickOne). It is used before the removal (both endpoints get their turn) and must obey the removal too.
	reviewVia := func() {
		if _, client, err := ctl.C.ClientFor("a"); err == nil && client != nil {
			_, _ = client.CoreV1().RESTClient().Get().AbsPath("/review-path-probe").DoRaw(context.Background())
		}
	}
	// bystanders
	byA2, err1 := openStream(r, "a", "/api/v1/nodes?watch=true")
	byB, err2 := openStream(r, "b", "/api/v1/pods?watch=true")
	if err1 != nil || err2 != nil || !byA2.nextChunk(20*time.Second) || !byB.nextChunk(20*time.Second) {
		c.EngineError(label + ": bystander streams could not be opened")
		return
	}
	// victim on a / e1
	var victim *stream
	var upgraded net.Conn
	victimDone := make(chan error, 1)
	switch phase {
	case "blocked before headers":
		go func() {
			_, _, err := r.Do("GET", "a", "/api/v1/namespaces/ns/pods/slow", nil, nil)
			victimDone <- err
		}()
		deadline := time.Now().Add(20 * time.Second)
		for time.Now().Before(deadline) {
			g1.mu.Lock()
			n := len(g1.ctxDone)
			g1.mu.Unlock()
			if n > 0 {
				break
			}
			time.Sleep(2 * time.Millisecond)
		}
	case "streaming":
		var err error
		victim, err = openStream(r, "a", "/api/v1/pods?watch=true")
		if err != nil || !victim.nextChunk(20*time.Second) {
			c.EngineError(label + ": the victim stream could not be opened")
			return
		}
	case "upgrade waiting for 101":
		conn, err := net.DialTimeout("tcp", r.GW.Listener.Addr().String(), 20*time.Second)
		if err != nil {
			c.EngineError(label + ": dial: " + err.Error())
			return
		}
		defer conn.Close()
		_, _ = conn.Write([]byte("POST /api/v1/namespaces/ns/pods/silent/exec?command=sh HTTP/1.1\r\nHost: a\r\nConnection: Upgrade\r\nUpgrade: SPDY/3.1\r\nX-Stream-Protocol-Version: v4.channel.k8s.io\r\nContent-Length: 0\r\n\r\n"))
		deadline := time.Now().Add(20 * time.Second)
		arrived := false
		for time.Now().Before(deadline) && !arrived {
			g1.mu.Lock()
			arrived = len(g1.ctxDone) > 0
			g1.mu.Unlock()
			time.Sleep(2 * time.Millisecond)
		}
		if !arrived {
			c.EngineError(label + ": the upgrade request did not reach the upstream")
			return
		}
		upgraded = conn
	case "upgraded stream":
		conn, err := net.DialTimeout("tcp", r.GW.Listener.Addr().String(), 20*time.Second)
		if err != nil {
			c.EngineError(label + ": dial: " + err.Error())
			return
		}
		defer conn.Close()
		_, _ = conn.Write([]byte("POST /api/v1/namespaces/ns/pods/p/exec?command=sh HTTP/1.1\r\nHost: a\r\nConnection: Upgrade\r\nUpgrade: SPDY/3.1\r\nX-Stream-Protocol-Version: v4.channel.k8s.io\r\nContent-Length: 0\r\n\r\n"))
		_ = conn.SetReadDeadline(time.Now().Add(20 * time.Second))
		var got []byte
		b := make([]byte, 1)
		for !strings.HasSuffix(string(got), "hello-from-upstream") {
			n, err := conn.Read(b)
			if n > 0 {
				got = append(got, b[0])
			}
			if err != nil {
				c.EngineError(label + ": the upgraded stream could not be established: " + string(got))
				return
			}
		}
		upgraded = conn
	case "completed":
		if resp, _, err := r.Do("GET", "a", "/api/v1/pods", nil, nil); err != nil || resp.StatusCode != 200 {
			c.EngineError(label + ": the victim request did not complete")
			return
		}
	}
	// (once with e2 momentarily unhealthy, so that the path has certainly handed out e1 - the one to be removed)
	e2Info.UpdateStatus(false, "harness", "")
	reviewVia()
	e2Info.UpdateStatus(true, "", "")
	for i := 0; i < 3; i++ {
		reviewVia()
	}
	a1.Requests()
	a2.Requests()
	b1.Requests()
	// ---- the removal
	clusterGone := false
	switch removal {
	case "delete cluster":
		_, _ = ctl.Delete(objA)
		clusterGone = true
	case "remove endpoint e1":
		o := e2e.ClusterObject("a", a2)
		o.Spec.DispatchPolicies = policies(a2, a2)
		o.Spec.SecureServing.ServerNames = []string{aliasA}
		if res, err := ctl.Apply(o); err != nil || res.RequeueAfter > 0 {
			c.EngineError(label + ": the spec update was refused")
			return
		}
	case "delete and re-create cluster":
		_, _ = ctl.Delete(objA)
		if res, err := ctl.Apply(objA.DeepCopy()); err != nil || res.RequeueAfter > 0 {
			c.EngineError(label + ": re-creation refused")
			return
		}
		if ci, ok := ctl.C.Get("a"); ok {
			waitReady(ci, a1.URL(), a2.URL())
		}
	}
	c.Add("scenarios", 1)
	// (1) new requests - under the cluster's own name and under its other server name, in two spellings
	codes := map[int]int{}
	hosts := []string{"a", aliasA, strings.ToLower(aliasA), "A"}
	for i := 0; i < 20; i++ {
		resp, _, err := r.Do("GET", hosts[i%len(hosts)], "/api/v1/pods", nil, nil)
		if err != nil {
			viol("new-request-error", "%v", err)
			continue
		}
		codes[resp.StatusCode]++
	}
	h1, h2 := len(a1.Requests()), len(a2.Requests())
	c.Outcome("outcomes", fmt.Sprintf("%s/%s/%v/%d/%d", removal, phase, codes, h1, h2))
	switch removal {
	case "delete cluster":
		if codes[503] != 20 || h1+h2 != 0 {
			viol("deleted-cluster-still-served", "20 new requests for the deleted cluster: status codes %v, upstream hits e1=%d e2=%d (expected 503 and none)", codes, h1, h2)
		}
	case "remove endpoint e1":
		if h1 != 0 {
			viol("removed-endpoint-still-picked", "the removed endpoint received %d of 20 new requests", h1)
		}
		for i := 0; i < 6; i++ {
			reviewVia()
		}
		if n := len(a1.Requests()); n != 0 {
			viol("removed-endpoint-still-picked-for-reviews", "the removed endpoint received %d of 6 requests sent through the client sets the gateway hands out for token / access reviews", n)
		}
		a2.Requests()
		if codes[200] != 20 || h2 != 20 {
			viol("remaining-endpoint-affected", "after removing e1 the 20 new requests got %v, e2 received %d", codes, h2)
		}
	case "delete and re-create cluster":
		if codes[200] != 20 {
			viol("recreated-cluster-not-served", "20 new requests after re-creation got %v", codes)
		}
	}
	// (2) the victim is cut promptly, and the upstream sees the cancellation
	switch phase {
	case "blocked before headers":
		select {
		case <-victimDone:
		case <-time.After(prompt):
			viol("in-flight-request-left-hanging", "the request blocked in the removed endpoint did not end within %v", prompt)
		}
	case "streaming":
		if !victim.endsWithin(prompt) {
			viol("in-flight-stream-left-hanging", "the watch on the removed endpoint did not end within %v", prompt)
		}
	case "upgrade waiting for 101":
		// the client must get an answer (an error status) or see its connection end
		_ = upgraded.SetReadDeadline(time.Now().Add(prompt))
		b := make([]byte, 16)
		n, err := upgraded.Read(b)
		if ne, ok := err.(net.Error); n == 0 && ok && ne.Timeout() {
			viol("upgrade-request-left-hanging", "an upgrade (exec-like) request waiting for the removed endpoint's answer is still hanging %v after the removal", prompt)
		}
	case "upgraded stream":
		// the client side of the exec-like session must see its connection end
		_ = upgraded.SetReadDeadline(time.Now().Add(prompt))
		b := make([]byte, 16)
		_, err := upgraded.Read(b)
		if ne, ok := err.(net.Error); err == nil || ok && ne.Timeout() {
			viol("upgraded-stream-left-open", "an upgraded (exec-like) session through the removed endpoint is still open %v after the removal", prompt)
		}
	}
	if phase == "blocked before headers" || phase == "streaming" {
		g1.mu.Lock()
		dones := append([]<-chan struct{}{}, g1.ctxDone...)
		g1.mu.Unlock()
		for _, d := range dones {
			select {
			case <-d:
			case <-time.After(prompt):
				viol("upstream-request-not-cancelled", "the removed endpoint still sees the proxied request as live after %v", prompt)
			}
		}
	}
	// (3) contexts of what was removed are cancelled (probing and proxying stop), of what stays are live
	if e1Info.Context().Err() == nil {
		viol("removed-endpoint-context-live", "the removed endpoint's context is still live: its health probe loop keeps running")
	}
	if removal == "remove endpoint e1" {
		if e2Info.Context().Err() != nil {
			viol("remaining-endpoint-cancelled", "the endpoint that stays was cancelled")
		}
		if ciA.Context().Err() != nil {
			viol("cluster-cancelled-on-endpoint-removal", "removing one endpoint cancelled the whole cluster")
		}
	}
	if ciB.Context().Err() != nil {
		viol("other-cluster-cancelled", "the other cluster's context was cancelled")
	}
	// (4) bystanders
	gb.next <- struct{}{}
	if !byB.nextChunk(15 * time.Second) {
		viol("other-cluster-stream-broken", "the watch on the other cluster did not receive its next chunk")
	}
	if resp, _, err := r.Do("GET", "b", "/api/v1/pods", nil, nil); err != nil || resp.StatusCode != 200 {
		viol("other-cluster-requests-fail", "a new request to the other cluster failed: %v", err)
	}
	if clusterGone || removal == "delete and re-create cluster" {
		if !byA2.endsWithin(prompt) {
			viol("stream-of-deleted-cluster-left-hanging", "a watch on another endpoint of the deleted cluster did not end within %v", prompt)
		}
	} else {
		g2.next <- struct{}{}
		if !byA2.nextChunk(15 * time.Second) {
			viol("same-cluster-stream-broken", "the watch on the cluster's other endpoint did not receive its next chunk after e1 was removed")
		}
	}
	_ = context.Background
	_ = io.EOF
}

// ---------------------------------------------------------------------------------------------------------------
// lifecycle x removal: what the endpoint went through BEFORE it is removed (added by an update, disabled and enabled
// again, removed and re-added ...) decides which code path installed its probe loop. Probing is observed at the stub
// upstream itself (arrivals of the gateway's /healthz probes), not on a context flag.

const aliasA = "Alias-A.Example.COM"

const probeInterval = 10 * time.Millisecond
const probeWindow = 600 * time.Millisecond

// A probe loop that has been cancelled can still deliver a bounded number of probes, whatever the timing: the one in
// flight, the token buffered in its channel, and one more tick that raced the cancellation. A loop that was not
// stopped delivers about probeWindow/probeInterval = 60.
const maxProbesAfterStop = 3

func withE1(a1, a2 *e2e.Upstream, state string) *proxyv1alpha1.UpstreamCluster {
	var o *proxyv1alpha1.UpstreamCluster
	switch state {
	case "absent":
		o = e2e.ClusterObject("a", a2)
	default:
		o = e2e.ClusterObject("a", a1, a2)
		if state == "disabled" {
			t := true
			o.Spec.Servers[0].Disabled = &t
		}
	}
	return o
}

var lifecycles = map[string][]string{
	"added by an update":              {"enabled"},
	"added disabled, then enabled":    {"disabled", "enabled"},
	"disabled, then enabled":          {"enabled", "disabled", "enabled"},
	"disabled and enabled twice":      {"enabled", "disabled", "enabled", "disabled", "enabled"},
	"removed and re-added":            {"enabled", "absent", "enabled"},
	"currently disabled":              {"enabled", "disabled"},
	"re-added disabled, then enabled": {"enabled", "absent", "disabled", "enabled"},
}

func lifecycle(c *ev.Check, life, removal string) {
	label := fmt.Sprintf("lifecycle=[%s] removal=[%s]", life, removal)
	viol := func(key, f string, a ...interface{}) {
		c.Violation(key, label+": "+fmt.Sprintf(f, a...), map[string]string{"lifecycle": life, "removal": removal})
	}
	ctl := ctlrig.New()
	r := e2e.NewWithManager(ctl.C)
	a1, a2, b1 := e2e.NewUpstream("a-e1"), e2e.NewUpstream("a-e2"), e2e.NewUpstream("b-e1")
	defer func() {
		r.GW.CloseClientConnections()
		r.Close()
		a1.Close()
		a2.Close()
		b1.Close()
	}()
	if _, err := ctl.Apply(withE1(a1, a2, "absent")); err != nil {
		c.EngineError("apply a: " + err.Error())
		return
	}
	ciA, _ := ctl.C.Get("a")
	if ciA == nil {
		c.EngineError(label + ": cluster a was not created")
		return
	}
	ciA.VerifSetHealthCheckInterval(probeInterval) // every probe loop installed from here on ticks fast
	gen := int64(1)
	apply := func(o *proxyv1alpha1.UpstreamCluster) bool {
		gen++
		o.Generation = gen
		o.ResourceVersion = fmt.Sprint(gen)
		if res, err := ctl.Apply(o); err != nil || res.RequeueAfter > 0 {
			c.EngineError(fmt.Sprintf("%s: spec update refused: %v %+v", label, err, res))
			return false
		}
		return true
	}
	last := ""
	for _, st := range lifecycles[life] {
		if !apply(withE1(a1, a2, st)) {
			return
		}
		last = st
		if st == "enabled" {
			// let the (re)installed loop run: the endpoint becomes ready and probes arrive
			if !waitReady(ciA, a1.URL()) {
				c.EngineError(label + ": e1 did not become ready after being enabled")
				return
			}
			m := a1.ProbeCount()
			deadline := time.Now().Add(20 * time.Second)
			for a1.ProbeCount() < m+3 && time.Now().Before(deadline) {
				time.Sleep(5 * time.Millisecond)
			}
			if a1.ProbeCount() < m+3 {
				c.EngineError(label + ": an enabled endpoint is not being probed at the rig's interval; the window after the removal would show nothing")
				return
			}
		}
	}
	e1Info, _ := ciA.Endpoints.Load(a1.URL())
	if e1Info == nil {
		c.EngineError(label + ": e1 unknown before its removal")
		return
	}
	a1.Requests()
	a2.Requests()
	// ---- the removal
	switch removal {
	case "remove endpoint e1":
		if !apply(withE1(a1, a2, "absent")) {
			return
		}
	case "delete cluster":
		_, _ = ctl.Delete(withE1(a1, a2, last))
	case "delete cluster, re-create it without e1":
		_, _ = ctl.Delete(withE1(a1, a2, last))
		if !apply(withE1(a1, a2, "absent")) {
			return
		}
		if ci, ok := ctl.C.Get("a"); !ok || !waitReady(ci, a2.URL()) {
			c.EngineError(label + ": the re-created cluster did not become ready")
			return
		}
	}
	c.Add("scenarios", 1)
	mark1, mark2 := a1.ProbeCount(), a2.ProbeCount()
	codes := map[int]int{}
	for i := 0; i < 6; i++ {
		if resp, _, err := r.Do("GET", "a", "/api/v1/pods", nil, nil); err == nil {
			codes[resp.StatusCode]++
		}
	}
	time.Sleep(probeWindow)
	after1 := a1.ProbeCount() - mark1
	h1 := len(a1.Requests())
	c.Outcome("outcomes", fmt.Sprintf("%s/%s/%v/e1hits=%d/probed=%v", life, removal, codes, h1, after1 > maxProbesAfterStop))
	if after1 > maxProbesAfterStop {
		viol("removed-endpoint-still-probed", "%d health probes reached the removed endpoint in the %v after its removal (a stopped loop can deliver at most %d)", after1, probeWindow, maxProbesAfterStop)
	}
	if h1 != 0 {
		viol("removed-endpoint-still-picked", "the removed endpoint received %d of 6 new requests", h1)
	}
	if e1Info.Context().Err() == nil {
		viol("removed-endpoint-context-live", "the removed endpoint's context is still live")
	}
	if removal != "delete cluster" {
		// the endpoint that stays is still served and still probed
		if codes[200] != 6 {
			viol("remaining-endpoint-affected", "6 new requests after the removal got %v", codes)
		}
		if removal == "remove endpoint e1" {
			deadline := time.Now().Add(20 * time.Second)
			for a2.ProbeCount() == mark2 && time.Now().Before(deadline) {
				time.Sleep(5 * time.Millisecond)
			}
			if a2.ProbeCount() == mark2 {
				viol("remaining-endpoint-not-probed", "the endpoint that stays received no health probe within 20 s after e1 was removed (its loop ticks every %v)", probeInterval)
			}
		}
	} else if codes[503] != 6 {
		viol("deleted-cluster-still-served", "6 new requests for the deleted cluster got %v", codes)
	}
	_ = b1
}

// ---------------------------------------------------------------------------------------------------------------
// "other clusters are unaffected": removals that are NOT about cluster a must leave it alone - in particular the
// deletion of an object that never became a cluster because its name is one of a's server names.

func bystanderOfForeignDelete(c *ev.Check, kind string) {
	label := fmt.Sprintf("foreign removal=[%s]", kind)
	viol := func(key, f string, a ...interface{}) {
		c.Violation(key, label+": "+fmt.Sprintf(f, a...), map[string]string{"foreign_removal": kind})
	}
	ctl := ctlrig.New()
	r := e2e.NewWithManager(ctl.C)
	a1, b1 := e2e.NewUpstream("a-e1"), e2e.NewUpstream("b-e1")
	g1 := install(a1)
	_ = install(b1)
	defer func() {
		r.GW.CloseClientConnections()
		r.Close()
		a1.Server.CloseClientConnections()
		b1.Server.CloseClientConnections()
		a1.Close()
		b1.Close()
	}()
	objA := e2e.ClusterObject("a", a1)
	objA.Spec.SecureServing.ServerNames = []string{aliasA}
	if _, err := ctl.Apply(objA); err != nil {
		c.EngineError("apply a: " + err.Error())
		return
	}
	objB := e2e.ClusterObject("b", b1)
	_, _ = ctl.Apply(objB)
	ciA, _ := ctl.C.Get("a")
	if ciA == nil || !waitReady(ciA, a1.URL()) {
		c.EngineError(label + ": the rig's cluster did not become ready")
		return
	}
	ciA.VerifSetHealthCheckInterval(probeInterval)
	watch, err := openStream(r, "a", "/api/v1/pods?watch=true")
	if err != nil || !watch.nextChunk(20*time.Second) {
		c.EngineError(label + ": the stream on cluster a could not be opened")
		return
	}
	switch kind {
	case "delete an object that was refused because its name is a server name of cluster a":
		ghost := e2e.ClusterObject(strings.ToLower(aliasA), b1)
		_, _ = ctl.Apply(ghost) // refused: the name belongs to a
		_, _ = ctl.Delete(ghost)
	case "delete another cluster":
		_, _ = ctl.Delete(objB)
	case "delete an object that never existed":
		_, _ = ctl.Delete(e2e.ClusterObject("never-there", b1))
	}
	c.Add("scenarios", 1)
	codes := map[int]int{}
	for i, h := range []string{"a", aliasA, strings.ToLower(aliasA), "a", "A", aliasA} {
		if resp, _, err := r.Do("GET", h, "/api/v1/pods", nil, nil); err == nil {
			codes[resp.StatusCode]++
		} else {
			viol("bystander-request-error", "request #%d for host %q: %v", i, h, err)
		}
	}
	c.Outcome("outcomes", fmt.Sprintf("foreign/%s/%v", kind, codes))
	if codes[200] != 6 {
		viol("bystander-cluster-not-served", "6 new requests for cluster a (which was not removed) under its names got %v", codes)
	}
	if ciA.Context().Err() != nil {
		viol("bystander-cluster-stopped", "cluster a's context was cancelled")
	}
	if cur, ok := ctl.C.Get("a"); !ok || cur != ciA {
		viol("bystander-cluster-replaced", "cluster a is no longer registered (or was replaced) after a removal that did not concern it")
	}
	g1.next <- struct{}{}
	if !watch.nextChunk(15 * time.Second) {
		viol("bystander-stream-broken", "the watch on cluster a did not receive its next chunk")
	}
}

func (g *gate) send() {}

func main() {
	c := ev.Start("C15", "fault_enumeration")
	c.Assume = []string{
		"real UpstreamClusterController (harness as informer and worker) behind the real proxy handler chain over loopback HTTP/1.1, real health probes against stub upstreams; requests are pinned to endpoints by policy subsets",
		"exhaustive over (removal kind x victim request phase) with bystanders present, NOT over thread schedules; 'promptly' = within 10 s, 'next chunk' = within 15 s (generous: only a context cancellation / one write is awaited)",
		"'health probing stops' is decided twice: on the removed endpoint's context being cancelled, and (lifecycle scenarios) on the probes that actually arrive at the stub upstream in the 600 ms after the removal with 10 ms probe loops: more than 3 arrivals = not stopped (a cancelled loop can deliver at most the probe in flight, the buffered token and one racing tick, whatever the timing; a live loop delivers about 60)",
	}
	removals := []string{"delete cluster", "remove endpoint e1", "delete and re-create cluster"}
	phases := []string{"not issued", "blocked before headers", "streaming", "upgrade waiting for 101", "upgraded stream", "completed"}
	var tasks []ev.Task
	for _, rm := range removals {
		for _, ph := range phases {
			rm, ph := rm, ph
			tasks = append(tasks, ev.Task{Name: rm + "/" + ph, Run: func() { scenario(c, rm, ph) }})
		}
	}
	var lives []string
	for l := range lifecycles {
		lives = append(lives, l)
	}
	sort.Strings(lives)
	for _, l := range lives {
		for _, rm := range []string{"remove endpoint e1", "delete cluster", "delete cluster, re-create it without e1"} {
			l, rm := l, rm
			tasks = append(tasks, ev.Task{Name: "lifecycle/" + l + "/" + rm, Run: func() { lifecycle(c, l, rm) }})
		}
	}
	for _, k := range []string{"delete an object that was refused because its name is a server name of cluster a", "delete another cluster", "delete an object that never existed"} {
		k := k
		tasks = append(tasks, ev.Task{Name: "foreign/" + k, Run: func() { bystanderOfForeignDelete(c, k) }})
	}
	c.RunTasks(tasks)
	c.Finish(map[string]interface{}{
		"evaluations":         c.Counter("scenarios"),
		"distinct_nontrivial": c.DistinctCount("outcomes"),
		"rule":                "full matrix: 3 removal kinds x 4 phases of the victim request, each with a watch on the same cluster's other endpoint, a watch on another cluster and new requests to both; plus 7 endpoint lifecycles (added by update / disabled+enabled / re-added ...) x 3 removal kinds with probe arrivals counted at the stub upstream; distinct = (removal, phase or lifecycle, status codes of new requests, upstream hits).",
	})
}
