// C04 — forwarding fidelity: requests and responses cross the gateway unchanged;
// what the gateway terminates itself is a well-formed Status and is not forwarded.
// Engine C over the real proxy handler chain (rig h/e2e): request shapes
// (method x path x query x headers x body) and upstream response shapes (status
// x headers x body) are enumerated - every dimension fully, all pairs inside
// the request triple and the response triple in the quick tier, the full
// products in the thorough tier - and compared at the stub upstream and at
// the client. Also: every gateway-terminated case. (That every way a proxied
// request can end gives its max-in-flight slot back is C05's business: h/exitpaths.)
package main

import (
	"bytes"
	"encoding/json"
	"fmt"
	"io"
	"net"
	"net/http"
	"net/url"
	"reflect"
	"sort"
	"strings"
	"time"

	metav1 "k8s.io/apimachinery/pkg/apis/meta/v1"
	"k8s.io/apiserver/pkg/authorization/authorizer"

	proxyv1alpha1 "github.com/kubewharf/kubegateway/pkg/apis/proxy/v1alpha1"
	"github.com/kubewharf/kubegateway/pkg/clusters"
	"github.com/kubewharf/kubegateway/pkg/clusters/features"

	"verifh/e2e"
	"verifh/ev"
)

// ------------------------------------------------------------------ alphabets

var methods = []string{"GET", "POST", "PUT", "PATCH", "DELETE", "HEAD", "OPTIONS", "PROPFIND"}

var paths = []string{
	"/api/v1/pods", "/api/v1/namespaces/a%20b/pods/x", "/api/v1/namespaces/a%2Fb/pods", "/apis/apps/v1/deployments/", "/api//v1", "/healthz",
	"/api/v1/%E4%BD%A0", "/", "/api/v1/namespaces/ns/pods/p/log", "/api/v1/namespaces/a+b/pods", "/apis/x.io/v1/things/a%3Fb", "/api/v1/namespaces/ns/configmaps/a%25b",
	// escapes that look like other escapes or like separators once decoded; lower-case hex digits; very long; well-known non-resource paths
	"/api/v1/namespaces/a%252Fb/pods", "/api/v1/namespaces/a%2fb/pods", "/api/v1/namespaces/ns/pods/x%23y", "/api/v1/namespaces/ns/pods/a;b=c", "/api/v1/namespaces/ns/pods/a:b@c",
	"/version", "/openapi/v2", "/apis", "/api/v1/namespaces/ns/pods/p/exec", "/api/v1/namespaces/ns/services/https:svc:443/proxy/a%2Fb/c", "/api/v1/namespaces/" + strings.Repeat("n", 3000) + "/pods",
	// dot segments (a path is forwarded as sent, not normalised), escaped dots, a segment that only looks like one
	"/api/v1/namespaces/a/../b/pods", "/api/./v1/pods", "/api/v1/pods/..", "/api/v1/namespaces/%2E%2E/pods", "/api/v1/namespaces/.../pods", "/api/v1/namespaces/..a/pods",
}

var queries = []string{"", "a=1&b=2", "b=2&a=1&a=3", "a=%20+x", "a=", "a", "watch=true&timeoutSeconds=5", "labelSelector=app%3Dx%2Cy+in+%28a%2Cb%29", "a=%26%3D&b=%E4%BD%A0", "a=1;b=2", "%zz=1",
	"a=1&a=2&a=1", "a=b=c", "a=%2B%2b+", "pretty=true&dryRun=All", "timeout=5s", "fieldSelector=metadata.name%3Dx&limit=500&continue=abc%3D%3D", "a=%00", "a=" + strings.Repeat("v", 5000)}

type hdr struct {
	name string
	h    http.Header
}

var reqHeaders = []hdr{
	{"none", http.Header{}},
	{"multi", http.Header{"X-Foo": {"1", "2"}}},
	{"accept+ctype", http.Header{"Accept": {"application/json, */*"}, "Content-Type": {"application/merge-patch+json"}}},
	{"connection-listed-hop", http.Header{"Connection": {"X-Hop"}, "X-Hop": {"secret"}}},
	{"keep-alive+te", http.Header{"Keep-Alive": {"timeout=5"}, "Te": {"trailers"}}},
	{"xff", http.Header{"X-Forwarded-For": {"9.9.9.9"}}},
	{"user-agent", http.Header{"User-Agent": {"kubectl/v1.18 (linux)"}}},
	{"odd-values", http.Header{"X-Empty": {""}, "X-Utf8": {"café"}, "X-Long": {strings.Repeat("v", 4096)}}},
	{"cookie+if-none-match", http.Header{"Cookie": {"a=b; c=d"}, "If-None-Match": {`"etag"`}, "Accept-Encoding": {"identity"}}},
	// names that are NOT credential / impersonation / hop-by-hop headers but look like them: end-to-end, must arrive
	{"near-miss-names", http.Header{"X-Impersonate-User": {"u"}, "Impersonatex-User": {"u"}, "Impersonate": {"u"}, "X-Authorization": {"Bearer x"}, "Authorizationx": {"y"}, "Proxy-Connectionx": {"z"}, "X-Upgrade": {"w"}, "Keep-Alivex": {"k"}}},
	{"xff-two-lines", http.Header{"X-Forwarded-For": {"1.1.1.1, 2.2.2.2", "3.3.3.3"}}},
	{"conditional+range", http.Header{"If-Match": {`"a", "b"`}, "Range": {"bytes=0-9"}, "If-Modified-Since": {"Mon, 02 Jan 2006 15:04:05 GMT"}}},
	{"x-forwarded-others", http.Header{"X-Forwarded-Proto": {"https"}, "X-Forwarded-Host": {"orig.example.com"}, "Forwarded": {"for=9.9.9.9"}, "X-Real-Ip": {"9.9.9.9"}}},
	{"connection-two-listed", http.Header{"Connection": {"X-Hop-A, x-hop-b", "close"}, "X-Hop-A": {"1"}, "X-Hop-B": {"2"}, "X-Stays": {"3"}}},
}

type body struct {
	name    string
	data    []byte
	chunked bool
}

var bodies = []body{
	{"empty", nil, false}, {"1B", []byte("x"), false}, {"65537B", bytes.Repeat([]byte("ab0"), 21846)[:65537], false},
	{"1MiB", bytes.Repeat([]byte("0123456789abcdef"), 65536), false}, {"chunked-unknown-length", []byte("streamed body of unknown length"), true},
	// sizes around the buffers that sit on the path (1 KiB, 2 KiB, 4 KiB, 32 KiB copies) and bytes that are not text
	{"1024B", bytes.Repeat([]byte("k"), 1024), false}, {"1025B", bytes.Repeat([]byte("k"), 1025), false}, {"2049B", bytes.Repeat([]byte("k"), 2049), false}, {"4097B", bytes.Repeat([]byte("k"), 4097), false},
	{"32769B", bytes.Repeat([]byte("k"), 32769), false}, {"binary", []byte{0, 1, 2, 0xff, 0xfe, 0x80, '\r', '\n', 0, '\n'}, false}, {"chunked-100KiB", bytes.Repeat([]byte("c"), 100<<10), true},
}

var statuses = []int{200, 201, 202, 204, 206, 301, 304, 400, 401, 403, 404, 409, 410, 422, 429, 500, 501, 502, 503, 504}

var respHeaders = []hdr{
	{"ctype", http.Header{"Content-Type": {"application/json"}}},
	{"multi", http.Header{"X-Multi": {"a", "b"}, "Content-Type": {"text/plain"}}},
	{"cookies+warning", http.Header{"Set-Cookie": {"a=1", "b=2"}, "Warning": {`299 - "deprecated"`}}},
	{"cache-control+etag", http.Header{"Cache-Control": {"max-age=5"}, "Etag": {`"v1"`}, "Content-Type": {"application/json"}}},
	{"connection-listed-hop", http.Header{"Connection": {"X-Rhop"}, "X-Rhop": {"secret"}, "Content-Type": {"application/json"}}},
	{"location+retry-after", http.Header{"Location": {"/elsewhere?x=1"}, "Retry-After": {"7"}}},
	{"audit+custom", http.Header{"Audit-Id": {"abc"}, "X-Kubernetes-Pf-Flowschema-Uid": {"u"}, "Content-Type": {"application/vnd.kubernetes.protobuf"}}},
	{"www-authenticate+near-miss", http.Header{"Www-Authenticate": {`Basic realm="x"`, "Bearer"}, "X-Connection": {"keep"}, "Upgradex": {"u"}, "Content-Type": {"text/plain"}}},
	{"none", http.Header{}},
	{"connection-two-listed", http.Header{"Connection": {"X-Ra, x-rb"}, "X-Ra": {"1"}, "X-Rb": {"2"}, "X-Rstays": {"3"}, "Content-Type": {"application/json"}}},
}

type rbody struct {
	name   string
	chunks [][]byte
}

var respBodies = []rbody{
	{"empty", nil}, {"small", [][]byte{[]byte(`{"kind":"PodList","items":[]}`)}}, {"1MiB", [][]byte{bytes.Repeat([]byte("fedcba9876543210"), 65536)}},
	{"3-flushed-chunks", [][]byte{[]byte(`{"type":"ADDED"}` + "\n"), []byte(`{"type":"MODIFIED"}` + "\n"), []byte(`{"type":"DELETED"}` + "\n")}},
	{"5xx-sized-4KiB", [][]byte{bytes.Repeat([]byte("E"), 4096)}},
	{"1023B", [][]byte{bytes.Repeat([]byte("r"), 1023)}}, {"1024B", [][]byte{bytes.Repeat([]byte("r"), 1024)}}, {"1025B", [][]byte{bytes.Repeat([]byte("r"), 1025)}},
	{"2048B", [][]byte{bytes.Repeat([]byte("r"), 2048)}}, {"2049B", [][]byte{bytes.Repeat([]byte("r"), 2049)}}, {"32769B", [][]byte{bytes.Repeat([]byte("r"), 32769)}},
	{"binary", [][]byte{{0, 1, 2, 0xff, 0xfe, 0x80, '\r', '\n', 0, '\n'}}},
	{"small-then-large-chunk", [][]byte{[]byte("head\n"), bytes.Repeat([]byte("L"), 5000)}},
	{"200-tiny-chunks", func() [][]byte {
		var out [][]byte
		for i := 0; i < 200; i++ {
			out = append(out, []byte(fmt.Sprintf("%03d|", i)))
		}
		return out
	}()},
}

// ------------------------------------------------------------------ rig

type world struct {
	r  *e2e.Rig
	up *e2e.Upstream
}

func newWorld() *world {
	w := &world{r: e2e.New(), up: e2e.NewUpstream("u1")}
	w.r.AddCluster(e2e.ClusterObject("c1", w.up), nil)
	return w
}

// newObservedWorld: everything that watches a request go by is switched on - the proxy's access log and tracing
// options, the cluster's Tracing feature gate, logging for the cluster and its policy. None of it may touch what is
// forwarded.
func newObservedWorld() *world {
	w := &world{r: e2e.NewWithOptions(clusters.NewManager(), true, true), up: e2e.NewUpstream("u1")}
	o := e2e.ClusterObject("c1", w.up)
	o.Annotations = map[string]string{"proxy.kubegateway.io/feature-gates": "Tracing=true"}
	o.Spec.Logging.Mode = proxyv1alpha1.LogOn
	o.Spec.DispatchPolicies[0].LogMode = proxyv1alpha1.LogOn
	w.r.AddCluster(o, nil)
	return w
}

func (w *world) close() { w.r.Close(); w.up.Close() }

var hopByHop = map[string]bool{"Connection": true, "Keep-Alive": true, "Proxy-Authenticate": true, "Proxy-Authorization": true, "Te": true, "Trailer": true, "Transfer-Encoding": true, "Upgrade": true, "Proxy-Connection": true}

func connectionListed(h http.Header) map[string]bool {
	out := map[string]bool{}
	for _, v := range h["Connection"] {
		for _, f := range strings.Split(v, ",") {
			if f = strings.TrimSpace(f); f != "" {
				out[http.CanonicalHeaderKey(f)] = true
			}
		}
	}
	return out
}

func parseQ(raw string) url.Values {
	v, _ := url.ParseQuery(raw) // malformed pairs are dropped by both sides alike; what parses must arrive
	return v
}

// ------------------------------------------------------------------ request fidelity

func requestCase(c *ev.Check, w *world, m, p, q string, h hdr, b body) {
	c.Add("request_cases", 1)
	label := fmt.Sprintf("%s %s ?%s headers=%s body=%s", m, p, q, h.name, b.name)
	target := p
	if q != "" {
		target += "?" + q
	}
	var rd io.Reader
	if b.data != nil {
		rd = bytes.NewReader(b.data)
		if b.chunked {
			rd = struct{ io.Reader }{rd} // hides the length: chunked upload
		}
	}
	w.up.Requests()
	w.up.Respond = nil
	resp, _, err := w.r.Do(m, "c1", target, h.h, rd)
	if err != nil {
		c.Violation("request/client-error", fmt.Sprintf("%s: the client got a transport error: %v", label, err), label)
		return
	}
	got := w.up.Requests()
	viol := func(key, f string, a ...interface{}) {
		c.Violation("request/"+key, fmt.Sprintf("%s: ", label)+fmt.Sprintf(f, a...), map[string]interface{}{"method": m, "path": p, "query": q, "headers": h.name, "body": b.name})
	}
	if len(got) != 1 {
		viol("not-forwarded-once", "the upstream received %d requests (gateway answered %d)", len(got), resp.StatusCode)
		return
	}
	g := got[0]
	c.Outcome("request_shapes", fmt.Sprintf("%s/%s/%s/%s/%s", m, p, q, h.name, b.name))
	if g.Method != m {
		viol("method", "arrived as %s", g.Method)
	}
	sent, _ := url.Parse("http://x" + target)
	if g.Path != sent.Path {
		viol("path", "path %q arrived as %q", sent.Path, g.Path)
	} else if g.RawPath != sent.EscapedPath() {
		viol("escaped-path", "escaped path %q arrived as %q (an escaped byte changed its meaning for the upstream)", sent.EscapedPath(), g.RawPath)
	}
	if want, have := parseQ(q), parseQ(g.RawQuery); !reflect.DeepEqual(map[string][]string(want), map[string][]string(have)) && !(len(want) == 0 && len(have) == 0) {
		viol("query", "query %q arrived as %q", q, g.RawQuery)
	}
	if m != "HEAD" || true {
		if !bytes.Equal(g.Body, b.data) && !(len(g.Body) == 0 && len(b.data) == 0) {
			viol("body", "body of %d bytes arrived as %d bytes", len(b.data), len(g.Body))
		}
	}
	// headers
	listed := connectionListed(h.h)
	for k, vs := range h.h {
		k = http.CanonicalHeaderKey(k)
		if hopByHop[k] || listed[k] || k == "X-Forwarded-For" || k == "Authorization" || strings.HasPrefix(k, "Impersonate-") {
			if (hopByHop[k] || listed[k]) && k != "Te" && len(g.Header[k]) > 0 && k != "Connection" {
				viol("hop-by-hop-forwarded", "hop-by-hop header %s was forwarded: %v", k, g.Header[k])
			}
			continue
		}
		if !reflect.DeepEqual(g.Header[k], vs) {
			viol("header-changed", "end-to-end header %s %q arrived as %q", k, vs, g.Header[k])
		}
	}
	wantXFF := "127.0.0.1"
	if prior := h.h.Values("X-Forwarded-For"); len(prior) > 0 {
		wantXFF = strings.Join(prior, ", ") + ", 127.0.0.1" // several header lines are one list
	}
	if g.Header.Get("X-Forwarded-For") != wantXFF {
		viol("x-forwarded-for", "X-Forwarded-For is %q, expected %q", g.Header.Get("X-Forwarded-For"), wantXFF)
	}
	allowedExtra := map[string]bool{"Authorization": true, "Impersonate-User": true, "Impersonate-Group": true, "X-Forwarded-For": true, "Accept-Encoding": true, "User-Agent": true, "Content-Length": true, "Transfer-Encoding": true, "Te": true}
	for k := range g.Header {
		if _, sentIt := h.h[k]; !sentIt && !allowedExtra[k] && !strings.HasPrefix(k, "Impersonate-Extra-") {
			viol("header-added", "the upstream received header %s: %q which the client did not send", k, g.Header[k])
		}
	}
	if auth := g.Header["Authorization"]; len(auth) != 1 || auth[0] != "Bearer "+e2e.GatewayToken {
		viol("credential", "Authorization at the upstream is %q", auth)
	}
}

// ------------------------------------------------------------------ response fidelity

func responseCase(c *ev.Check, w *world, st int, h hdr, b rbody, m string) {
	c.Add("response_cases", 1)
	label := fmt.Sprintf("%s -> status=%d headers=%s body=%s", m, st, h.name, b.name)
	var sentBody []byte
	for _, ch := range b.chunks {
		sentBody = append(sentBody, ch...)
	}
	noBody := st == 204 || st == 304 || m == "HEAD"
	w.up.Requests()
	w.up.Respond = func(rw http.ResponseWriter, r *http.Request, _ *e2e.Captured) {
		for k, vs := range h.h {
			for _, v := range vs {
				rw.Header().Add(k, v)
			}
		}
		rw.WriteHeader(st)
		if noBody {
			return
		}
		for _, ch := range b.chunks {
			_, _ = rw.Write(ch)
			if len(b.chunks) > 1 {
				rw.(http.Flusher).Flush()
			}
		}
	}
	resp, gotBody, err := w.r.Do(m, "c1", "/api/v1/namespaces/ns/pods", nil, nil)
	viol := func(key, f string, a ...interface{}) {
		c.Violation("response/"+key, fmt.Sprintf("%s: ", label)+fmt.Sprintf(f, a...), map[string]interface{}{"method": m, "status": st, "headers": h.name, "body": b.name})
	}
	if err != nil {
		viol("client-error", "the client got an error: %v", err)
		return
	}
	c.Outcome("response_shapes", fmt.Sprintf("%d/%s/%s/%s", st, h.name, b.name, m))
	if resp.StatusCode != st {
		viol("status", "the client got status %d", resp.StatusCode)
	}
	if !noBody && !bytes.Equal(gotBody, sentBody) {
		viol("body", "upstream body of %d bytes reached the client as %d bytes (prefix %q)", len(sentBody), len(gotBody), prefix(gotBody))
	}
	listed := connectionListed(h.h)
	for k, vs := range h.h {
		k = http.CanonicalHeaderKey(k)
		if hopByHop[k] || listed[k] {
			if listed[k] && len(resp.Header[k]) > 0 {
				viol("hop-by-hop-relayed", "hop-by-hop response header %s reached the client", k)
			}
			continue
		}
		have := resp.Header[k]
		if st == 304 && k == "Content-Type" {
			continue // the stub upstream (net/http server) itself suppresses it on 304: it was never sent
		}
		if !reflect.DeepEqual(have, vs) {
			viol("header-changed", "upstream header %s %q reached the client as %q", k, vs, have)
		}
	}
	allowed := map[string]bool{"Date": true, "Content-Length": true, "Cache-Control": true, "Connection": true, "Transfer-Encoding": true, "Content-Type": true, "X-Content-Type-Options": true}
	for k := range resp.Header {
		if _, ok := h.h[k]; !ok && !allowed[k] {
			viol("header-added", "the client received header %s: %q which the upstream did not send", k, resp.Header[k])
		}
	}
}

func prefix(b []byte) string {
	if len(b) > 60 {
		b = b[:60]
	}
	return string(b)
}

func contains(l []string, x string) bool {
	for _, y := range l {
		if y == x {
			return true
		}
	}
	return false
}

// ------------------------------------------------------------------ gateway-terminated requests

func terminated(c *ev.Check) {
	r := e2e.New()
	defer r.Close()
	up := e2e.NewUpstream("t1")
	defer up.Close()
	o := e2e.ClusterObject("t", up)
	mif := func(n string, m int32) proxyv1alpha1.FlowControlSchema {
		return proxyv1alpha1.FlowControlSchema{Name: n, FlowControlSchemaConfiguration: proxyv1alpha1.FlowControlSchemaConfiguration{MaxRequestsInflight: &proxyv1alpha1.MaxRequestsInflightFlowControlSchema{Max: m}}}
	}
	o.Spec.FlowControl.Schemas = []proxyv1alpha1.FlowControlSchema{mif("zero", 0),
		{Name: "tb", FlowControlSchemaConfiguration: proxyv1alpha1.FlowControlSchemaConfiguration{TokenBucket: &proxyv1alpha1.TokenBucketFlowControlSchema{QPS: 1, Burst: 1}}}}
	rule := func(res ...string) []proxyv1alpha1.DispatchPolicyRule {
		return []proxyv1alpha1.DispatchPolicyRule{{Verbs: []string{"*"}, APIGroups: []string{"*"}, Resources: res}}
	}
	o.Spec.DispatchPolicies = []proxyv1alpha1.DispatchPolicy{
		{Strategy: proxyv1alpha1.RoundRobin, FlowControlSchemaName: "zero", Rules: rule("pods", "events")},
		{Strategy: proxyv1alpha1.RoundRobin, FlowControlSchemaName: "tb", Rules: rule("configmaps")},
		{Strategy: proxyv1alpha1.RoundRobin, Rules: rule("secrets")},
	}
	ci := r.AddCluster(o, nil)
	down := e2e.ClusterObject("down", up)
	dci := r.AddCluster(down, func(*clusters.EndpointInfo) bool { return true })
	for _, ep := range dci.AllEndpoints() {
		e, _ := dci.Endpoints.Load(ep)
		e.UpdateStatus(false, "Failure", "probe failed")
	}
	_ = ci
	type tc struct {
		name, host, method, target string
		hdr                        http.Header
		body                       []byte
		wantCode                   int
		wantReason                 metav1.StatusReason
		retryAfter                 string // "" = must be absent, "*" = any
		prep                       func()
	}
	big := bytes.Repeat([]byte("B"), 1<<20)
	cases := []tc{
		{"max-in-flight exhausted", "t", "GET", "/api/v1/pods", nil, nil, 429, metav1.StatusReasonTooManyRequests, "1", nil},
		{"max-in-flight exhausted, 1 MiB upload", "t", "POST", "/api/v1/namespaces/ns/pods", nil, big, 429, metav1.StatusReasonTooManyRequests, "1", nil},
		{"max-in-flight exhausted, events", "t", "POST", "/api/v1/namespaces/ns/events", nil, []byte("{}"), 429, metav1.StatusReasonTooManyRequests, "", nil},
		{"token bucket exhausted", "t", "GET", "/api/v1/configmaps", nil, nil, 429, metav1.StatusReasonTooManyRequests, "1", func() { _, _, _ = r.Do("GET", "t", "/api/v1/configmaps", nil, nil); up.Requests() }},
		{"unknown host", "nobody", "GET", "/api/v1/pods", nil, nil, 503, metav1.StatusReasonServiceUnavailable, "60", nil},
		{"unknown host, upload", "nobody:6443", "PUT", "/api/v1/namespaces/ns/pods/p", nil, big, 503, metav1.StatusReasonServiceUnavailable, "60", nil},
		{"no ready endpoint", "down", "GET", "/api/v1/pods", nil, nil, 503, metav1.StatusReasonServiceUnavailable, "60", nil},
		{"no ready endpoint, upload", "down", "POST", "/api/v1/namespaces/ns/pods", nil, big, 503, metav1.StatusReasonServiceUnavailable, "60", nil},
		{"refused impersonation", "t", "GET", "/api/v1/secrets", http.Header{"Impersonate-User": {"bob"}}, nil, 403, metav1.StatusReasonForbidden, "", nil},
		{"refused group impersonation, upload", "t", "POST", "/api/v1/namespaces/ns/secrets", http.Header{"Impersonate-User": {"bob"}, "Impersonate-Group": {"g"}}, big, 403, metav1.StatusReasonForbidden, "", nil},
		{"no matching policy", "t", "GET", "/api/v1/nodes", nil, nil, 500, metav1.StatusReasonInternalError, "*", nil},
	}
	r.SetAuthorize(func(a authorizer.Attributes) (authorizer.Decision, string, error) {
		if a.GetVerb() == "impersonate" {
			return authorizer.DecisionDeny, "no", nil
		}
		return authorizer.DecisionAllow, "", nil
	})
	for _, t := range cases {
		if t.prep != nil {
			t.prep()
		}
		c.Add("terminated_cases", 1)
		up.Requests()
		bytesBefore := up.BytesIn
		var rd io.Reader
		if t.body != nil {
			rd = bytes.NewReader(t.body)
		}
		resp, b, err := r.Do(t.method, t.host, t.target, t.hdr, rd)
		viol := func(key, f string, a ...interface{}) {
			c.Violation("terminated/"+key, fmt.Sprintf("%s: ", t.name)+fmt.Sprintf(f, a...), t.name)
		}
		if err != nil {
			viol("client-error", "%v", err)
			continue
		}
		c.Outcome("terminated_outcomes", fmt.Sprintf("%s/%d", t.name, resp.StatusCode))
		if n := len(up.Requests()); n != 0 || up.BytesIn != bytesBefore {
			viol("forwarded", "the gateway answered %d itself but the upstream received %d request(s), %d body bytes", resp.StatusCode, n, up.BytesIn-bytesBefore)
		}
		if resp.StatusCode != t.wantCode {
			viol("status", "answered %d, expected %d (%s)", resp.StatusCode, t.wantCode, prefix(b))
			continue
		}
		var st metav1.Status
		if err := json.Unmarshal(b, &st); err != nil || st.Kind != "Status" {
			viol("not-a-status", "the body is not an API Status: %q", prefix(b))
			continue
		}
		if int(st.Code) != resp.StatusCode || st.Status != metav1.StatusFailure {
			viol("status-code-mismatch", "Status.code=%d status=%q but HTTP %d", st.Code, st.Status, resp.StatusCode)
		}
		if st.Reason != t.wantReason {
			viol("reason", "Status.reason=%q, expected %q", st.Reason, t.wantReason)
		}
		ra := resp.Header.Get("Retry-After")
		switch t.retryAfter {
		case "":
			if ra != "" {
				viol("retry-after", "unexpected Retry-After %q", ra)
			}
		case "*":
		default:
			if ra == "" {
				viol("retry-after", "Retry-After is missing")
			}
		}
	}
}

// ------------------------------------------------------------------ upgrade requests (exec/attach/port-forward style)

func upgrades(c *ev.Check) {
	w := newWorld()
	defer w.close()
	for _, tc := range []struct{ path, query, proto string }{
		{"/api/v1/namespaces/ns/pods/p/exec", "command=ls&command=-l&stdin=true", "SPDY/3.1"},
		{"/api/v1/namespaces/a%2Fb/pods/p/attach", "", "SPDY/3.1"},
		{"/api/v1/namespaces/ns/pods/p/portforward", "ports=80", "websocket"},
	} {
		c.Add("upgrade_cases", 1)
		label := fmt.Sprintf("upgrade %s %s?%s", tc.proto, tc.path, tc.query)
		w.up.Requests()
		w.up.Respond = func(rw http.ResponseWriter, r *http.Request, _ *e2e.Captured) {
			conn, buf, err := rw.(http.Hijacker).Hijack()
			if err != nil {
				return
			}
			defer conn.Close()
			_, _ = buf.WriteString("HTTP/1.1 101 Switching Protocols\r\nConnection: Upgrade\r\nUpgrade: " + r.Header.Get("Upgrade") + "\r\nX-Stream-Protocol-Version: v4.channel.k8s.io\r\n\r\n")
			_ = buf.Flush()
			b := make([]byte, 64)
			n, _ := buf.Read(b)
			_, _ = conn.Write(append([]byte("echo:"), b[:n]...))
		}
		target := tc.path
		if tc.query != "" {
			target += "?" + tc.query
		}
		raw := "POST " + target + " HTTP/1.1\r\nHost: c1\r\nConnection: Upgrade\r\nUpgrade: " + tc.proto + "\r\nX-Stream-Protocol-Version: v4.channel.k8s.io\r\nX-Foo: bar\r\nContent-Length: 0\r\n\r\n"
		conn, err := netDial(w.r)
		if err != nil {
			c.Violation("upgrade/client-error", label+": "+err.Error(), label)
			continue
		}
		_, _ = conn.Write([]byte(raw))
		_ = conn.SetReadDeadline(time.Now().Add(20 * time.Second)) // generous: a verdict must not hinge on scheduling
		head := readUntil(conn, "\r\n\r\n")
		_, _ = conn.Write([]byte("ping-through-the-gateway"))
		echo := readUntil(conn, "gateway")
		conn.Close()
		viol := func(key, f string, a ...interface{}) {
			c.Violation("upgrade/"+key, label+": "+fmt.Sprintf(f, a...), label)
		}
		c.Outcome("upgrade_outcomes", fmt.Sprintf("%s/%v", tc.proto, strings.HasPrefix(head, "HTTP/1.1 101")))
		if !strings.HasPrefix(head, "HTTP/1.1 101") {
			viol("not-switched", "the client did not receive 101 Switching Protocols: %q", prefix([]byte(head)))
			continue
		}
		if !strings.Contains(head, "X-Stream-Protocol-Version: v4.channel.k8s.io") {
			viol("response-header-lost", "the upstream's upgrade response header did not reach the client: %q", head)
		}
		if echo != "echo:ping-through-the-gateway" {
			viol("stream-bytes", "bytes did not cross the upgraded connection both ways: %q", echo)
		}
		got := w.up.Requests()
		if len(got) != 1 {
			viol("not-forwarded-once", "the upstream received %d requests", len(got))
			continue
		}
		g := got[0]
		sent, _ := url.Parse("http://x" + target)
		if g.Method != "POST" || g.Path != sent.Path || g.RawPath != sent.EscapedPath() {
			viol("request-line", "arrived as %s %s (escaped %s)", g.Method, g.Path, g.RawPath)
		}
		if !reflect.DeepEqual(map[string][]string(parseQ(tc.query)), map[string][]string(parseQ(g.RawQuery))) && tc.query != "" {
			viol("query", "query %q arrived as %q", tc.query, g.RawQuery)
		}
		if g.Header.Get("X-Foo") != "bar" || g.Header.Get("X-Stream-Protocol-Version") != "v4.channel.k8s.io" || !strings.EqualFold(g.Header.Get("Upgrade"), tc.proto) {
			viol("headers", "upgrade request headers arrived as %v", g.Header)
		}
		// (with a bearer-token client config the upgrade path sends no Authorization header at all - the upgrade
		// round tripper that is unwrapped sits below client-go's bearer wrapper; the properties only demand that no
		// client credential arrives, so a missing credential is recorded, not judged: see DESIGN.md §0.6)
		if a := g.Header["Authorization"]; len(a) > 1 || len(a) == 1 && a[0] != "Bearer "+e2e.GatewayToken {
			viol("credential", "Authorization at the upstream is %q", a)
		} else if len(a) == 0 {
			c.Add("upgrade_without_gateway_credential", 1)
		}
		if g.Header.Get("Impersonate-User") != "alice" {
			viol("identity", "the upgraded request does not carry the gateway's impersonation headers: %v", g.Header)
		}
	}
}

func netDial(r *e2e.Rig) (net.Conn, error) {
	return net.DialTimeout("tcp", r.GW.Listener.Addr().String(), 2*time.Second)
}

func readUntil(conn net.Conn, marker string) string {
	var out []byte
	b := make([]byte, 1)
	for !strings.HasSuffix(string(out), marker) {
		n, err := conn.Read(b)
		if n > 0 {
			out = append(out, b[0])
		}
		if err != nil {
			break
		}
	}
	return string(out)
}

func main() {
	c := ev.Start("C04", "exploration")
	c.Assume = []string{
		"loopback HTTP/1.1 between client, gateway (real proxy handler chain behind an httptest server) and stub upstreams; HTTP/2 framing and TLS are not covered; upgrade requests (SPDY/3.1, websocket) are covered by three scenarios (request line, headers, 101 relayed, bytes both ways), not by a product",
		"path comparison is on the decoded path and on the escaped form; query comparison is on the parsed multimap (parameter order across keys and re-escaping are not judged; pairs that net/url cannot parse are outside the comparison)",
		"headers excepted at the upstream: hop-by-hop and Connection-listed headers, Authorization, Impersonate-*, X-Forwarded-For; headers the gateway's transport may add: Accept-Encoding, User-Agent; at the client: Date, Content-Length, Transfer-Encoding, Connection and the gateway's Cache-Control default when the upstream sent none",
	}
	var tasks []ev.Task
	thorough := c.Thorough()
	// request side: each dimension fully against defaults
	tasks = append(tasks, ev.Task{Name: "request-dimensions", Run: func() {
		w := newWorld()
		defer w.close()
		for _, m := range methods {
			requestCase(c, w, m, paths[0], queries[1], reqHeaders[0], bodyFor(m, bodies[1]))
		}
		for _, p := range paths {
			requestCase(c, w, "GET", p, "", reqHeaders[0], bodies[0])
		}
		for _, q := range queries {
			requestCase(c, w, "GET", paths[0], q, reqHeaders[0], bodies[0])
		}
		for _, h := range reqHeaders {
			requestCase(c, w, "POST", paths[0], "", h, bodies[1])
		}
		for _, b := range bodies {
			for _, m := range []string{"POST", "PUT", "PATCH"} {
				requestCase(c, w, m, paths[8], "", reqHeaders[2], b)
			}
		}
	}})
	// pairs (quick) / full product (thorough) inside {method, path, query}
	for mi, m := range methods {
		m := m
		_ = mi
		tasks = append(tasks, ev.Task{Name: "request-product-" + m, Run: func() {
			w := newWorld()
			defer w.close()
			for _, p := range paths {
				for _, q := range queries {
					if thorough {
						for _, b := range []body{bodies[0], bodies[1], bodies[4]} {
							for _, h := range []hdr{reqHeaders[0], reqHeaders[1], reqHeaders[3]} {
								requestCase(c, w, m, p, q, h, bodyFor(m, b))
							}
						}
					} else {
						requestCase(c, w, m, p, q, reqHeaders[1], bodyFor(m, bodies[1]))
					}
				}
			}
		}})
	}
	// full product inside {method, headers, body} (both tiers)
	for _, m := range methods {
		m := m
		tasks = append(tasks, ev.Task{Name: "request-header-body-product-" + m, Run: func() {
			w := newWorld()
			defer w.close()
			for _, h := range reqHeaders {
				for _, b := range bodies {
					requestCase(c, w, m, paths[2], queries[2], h, bodyFor(m, b))
				}
			}
		}})
	}
	// the same dimensions and the header x body product with every observer switched on (access log, tracing, logging)
	tasks = append(tasks, ev.Task{Name: "observed-request-dimensions", Run: func() {
		w := newObservedWorld()
		defer w.close()
		if ci, ok := w.r.Manager.Get("c1"); !ok || !ci.FeatureEnabled(features.Tracing) {
			c.EngineError("the observed world's cluster does not have the Tracing gate on: the tracing path would not be exercised")
			return
		}
		for _, m := range methods {
			for _, h := range reqHeaders {
				for _, b := range bodies {
					requestCase(c, w, m, paths[2], queries[2], h, bodyFor(m, b))
				}
			}
		}
		for _, p := range paths {
			for _, q := range queries {
				requestCase(c, w, "POST", p, q, reqHeaders[1], bodies[1])
			}
		}
	}})
	tasks = append(tasks, ev.Task{Name: "observed-response-product", Run: func() {
		w := newObservedWorld()
		defer w.close()
		for _, st := range statuses {
			for _, h := range respHeaders {
				for _, b := range respBodies {
					responseCase(c, w, st, h, b, "GET")
				}
			}
		}
	}})
	// response side
	tasks = append(tasks, ev.Task{Name: "response-dimensions", Run: func() {
		w := newWorld()
		defer w.close()
		for _, st := range statuses {
			responseCase(c, w, st, respHeaders[0], respBodies[1], "GET")
		}
		for _, h := range respHeaders {
			responseCase(c, w, 200, h, respBodies[1], "GET")
		}
		for _, b := range respBodies {
			responseCase(c, w, 200, respHeaders[0], b, "GET")
		}
		for _, m := range []string{"HEAD", "POST", "DELETE", "OPTIONS"} {
			responseCase(c, w, 200, respHeaders[0], respBodies[1], m)
		}
	}})
	for _, st := range statuses {
		st := st
		tasks = append(tasks, ev.Task{Name: fmt.Sprintf("response-product-%d", st), Run: func() {
			w := newWorld()
			defer w.close()
			for _, h := range respHeaders {
				for _, b := range respBodies {
					responseCase(c, w, st, h, b, "GET")
					if thorough {
						responseCase(c, w, st, h, b, "POST")
					}
				}
			}
		}})
	}
	tasks = append(tasks, ev.Task{Name: "terminated", Run: func() { terminated(c) }})
	tasks = append(tasks, ev.Task{Name: "upgrades", Run: func() { upgrades(c) }})
	c.RunTasks(tasks)
	names := []string{}
	for _, p := range paths {
		names = append(names, p)
	}
	sort.Strings(names)
	c.Finish(map[string]interface{}{
		"evaluations":         c.Counter("request_cases") + c.Counter("response_cases") + c.Counter("terminated_cases") + c.Counter("upgrade_cases"),
		"distinct_nontrivial": c.DistinctCount("request_shapes") + c.DistinctCount("response_shapes") + c.DistinctCount("terminated_outcomes"),
		"rule":                "request shapes: 7 methods x 12 paths (escaped space, slash, percent, question mark, UTF-8, double slash, trailing slash, root) x 11 queries x 9 header sets x 5 bodies (incl. 1 MiB and a chunked upload of unknown length) - each dimension fully, the method x path x query product with one header set and body in the quick tier, with 3 bodies x 3 header sets in the thorough tier; response shapes: 10 statuses x 7 header sets x 5 bodies (incl. flushed chunks and a 4 KiB error body), full product; 11 gateway-terminated cases; 8 ways a request ends. Distinct = shapes that reached the comparison.",
		"paths":               names,
	})
}

func bodyFor(m string, b body) body {
	if m == "GET" || m == "HEAD" || m == "OPTIONS" { // DELETE carries DeleteOptions in Kubernetes: it keeps its body
		return bodies[0]
	}
	return b
}
