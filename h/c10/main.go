// C10 — tenant resolution: a host resolves to at most one cluster, and the right one.
// Engine B: histories of create / update / delete / redelivery of clusters whose
// names and server-name lists overlap, collide, change case or move between
// clusters, on the real UpstreamClusterController + clusters.Manager; after
// every event hosts are resolved through the gateway's own request path and
// through its TLS callbacks.
package main

import (
	"bytes"
	"crypto/tls"
	"fmt"
	"github.com/kubewharf/kubegateway/pkg/zzverif/vsched"
	"sort"
	"strings"

	metav1 "k8s.io/apimachinery/pkg/apis/meta/v1"

	proxyv1alpha1 "github.com/kubewharf/kubegateway/pkg/apis/proxy/v1alpha1"
	"github.com/kubewharf/kubegateway/pkg/clusters"
	gatewaynet "github.com/kubewharf/kubegateway/pkg/gateway/net"

	"verifh/ctlrig"
	"verifh/ev"
	"verifh/xa"
	"verifh/xstate"
)

var mat = map[string]ctlrig.Material{"a": ctlrig.NewMaterial("a"), "b": ctlrig.NewMaterial("b")}

type version struct {
	id      string
	cluster string
	names   []string
	tls     string // "" = the cluster's usual material (a, b: certificate+key+client CA; x: none); "ca" = client CA only; "cert" = certificate+key only; "none"; "renew" = usual material with the certificate renewed under the SAME key
}

// which serving certificate a version carries (nil: none)
func (v *version) certDER() []byte {
	if c, _ := v.shape(); !c {
		return nil
	}
	if v.tls == "renew" {
		return mat[v.cluster].RenewedCertDER
	}
	return mat[v.cluster].CertDER
}

// shape of the TLS material a version carries: which of {serving certificate, client CA} it sets
func (v *version) shape() (cert, ca bool) {
	if v == nil {
		return false, false
	}
	_, has := mat[v.cluster]
	switch v.tls {
	case "", "renew":
		return has, has
	case "ca":
		return false, true
	case "cert":
		return true, false
	}
	return false, false
}

// the second search varies the SHAPE of the TLS material (partial material is legal: a cluster may bring only a
// client CA, or only a serving certificate) over a smaller name alphabet
var tlsVersions = []version{
	{"a[x]", "a", []string{"x"}, ""}, {"a(ca)[x]", "a", []string{"x"}, "ca"}, {"a(cert)[x]", "a", []string{"x"}, "cert"}, {"a(none)[x]", "a", []string{"x"}, "none"}, {"a(ca)", "a", nil, "ca"}, {"a(renew)[x]", "a", []string{"x"}, "renew"},
	{"b[y]", "b", []string{"y"}, ""}, {"b(ca)[x]", "b", []string{"x"}, "ca"}, {"b(cert)[Y,z]", "b", []string{"Y", "z"}, "cert"}, {"x", "x", nil, ""},
}

var versions = []version{
	{"a", "a", nil, ""}, {"a[x]", "a", []string{"x"}, ""}, {"a[x,y]", "a", []string{"x", "y"}, ""}, {"a[X]", "a", []string{"X"}, ""}, {"a[y]", "a", []string{"y"}, ""},
	{"b", "b", nil, ""}, {"b[x]", "b", []string{"x"}, ""}, {"b[a]", "b", []string{"a"}, ""}, {"b[y]", "b", []string{"y"}, ""}, {"b[Y,z]", "b", []string{"Y", "z"}, ""},
	{"x", "x", nil, ""}, // an object whose own name is what others use as a server name
}

func (v version) object() *proxyv1alpha1.UpstreamCluster {
	o := &proxyv1alpha1.UpstreamCluster{ObjectMeta: metav1.ObjectMeta{Name: v.cluster}}
	o.Spec.Servers = []proxyv1alpha1.UpstreamClusterServer{{Endpoint: "https://127.0.0.1:1"}}
	o.Spec.ClientConfig.Insecure = true
	o.Spec.SecureServing.ServerNames = v.names
	m := mat[v.cluster]
	if cert, ca := (&v).shape(); cert || ca {
		if cert {
			o.Spec.SecureServing.CertData, o.Spec.SecureServing.KeyData = m.CertPEM, m.KeyPEM
			if v.tls == "renew" {
				o.Spec.SecureServing.CertData = m.RenewedCertPEM
			}
		}
		if ca {
			o.Spec.SecureServing.ClientCAData = m.CAPEM
		}
	}
	return o
}

func (v version) lowerNames() []string {
	out := []string{v.cluster}
	for _, n := range v.names {
		out = append(out, strings.ToLower(n))
	}
	return out
}

var probeHosts = []string{"a", "A", "a:6443", "b", "B:443", "x", "X", "x:443", "y", "Y", "z", "q"}

type sys struct {
	rig      *ctlrig.Rig
	latest   map[string]*version                       // object in the lister per cluster
	applied  map[string]*version                       // last version whose delivery did not ask for a requeue
	pending  map[string]*proxyv1alpha1.UpstreamCluster // object whose last attempt asked for a requeue
	pendingV map[string]*version
	conflict bool // some delivery was refused so far
}

func resolveAll(s *sys) map[string]*clusters.ClusterInfo {
	out := map[string]*clusters.ClusterInfo{}
	for _, h := range probeHosts {
		ci, _ := s.rig.Resolve(h)
		out[h] = ci
	}
	return out
}

func verByID(list []version, id string) *version {
	for i := range list {
		if list[i].id == id {
			return &list[i]
		}
	}
	return nil
}

func contains(l []string, x string) bool {
	for _, y := range l {
		if y == x {
			return true
		}
	}
	return false
}

func spec() xstate.Spec { return specOver("tenant-histories", versions) }

func specOver(name string, versions []version) xstate.Spec {
	return xstate.Spec{
		Name: name,
		New: func() interface{} {
			return &sys{rig: ctlrig.New(), latest: map[string]*version{}, applied: map[string]*version{}, pending: map[string]*proxyv1alpha1.UpstreamCluster{}, pendingV: map[string]*version{}}
		},
		Events: func(si interface{}) []string {
			s := si.(*sys)
			var evs []string
			for _, v := range versions {
				if l := s.latest[v.cluster]; l == nil || l.id != v.id {
					evs = append(evs, "apply "+v.id)
				}
			}
			for _, c := range []string{"a", "b", "x"} {
				if s.latest[c] != nil {
					evs = append(evs, "delete "+c)
				}
				if s.pending[c] != nil {
					evs = append(evs, "redeliver "+c)
				}
			}
			return evs
		},
		Apply: func(si interface{}, e string) error {
			s := si.(*sys)
			f := strings.SplitN(e, " ", 2)
			before := resolveAll(s)
			var cluster string
			switch f[0] {
			case "apply", "redeliver":
				var v *version
				var obj *proxyv1alpha1.UpstreamCluster
				var requeue bool
				if f[0] == "apply" {
					v = verByID(versions, f[1])
					cluster = v.cluster
					obj = v.object()
					s.latest[cluster] = v
					res, err := s.rig.Apply(obj)
					requeue = err != nil || res.RequeueAfter > 0 || res.Requeue
				} else {
					cluster = f[1]
					v, obj = s.pendingV[cluster], s.pending[cluster]
					res, err := s.rig.Redeliver(obj)
					requeue = err != nil || res.RequeueAfter > 0 || res.Requeue
				}
				if requeue {
					s.pending[cluster], s.pendingV[cluster] = obj, v
					s.conflict = true
				} else {
					delete(s.pending, cluster)
					delete(s.pendingV, cluster)
					if s.latest[cluster] != nil { // (a redelivered object of a deleted cluster only cleans up)
						s.applied[cluster] = v
					}
				}
			case "delete":
				cluster = f[1]
				o := s.latest[cluster].object()
				delete(s.latest, cluster)
				delete(s.applied, cluster)
				if _, err := s.rig.Delete(o); err != nil {
					return fmt.Errorf("delete-failed: %v", err)
				}
			}
			after := resolveAll(s)
			// (S1) a host never resolves to a cluster that does not claim it (latest or last applied object)
			for h, ci := range after {
				if ci == nil {
					continue
				}
				name := gatewaynet.HostWithoutPort(h)
				claimed := false
				for _, v := range []*version{s.latest[ci.Cluster], s.applied[ci.Cluster], s.pendingV[ci.Cluster]} {
					if v != nil && contains(v.lowerNames(), name) {
						claimed = true
					}
				}
				if !claimed {
					return fmt.Errorf("resolves-to-non-claimant: after %q host %q is served by cluster %q, which does not claim that name (latest %v)", e, h, ci.Cluster, id(s.latest[ci.Cluster]))
				}
			}
			// (S2) an event on one cluster never removes or captures a name resolving to another cluster
			for h, ci := range before {
				if ci != nil && ci.Cluster != cluster && after[h] != ci {
					return fmt.Errorf("foreign-name-changed: %q changed the resolution of host %q, which belonged to cluster %q (now %s)", e, h, ci.Cluster, cname(after[h]))
				}
			}
			// (S3) the names of a deleted cluster stop resolving
			if f[0] == "delete" {
				for h, ci := range after {
					if ci != nil && ci.Cluster == cluster {
						return fmt.Errorf("deleted-still-resolves: cluster %q was deleted but host %q still resolves to it", cluster, h)
					}
				}
				for h, ci := range before {
					if ci != nil && ci.Cluster == cluster {
						select {
						case <-ci.Context().Done():
						default:
							return fmt.Errorf("deleted-not-stopped: cluster %q was deleted (it served %q) but its context is still live", cluster, h)
						}
					}
				}
			}
			// a cluster that still exists is never stopped by an event on another cluster
			for h, ci := range after {
				if ci != nil && ci.Cluster != cluster {
					select {
					case <-ci.Context().Done():
						return fmt.Errorf("foreign-cluster-stopped: %q stopped cluster %q (serving %q)", e, ci.Cluster, h)
					default:
					}
				}
			}
			// (S4) conflict-free so far: exactly the claimed names resolve, each to its cluster
			if !s.conflict {
				for _, h := range probeHosts {
					name := gatewaynet.HostWithoutPort(h)
					want := ""
					for c, v := range s.latest {
						if contains(v.lowerNames(), name) {
							want = c
						}
					}
					if cname(after[h]) != want {
						return fmt.Errorf("iff-broken: no conflict occurred; host %q should be served by %q but resolves to %q after %q", h, want, cname(after[h]), e)
					}
				}
			}
			// TLS material and verification options are those of the resolved cluster
			return s.checkTLS(after)
		},
		Canon: func(si interface{}) string {
			s := si.(*sys)
			var parts []string
			for _, c := range []string{"a", "b", "x"} {
				parts = append(parts, fmt.Sprintf("%s:%s/%s/%s", c, id(s.latest[c]), id(s.applied[c]), id(s.pendingV[c])))
			}
			r := resolveAll(s)
			var hs []string
			for _, h := range probeHosts {
				hs = append(hs, h+"="+cname(r[h]))
			}
			sort.Strings(hs)
			return fmt.Sprint(parts, hs, s.conflict)
		},
		Close: func(si interface{}) { si.(*sys).rig.Close() },
	}
}

func id(v *version) string {
	if v == nil {
		return "-"
	}
	return v.id
}

func cname(ci *clusters.ClusterInfo) string {
	if ci == nil {
		return ""
	}
	return ci.Cluster
}

var baseCfg = &tls.Config{MinVersion: tls.VersionTLS12}

// tlsShape: which material the resolved cluster's effective object carries. While versions of different shapes
// compete (a delivery of that cluster is waiting for its requeue, or latest and applied differ) it is not judged.
func (s *sys) tlsShape(ci *clusters.ClusterInfo) (cert, ca, judged bool) {
	if ci == nil {
		return false, false, true
	}
	l, a := s.latest[ci.Cluster], s.applied[ci.Cluster]
	lc, la := l.shape()
	ac, aa := a.shape()
	if l == nil || a == nil || s.pendingV[ci.Cluster] != nil || lc != ac || la != aa || !bytes.Equal(l.certDER(), a.certDER()) {
		return false, false, false
	}
	return lc, la, true
}

func (s *sys) checkTLS(res map[string]*clusters.ClusterInfo) error {
	get := s.rig.C.WrapGetConfigForClient(func(*tls.ClientHelloInfo) (*tls.Config, error) { return baseCfg, nil })
	for _, h := range probeHosts {
		sni := gatewaynet.HostWithoutPort(h)
		if strings.Contains(h, ":") {
			continue // SNI carries no port; the port forms go through SNIVerifyOptions below
		}
		cfg, err := get(&tls.ClientHelloInfo{ServerName: h})
		if err != nil {
			return fmt.Errorf("tls-callback-error: %v", err)
		}
		ci := res[h]
		m := mat[cname(ci)]
		wantCert, wantCA, judged := s.tlsShape(ci)
		if !judged {
			continue
		}
		if !wantCert && !wantCA {
			if cfg != baseCfg {
				return fmt.Errorf("tls-for-unserved-host: host %q is served by %q (no TLS material) but the handshake does not use the gateway's base configuration", h, cname(ci))
			}
			continue
		}
		if wantCert && (len(cfg.Certificates) != 1 || !bytes.Equal(cfg.Certificates[0].Certificate[0], s.applied[ci.Cluster].certDER())) {
			return fmt.Errorf("wrong-serving-certificate: host %q is served by cluster %q but the handshake does not present that cluster's current certificate (a renewal under the same key counts)", sni, ci.Cluster)
		}
		if !wantCert && len(cfg.Certificates) != 0 {
			return fmt.Errorf("foreign-serving-certificate: host %q is served by cluster %q, which brings no certificate, but the handshake presents one that is not the gateway's default", sni, ci.Cluster)
		}
		ok := false
		if cfg.ClientCAs != nil {
			for _, sub := range cfg.ClientCAs.Subjects() { //nolint
				if bytes.Equal(sub, m.CASubject) {
					ok = true
				}
			}
		}
		if wantCA && !ok {
			return fmt.Errorf("wrong-client-ca: host %q is served by cluster %q but its client-CA pool is not used in the handshake", sni, ci.Cluster)
		}
		if wantCA && cfg.ClientAuth != tls.RequestClientCert {
			return fmt.Errorf("client-cert-not-requested: host %q is served by cluster %q, which has a client CA, but the handshake does not request a client certificate (ClientAuth=%v)", sni, ci.Cluster, cfg.ClientAuth)
		}
		if !wantCA && cfg.ClientCAs != nil {
			return fmt.Errorf("foreign-client-ca: host %q is served by cluster %q, which brings no client CA, but the handshake announces a client-CA pool", sni, ci.Cluster)
		}
	}
	for _, h := range probeHosts {
		vo, ok := s.rig.C.SNIVerifyOptions(h)
		ci := res[h]
		m := mat[cname(ci)]
		_, wantCA, judged := s.tlsShape(ci)
		if !judged {
			continue
		}
		if ci == nil || !wantCA {
			if ok {
				return fmt.Errorf("verify-options-for-unserved-host: host %q (served by %q) got client-certificate verification options", h, cname(ci))
			}
			continue
		}
		found := false
		if ok && vo.Roots != nil {
			for _, sub := range vo.Roots.Subjects() { //nolint
				if bytes.Equal(sub, m.CASubject) {
					found = true
				}
			}
		}
		if !found {
			return fmt.Errorf("wrong-verify-options: host %q is served by cluster %q but client certificates are not verified against that cluster's CA", h, ci.Cluster)
		}
	}
	return nil
}

// ------------------------------------------------------------------ engine A: a lookup racing an update of the names
// "At every moment each name resolves ...": while an update changes a cluster's server-name list, the names it KEEPS
// (its own name, the aliases present before and after) must resolve to it at every point of the update - every
// interleaving of the name-table operations of the update with the lookups of a request and of a TLS handshake.

type obsNames struct {
	missing []string
}

func harnessNames(c *ev.Check, kind string, bound int) xa.Harness {
	name := "lookup-vs-" + kind
	body := func() interface{} {
		var ctl *ctlrig.Rig
		from, to := verByID(versions, "a[x,y]"), verByID(versions, "a[x]")
		switch kind {
		case "alias-added":
			from, to = verByID(versions, "a[x]"), verByID(versions, "a[x,y]")
		case "alias-replaced":
			from, to = verByID(versions, "a[x,y]"), verByID(versions, "a[X]") // y dropped, x kept (other spelling)
		}
		vsched.Passthrough(func() {
			ctl = ctlrig.New()
			if _, err := ctl.Apply(from.object()); err != nil {
				panic(err)
			}
		})
		o := &obsNames{}
		get := ctl.C.WrapGetConfigForClient(func(*tls.ClientHelloInfo) (*tls.Config, error) { return baseCfg, nil })
		vsched.GoNamed("update", func() {
			obj := to.object()
			vsched.Passthrough(func() { ctl.Store(obj) })
			_, _ = ctl.Redeliver(obj)
		})
		vsched.GoNamed("lookups", func() {
			for _, h := range []string{"a", "x", "a"} {
				if ci, ok := ctl.C.Get(h); !ok || ci == nil || ci.Cluster != "a" {
					o.missing = append(o.missing, "request for host "+h)
				}
			}
			if cfg, err := get(&tls.ClientHelloInfo{ServerName: "x"}); err != nil || cfg == baseCfg {
				o.missing = append(o.missing, "TLS handshake with SNI x")
			}
		})
		vsched.Join()
		vsched.Passthrough(func() { ctl.Close() })
		return o
	}
	check := func(x *vsched.Exec) error {
		o := x.Obs.(*obsNames)
		c.Outcome("name_race_outcomes", fmt.Sprint(name, len(o.missing)))
		if len(o.missing) > 0 {
			return fmt.Errorf("kept-name-vanishes-during-update: while cluster a's server names were being updated (%s), a name it keeps did not resolve to it: %v", kind, o.missing)
		}
		return nil
	}
	return xa.Harness{Name: name, Bound: bound, Shards: 1, Horizon: 20000, Body: body, Check: check}
}

func harnessesNames(c *ev.Check, b int) []xa.Harness {
	return []xa.Harness{harnessNames(c, "alias-dropped", b), harnessNames(c, "alias-added", b), harnessNames(c, "alias-replaced", b)}
}

func main() {
	c := ev.Start("C10", "model_checking")
	c.Assume = []string{
		"the harness plays the informer and the controller's single worker: it edits the lister's store and hands objects to syncUpstreamCluster (add-only hook VerifSync); an object whose attempt asked for a requeue may be redelivered (same object) at any later point",
		"hosts are resolved through ExtraRequestInfoFactory + the WithUpstreamInfo filter (request path) and through WrapGetConfigForClient / SNIVerifyOptions (TLS path); the TLS handshake itself is not performed",
		"in histories with a refused delivery the 'if and only if' is relaxed to: a host never resolves to a cluster that does not claim it, nobody else's names change, deleted clusters stop resolving; exact 'iff' is demanded while no delivery was refused",
	}
	if c.ReplayFile() != "" {
		xstate.ReplayIfAsked(c, []xstate.Spec{spec(), specOver("tls-shapes", tlsVersions)})
	}
	if c.ReplayFile() != "" {
		xa.ReplayIfAsked(c, harnessesNames(c, 0))
	}
	tasks := xstate.Tasks(c, spec(), c.Pick(6, 8), 16)
	for _, b := range []int{0, 1, 2, c.Pick(2, 3)} {
		for _, h := range harnessesNames(c, b) {
			tasks = append(tasks, xa.Tasks(c, h)...)
		}
	}
	tasks = append(tasks, xstate.Tasks(c, specOver("tls-shapes", tlsVersions), c.Pick(5, 7), 12)...)
	c.RunTasks(tasks)
	c.Finish(map[string]interface{}{
		"states":                        c.Counter("states"),
		"transitions":                   c.Counter("transitions"),
		"traces_validated_against_impl": c.Counter("replays"),
	})
}
