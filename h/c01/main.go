// C01 — routing: first matching dispatch policy with the documented rule semantics.
// Engine C: bounded-exhaustive enumeration of rule lists x requests against a
// reference matcher that implements the property statement literally.
package main

import (
	"fmt"
	"strings"


	proxyv1alpha1 "github.com/kubewharf/kubegateway/pkg/apis/proxy/v1alpha1"
	"github.com/kubewharf/kubegateway/pkg/clusters"

	"verifh/ev"
	"verifh/kit"
	"verifh/rulekit"
)

// ---------------------------------------------------------------- requests

type req = rulekit.Req
type field = rulekit.Field

var (
	fields, lists, wild, shape, saShape, merge = rulekit.Fields, rulekit.Lists, rulekit.Wild, rulekit.Shape, rulekit.SaShape, rulekit.Merge
	saSets                                     = rulekit.SaSets
	reqVerbs, reqUsers                         = rulekit.ReqVerbs, rulekit.ReqUsers
)

// ---------------------------------------------------------------- reference

// refList is the statement's list semantics. positive(entry) tells whether a
// positive entry matches the request. defined=false marks lists the statement
// does not define (excluded from comparison, still run for totality).
func refList(list []string, required bool, invertible bool, positive func(entry string) bool) (res, defined bool) {
	if len(list) == 0 {
		return !required, true
	}
	var pos, neg []string
	for _, e := range list {
		if e == "*" {
			return true, true
		}
		if len(e) > 0 && e[0] == '-' {
			neg = append(neg, e[1:])
		} else {
			pos = append(pos, e)
		}
	}
	if len(pos) > 0 {
		for _, e := range pos {
			if positive(e) {
				return true, true
			}
		}
		return false, true
	}
	if !invertible {
		return false, false
	}
	// all-inverted: exactly the requests the corresponding positive list does not match
	for _, e := range neg {
		if e == "*" {
			return false, true // "-*": the corresponding positive entry "*" matches everything
		}
		if positive(e) {
			return false, true
		}
	}
	return true, true
}

func globOK(e string) bool { return !strings.HasSuffix(e, "**") }

type fieldVerdict struct {
	name             string
	list             []string
	ref, def, actual bool
}

// perField evaluates every applicable field with the reference and with the
// real exported per-field matcher (used to name the culprit of a disagreement).
func perField(r req, rule *proxyv1alpha1.DispatchPolicyRule) []fieldVerdict {
	var out []fieldVerdict
	eq := func(want string) func(string) bool { return func(e string) bool { return e == want } }
	add := func(name string, list []string, actual bool, ref, def bool) {
		out = append(out, fieldVerdict{name, list, ref, def, actual})
	}
	v, d := refList(rule.Verbs, true, true, eq(r.Verb))
	add("verbs", rule.Verbs, proxyv1alpha1.VerbMatches(rule.Verbs, r.Verb), v, d)
	// users / service accounts
	if len(rule.Users) == 0 && len(rule.ServiceAccounts) == 0 {
		add("users", rule.Users, proxyv1alpha1.UserOrServiceAccountMatches(rule.Users, rule.ServiceAccounts, r.User), true, true)
	} else {
		um, ud := refList(rule.Users, true, true, func(e string) bool {
			if e == r.User {
				return true
			}
			return strings.HasSuffix(e, "*") && strings.HasPrefix(r.User, strings.TrimSuffix(e, "*"))
		})
		for _, e := range rule.Users {
			if !globOK(e) {
				ud = false
			}
		}
		sm := false
		for _, sa := range rule.ServiceAccounts {
			if sa.Namespace == "" || sa.Name == "" {
				continue // "serviceAccount name and namespace must be set"
			}
			if strings.HasPrefix(sa.Name, "-") || strings.HasPrefix(sa.Namespace, "-") {
				ud = false // inversion is documented as unsupported here
			}
			if "system:serviceaccount:"+sa.Namespace+":"+sa.Name == r.User {
				sm = true
			}
		}
		add("users", rule.Users, proxyv1alpha1.UserOrServiceAccountMatches(rule.Users, rule.ServiceAccounts, r.User), um || sm, ud)
	}
	v, d = refList(rule.UserGroups, false, true, func(e string) bool {
		for _, g := range r.Groups {
			if g == e {
				return true
			}
		}
		return false
	})
	add("userGroups", rule.UserGroups, proxyv1alpha1.UserGroupMatches(rule.UserGroups, r.Groups), v, d)
	if r.IsRes {
		v, d = refList(rule.APIGroups, true, true, eq(r.Group))
		add("apiGroups", rule.APIGroups, proxyv1alpha1.APIGroupMatches(rule.APIGroups, r.Group), v, d)
		combined := r.Resource
		if r.Sub != "" {
			combined = r.Resource + "/" + r.Sub
		}
		v, d = refList(rule.Resources, true, true, func(e string) bool {
			if e == combined {
				return true
			}
			return r.Sub != "" && e == "*/"+r.Sub
		})
		add("resources", rule.Resources, proxyv1alpha1.ResourceMatches(rule.Resources, combined, r.Sub), v, d)
		v, d = refList(rule.ResourceNames, false, true, eq(r.Name))
		add("resourceNames", rule.ResourceNames, proxyv1alpha1.ResourceNameMatches(rule.ResourceNames, r.Name), v, d)
	} else {
		ud := true
		for _, e := range rule.NonResourceURLs {
			if !globOK(e) {
				ud = false
			}
		}
		v, d = refList(rule.NonResourceURLs, true, false, func(e string) bool {
			if e == r.Path {
				return true
			}
			return strings.HasSuffix(e, "*") && strings.HasPrefix(r.Path, strings.TrimSuffix(e, "*"))
		})
		add("nonResourceURLs", rule.NonResourceURLs, proxyv1alpha1.NonResourceURLMatches(rule.NonResourceURLs, r.Path), v, d && ud)
	}
	return out
}

// refRule: a rule matches iff every applicable field matches.
func refRule(r req, rule *proxyv1alpha1.DispatchPolicyRule) (res, defined bool) {
	res, defined = true, true
	for _, f := range perField(r, rule) {
		if !f.def {
			defined = false
			continue
		}
		res = res && f.ref
	}
	if !defined && !res {
		// some defined field already refuses: the conjunction is false whatever the undefined field means
		return false, true
	}
	return res, defined
}

// culprit names the field(s) whose real matcher disagrees with the reference.
func culprit(r req, rule *proxyv1alpha1.DispatchPolicyRule) string {
	var c []string
	for _, f := range perField(r, rule) {
		if f.def && f.ref != f.actual {
			c = append(c, f.name+shape(f.list))
		}
	}
	if len(c) == 0 {
		return "conjunction-of-fields"
	}
	return strings.Join(c, "&")
}

// ---------------------------------------------------------------- alphabets

// classify gives a violation a stable key: the field and the shape of its list.
func main() {
	c := ev.Start("C01", "exploration")
	L := c.Pick(3, 4)
	c.Assume = []string{
		"alphabets of rule entries and request attributes are the ones listed in DESIGN.md C01 (taken from the branches of evaluation_helpers.go)",
		"all-inverted nonResourceURLs, inverted serviceAccounts and entries with several trailing '*' are run for totality only: the documentation does not define them",
		"reference matcher = the property statement, written independently in h/c01/main.go",
	}
	var tasks []ev.Task

	// (i) every list of one field x every request value, other fields wildcarded
	for _, f := range fields() {
		f := f
		tasks = append(tasks, ev.Task{Name: "field-" + f.Name, Run: func() {
			for _, l := range lists(f.Tokens, L) {
				sas := saSets[:1]
				if f.Name == "users" {
					sas = saSets
				}
				for _, sa := range sas {
					rule := wild()
					f.Set(&rule, l)
					rule.ServiceAccounts = sa
					for _, r := range f.Reqs() {
						compareRule(c, "field:"+f.Name, r, &rule, f.Name+shape(l)+saShape(sa))
					}
				}
			}
		}})
	}
	// (ii) conjunction: all pairs of fields, lists up to length L-1 (>=1), all request combinations of the two fields
	fs := fields()
	for i := 0; i < len(fs); i++ {
		for j := i + 1; j < len(fs); j++ {
			fi, fj := fs[i], fs[j]
			tasks = append(tasks, ev.Task{Name: "pair-" + fi.Name + "-" + fj.Name, Run: func() {
				Lp := L - 1
				for _, li := range lists(fi.Tokens, Lp) {
					for _, lj := range lists(fj.Tokens, Lp) {
						rule := wild()
						fi.Set(&rule, li)
						fj.Set(&rule, lj)
						for _, ri := range fi.Reqs() {
							for _, rj := range fj.Reqs() {
								if ri.IsRes != rj.IsRes {
									continue
								}
								r := merge(ri, rj, fj.Name)
								compareRule(c, "pair", r, &rule, "pair:"+fi.Name+shape(li)+"+"+fj.Name+shape(lj))
							}
						}
					}
				}
			}})
		}
	}
	// (iii) ordered policy lists through MatchPolicies and through ClusterInfo.Sync + MatchAttributes
	tasks = append(tasks, ev.Task{Name: "policy-lists", Run: func() { policyLists(c, c.Pick(3, 5)) }})
	c.RunTasks(tasks)

	c.Finish(map[string]interface{}{
		"evaluations":         c.Counter("rule_evaluations") + c.Counter("policy_evaluations"),
		"distinct_nontrivial": c.DistinctCount("rule_shapes_compared") + c.DistinctCount("policy_lists"),
		"rule": "full product of the stated token alphabets: (i) each field's lists up to length L x every request value, (ii) every pair of fields (lists up to L-1) x request combinations, (iii) every ordered list of up to P policies out of 6 rules x every request, through MatchPolicies and ClusterInfo.MatchAttributes. A case is non-trivial/distinct by its (field, list shape) or policy list; comparison against the reference matcher; undefined cases only run for totality.",
		"list_len_bound":      L,
	})
}

func compareRule(c *ev.Check, kind string, r req, rule *proxyv1alpha1.DispatchPolicyRule, key string) {
	c.Add("rule_evaluations", 1)
	var got bool
	if p := kit.Try(func() { got = clusters.RuleMatches(r.Attrs(), rule) }); p != "" {
		c.Violation("panic:"+key, "RuleMatches panicked: "+p, map[string]interface{}{"rule": rule, "request": r})
		return
	}
	// determinism: same inputs, same answer
	if again := clusters.RuleMatches(r.Attrs(), rule); again != got {
		c.Violation("nondeterministic:"+key, "RuleMatches gave two answers for the same input", map[string]interface{}{"rule": rule, "request": r})
	}
	want, defined := refRule(r, rule)
	if !defined {
		c.Add("undefined_by_statement", 1)
		return
	}
	c.Outcome("rule_shapes_compared", key)
	c.Outcome("verdicts", fmt.Sprint(want))
	if got != want {
		key = culprit(r, rule)
		if len(rule.ServiceAccounts) > 0 && strings.HasPrefix(key, "users") {
			key += saShape(rule.ServiceAccounts)
		}
		c.Violation(key, fmt.Sprintf("rule %s: request {%s} matched=%v, documented semantics say %v", kit.JSON(rule), r, got, want),
			map[string]interface{}{"rule": rule, "request": r, "got": got, "want": want})
	} else if kind == "field:resources" || kind == "field:users" {
		c.Sample(kind, map[string]interface{}{"rule": rule, "request": r.String(), "matches": got})
	}
}

// policyLists: all ordered lists of up to P policies drawn from 6 representative rules.
func policyLists(c *ev.Check, P int) {
	mk := func(mut func(r *proxyv1alpha1.DispatchPolicyRule)) proxyv1alpha1.DispatchPolicyRule {
		r := wild()
		mut(&r)
		return r
	}
	rules := []proxyv1alpha1.DispatchPolicyRule{
		mk(func(r *proxyv1alpha1.DispatchPolicyRule) { r.Resources = []string{"pods"}; r.NonResourceURLs = nil }),
		mk(func(r *proxyv1alpha1.DispatchPolicyRule) { r.Verbs = []string{"get"} }),
		mk(func(r *proxyv1alpha1.DispatchPolicyRule) { r.Users = []string{"alice"} }),
		mk(func(r *proxyv1alpha1.DispatchPolicyRule) { r.Resources = nil; r.APIGroups = nil; r.NonResourceURLs = []string{"/healthz"} }),
		mk(func(r *proxyv1alpha1.DispatchPolicyRule) { r.Verbs = []string{"list", "watch"}; r.UserGroups = []string{"g1"} }),
		mk(func(r *proxyv1alpha1.DispatchPolicyRule) {}),
	}
	var reqs []req
	for _, v := range reqVerbs {
		for _, u := range []string{"alice", "bob"} {
			for _, g := range [][]string{{}, {"g1"}} {
				for _, res := range []string{"pods", "nodes"} {
					reqs = append(reqs, req{Verb: v, User: u, Groups: g, Resource: res, IsRes: true, Name: "a"})
				}
				for _, p := range []string{"/healthz", "/version"} {
					reqs = append(reqs, req{Verb: v, User: u, Groups: g, Path: p})
				}
			}
		}
	}
	servers := []proxyv1alpha1.UpstreamClusterServer{{Endpoint: "http://127.0.0.1:1"}, {Endpoint: "http://127.0.0.1:2"}}
	// every policy carries a unique flow-control schema name so that the chosen policy is observable through MatchAttributes
	var idx []int
	var rec func(depth int)
	other := kit.NewClusterInfo("other", servers, nil)
	defer other.Stop()
	rec = func(depth int) {
		// evaluate the current list
		var pols []proxyv1alpha1.DispatchPolicy
		for pos, ri := range idx {
			pols = append(pols, proxyv1alpha1.DispatchPolicy{Rules: []proxyv1alpha1.DispatchPolicyRule{rules[ri]}, FlowControlSchemaName: fmt.Sprintf("p%d-r%d", pos, ri)})
		}
		ci := kit.NewClusterInfo("c1", servers, pols)
		c.Outcome("policy_lists", fmt.Sprint(idx))
		for _, r := range reqs {
			c.Add("policy_evaluations", 1)
			want := -1
			for pos := range pols {
				if m, _ := refRule(r, &pols[pos].Rules[0]); m {
					want = pos
					break
				}
			}
			got := -1
			if p := clusters.MatchPolicies(r.Attrs(), pols); p != nil {
				for pos := range pols {
					if p == &pols[pos] {
						got = pos
					}
				}
			}
			key := "policy-order"
			if got != want {
				c.Violation(key, fmt.Sprintf("policies %v request {%s}: MatchPolicies chose #%d, first matching is #%d", idx, r, got, want), map[string]interface{}{"policies": idx, "request": r})
			}
			check := func(when string) {
				picker, err := ci.MatchAttributes(r.Attrs())
				if want < 0 {
					if err != clusters.ErrNoRouterRuleMatches || picker != nil {
						c.Violation("nomatch-not-rejected", fmt.Sprintf("policies %v request {%s} (%s): no policy matches but MatchAttributes returned picker=%v err=%v", idx, r, when, picker != nil, err), nil)
					}
					return
				}
				if err != nil || picker == nil {
					c.Violation("match-rejected", fmt.Sprintf("policies %v request {%s} (%s): policy #%d matches but MatchAttributes failed: %v", idx, r, when, want, err), nil)
					return
				}
				if picker.FlowControlName() != pols[want].FlowControlSchemaName {
					c.Violation("clusterinfo-policy-order", fmt.Sprintf("policies %v request {%s} (%s): cluster handled it under %s, first matching policy is %s", idx, r, when, picker.FlowControlName(), pols[want].FlowControlSchemaName), nil)
				}
			}
			check("first")
			// depends only on attributes and the current list: an unrelated sync of another cluster changes nothing
			_ = other.Sync(kit.Upstream("other", servers, pols[:len(pols)/2]))
			check("after unrelated sync")
		}
		ci.Stop()
		if depth == P {
			return
		}
		for ri := range rules {
			idx = append(idx, ri)
			rec(depth + 1)
			idx = idx[:len(idx)-1]
		}
	}
	rec(0)
}
