package main

import (
	"context"

	metav1 "k8s.io/apimachinery/pkg/apis/meta/v1"

	proxyv1alpha1 "github.com/kubewharf/kubegateway/pkg/apis/proxy/v1alpha1"
	gatewayclientset "github.com/kubewharf/kubegateway/pkg/client/kubernetes"
	proxyclient "github.com/kubewharf/kubegateway/pkg/client/kubernetes/typed/proxy/v1alpha1"
	"github.com/kubewharf/kubegateway/pkg/zzverif/vsched"
)

// yieldClient makes every RateLimitCondition API call a schedule point taken
// BEFORE the call (the fake clientset holds its own lock while reactors run, so
// a yield inside a reactor would block other threads for real).
type yieldClient struct {
	gatewayclientset.Interface
	on *bool
}

func (y yieldClient) ProxyV1alpha1() proxyclient.ProxyV1alpha1Interface {
	return yieldProxy{y.Interface.ProxyV1alpha1(), y.on}
}

type yieldProxy struct {
	proxyclient.ProxyV1alpha1Interface
	on *bool
}

func (y yieldProxy) RateLimitConditions() proxyclient.RateLimitConditionInterface {
	return yieldRLC{y.ProxyV1alpha1Interface.RateLimitConditions(), y.on}
}

type yieldRLC struct {
	proxyclient.RateLimitConditionInterface
	on *bool
}

func (y yieldRLC) pt() {
	if *y.on {
		vsched.Point()
	}
}

func (y yieldRLC) Create(ctx context.Context, c *proxyv1alpha1.RateLimitCondition, o metav1.CreateOptions) (*proxyv1alpha1.RateLimitCondition, error) {
	y.pt()
	return y.RateLimitConditionInterface.Create(ctx, c, o)
}
func (y yieldRLC) Update(ctx context.Context, c *proxyv1alpha1.RateLimitCondition, o metav1.UpdateOptions) (*proxyv1alpha1.RateLimitCondition, error) {
	y.pt()
	return y.RateLimitConditionInterface.Update(ctx, c, o)
}
func (y yieldRLC) Delete(ctx context.Context, name string, o metav1.DeleteOptions) error {
	y.pt()
	return y.RateLimitConditionInterface.Delete(ctx, name, o)
}
func (y yieldRLC) Get(ctx context.Context, name string, o metav1.GetOptions) (*proxyv1alpha1.RateLimitCondition, error) {
	y.pt()
	return y.RateLimitConditionInterface.Get(ctx, name, o)
}
func (y yieldRLC) List(ctx context.Context, o metav1.ListOptions) (*proxyv1alpha1.RateLimitConditionList, error) {
	y.pt()
	return y.RateLimitConditionInterface.List(ctx, o)
}
