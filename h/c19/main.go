// C19 — API-backed limiter store: acknowledged state survives crashes, per shard.
// Engine C: every operation sequence up to a bound x every single API fault
// (kind x call index) x every crash point, on the real objectStore over the
// fake clientset whose object tracker is the durable state; after each run a
// new store loads the shard and is compared with a reference of acknowledged
// operations. Engine A: a periodic flush racing Delete / Save.
package main

import (
	"fmt"
	"sort"
	"strings"
	"time"

	apierrors "k8s.io/apimachinery/pkg/api/errors"
	metav1 "k8s.io/apimachinery/pkg/apis/meta/v1"
	"k8s.io/apimachinery/pkg/labels"
	"k8s.io/apimachinery/pkg/runtime"
	"k8s.io/apimachinery/pkg/runtime/schema"
	k8stesting "k8s.io/client-go/testing"

	proxyv1alpha1 "github.com/kubewharf/kubegateway/pkg/apis/proxy/v1alpha1"
	gatewayclientset "github.com/kubewharf/kubegateway/pkg/client/kubernetes"
	gwfake "github.com/kubewharf/kubegateway/pkg/client/kubernetes/fake"
	_interface "github.com/kubewharf/kubegateway/pkg/ratelimiter/store/interface"
	"github.com/kubewharf/kubegateway/pkg/ratelimiter/store/k8s"
	"github.com/kubewharf/kubegateway/pkg/ratelimiter/util"
	"github.com/kubewharf/kubegateway/pkg/zzverif/vsched"
	"github.com/kubewharf/kubegateway/pkg/zzverif/vtime"

	"verifh/ev"
	"verifh/kit"
	"verifh/xa"
)

var gvr = proxyv1alpha1.SchemeGroupVersion.WithResource("ratelimitconditions")
var gvk = proxyv1alpha1.SchemeGroupVersion.WithKind("RateLimitCondition")

// upstream names in shard 0 and shard 1 of 2
var u0, u1 = func() (string, string) {
	var a, b string
	for i := 0; a == "" || b == ""; i++ {
		n := fmt.Sprintf("up%d", i)
		if util.GetShardID(n, 2) == 0 && a == "" {
			a = n
		} else if util.GetShardID(n, 2) == 1 && b == "" {
			b = n
		}
	}
	return a, b
}()

func cond(upstream, name string, v int32) *proxyv1alpha1.RateLimitCondition {
	// the label changes with the value: a save that carries new metadata must persist the new metadata
	return &proxyv1alpha1.RateLimitCondition{ObjectMeta: metav1.ObjectMeta{Name: name, Labels: map[string]string{"proxy.kubegateway.io/ratelimitcondition.instance": fmt.Sprintf("gw-%s-%d", name, v%2)}},
		Spec: proxyv1alpha1.RateLimitSpec{UpstreamCluster: upstream, Instance: "gw-" + name,
			LimitItemConfigurations: []proxyv1alpha1.RateLimitItemConfiguration{{Name: "s", LimitItemDetail: proxyv1alpha1.LimitItemDetail{MaxRequestsInflight: &proxyv1alpha1.MaxRequestsInflightFlowControlSchema{Max: v}}}}}}
}

func content(c *proxyv1alpha1.RateLimitCondition) string {
	return c.Spec.UpstreamCluster + kit.JSON(c.Spec.LimitItemConfigurations) + kit.JSON(c.Status) + kit.JSON(c.Labels)
}

type crashSignal struct{}

// env is one run's API server: the fake clientset plus a call counter, a fault plan and a crash point
type env struct {
	gw      *gwfake.Clientset
	calls   int
	faultAt int // -1 none
	fault   string
	crashAt int // -1 none: the process dies when call #crashAt is about to be issued
	log     []string
	yield   bool // engine A: every API call is a schedule point
}

func newEnv(pre ...runtime.Object) *env {
	e := &env{gw: gwfake.NewSimpleClientset(pre...), faultAt: -1, crashAt: -1}
	e.gw.PrependReactor("*", "ratelimitconditions", func(a k8stesting.Action) (bool, runtime.Object, error) {
		idx := e.calls
		e.calls++
		e.log = append(e.log, a.GetVerb())
		if idx == e.crashAt {
			panic(crashSignal{})
		}
		gr := schema.GroupResource{Group: gvr.Group, Resource: gvr.Resource}
		if idx == e.faultAt && !(e.fault == "NotFound" && a.GetVerb() == "delete") {
			// (a NotFound answer to the delete of an existing object would be the API lying about its state;
			// injected faults are the ones a correct API server can give whatever the object's state is)
			// like the real typed client: a non-nil empty object together with the error
			empty := &proxyv1alpha1.RateLimitCondition{}
			switch e.fault {
			case "NotFound":
				return true, empty, apierrors.NewNotFound(gr, "x")
			case "Conflict":
				return true, empty, apierrors.NewConflict(gr, "x", fmt.Errorf("conflict"))
			case "AlreadyExists":
				return true, empty, apierrors.NewAlreadyExists(gr, "x")
			case "ServerTimeout":
				return true, empty, apierrors.NewServerTimeout(gr, a.GetVerb(), 1)
			}
		}
		// the real API server refuses nameless objects (the fake tracker would store them)
		switch act := a.(type) {
		case k8stesting.CreateAction:
			if o, ok := act.GetObject().(*proxyv1alpha1.RateLimitCondition); ok && o.Name == "" {
				return true, &proxyv1alpha1.RateLimitCondition{}, apierrors.NewBadRequest("name is required")
			}
		case k8stesting.UpdateAction:
			if o, ok := act.GetObject().(*proxyv1alpha1.RateLimitCondition); ok && o.Name == "" {
				return true, &proxyv1alpha1.RateLimitCondition{}, apierrors.NewBadRequest("name is required")
			}
		}
		return false, nil, nil
	})
	return e
}

// client is what the store under test talks to
func (e *env) client() gatewayclientset.Interface { return yieldClient{e.gw, &e.yield} }

func (e *env) persisted() map[string]string {
	out := map[string]string{}
	objs, err := e.gw.Tracker().List(gvr, gvk, "")
	if err != nil {
		return out
	}
	for _, c := range objs.(*proxyv1alpha1.RateLimitConditionList).Items {
		c := c
		out[c.Name] = content(&c)
	}
	return out
}

// ------------------------------------------------------------------ operations

type op struct {
	kind string
	c    *proxyv1alpha1.RateLimitCondition
}

func (o op) String() string {
	if o.c != nil {
		return fmt.Sprintf("%s(%s@%s=%d)", o.kind, o.c.Name, o.c.Spec.UpstreamCluster, o.c.Spec.LimitItemConfigurations[0].MaxRequestsInflight.Max)
	}
	return o.kind
}

func alphabet() []op {
	return []op{
		{"Save", cond(u0, "c1", 1)}, {"Save", cond(u0, "c1", 2)}, {"Save", cond(u0, u0+".state", 1)}, {"Save", cond(u1, "d1", 1)}, // (<upstream>.state is the name under which the limiter keeps an upstream's totals)
		{"Delete", cond(u0, "c1", 0)}, {"DeleteUpstream", nil}, {"Flush", nil}, {"Stop", nil},
	}
}

// model of acknowledged state
type model struct {
	acked   map[string]string // name -> content of the latest acknowledged save
	deleted map[string]bool   // acknowledged deletes not followed by a save attempt
	tainted map[string]bool   // an unacknowledged (failed/crashed) operation touched the name: persisted content is open
	stopped bool
}

type result struct {
	viol     []string
	calls    int
	crashed  bool
	ackSaves int
}

// run executes ops on a fresh store over e and judges the run.
func run(e *env, period time.Duration, ops []op) (res result) {
	st := k8s.NewK8sCacheStore(e.client(), period, 0, 2)
	m := &model{acked: map[string]string{}, deleted: map[string]bool{}, tainted: map[string]bool{}}
	pre := e.persisted()
	add := func(f string, a ...interface{}) { res.viol = append(res.viol, fmt.Sprintf(f, a...)) }
	defer func() {
		if r := recover(); r != nil {
			if _, ok := r.(crashSignal); !ok {
				add("panic: the store panicked: %v", r)
			} else {
				res.crashed = true
			}
		}
		res.calls = e.calls
		e.crashAt, e.faultAt = -1, -1
		judge(e, m, pre, period, &res)
	}()
	for _, o := range ops {
		if m.stopped {
			break // a store that stopped gracefully is discarded by its owner; nothing is sent to it any more
		}
		switch o.kind {
		case "Save":
			name := o.c.Name
			m.tainted[name] = true // until acknowledged
			err := st.Save(o.c.Spec.UpstreamCluster, o.c.DeepCopy())
			if util.GetShardID(o.c.Spec.UpstreamCluster, 2) != 0 {
				if err == nil {
					add("foreign-shard-saved: Save of %s (upstream %s, shard 1) was accepted by the shard-0 store", name, o.c.Spec.UpstreamCluster)
				}
				delete(m.tainted, name)
				continue
			}
			if err == nil {
				res.ackSaves++
				m.acked[name] = content(o.c)
				delete(m.deleted, name)
				if period == 0 {
					delete(m.tainted, name)
					// write-through: acknowledged means persisted, now
					if got, ok := e.persisted()[name]; !ok || got != m.acked[name] {
						add("acked-not-persisted: Save(%s) returned nil in write-through mode but the API holds %q (want %q)", name, got, m.acked[name])
					}
				}
			}
		case "Delete":
			name := o.c.Name
			m.tainted[name] = true
			if err := st.Delete(u0, name); err == nil {
				delete(m.acked, name)
				delete(m.tainted, name)
				m.deleted[name] = true
				if _, ok := e.persisted()[name]; ok {
					add("deleted-still-persisted: Delete(%s) returned nil but the API still holds it", name)
				}
			}
		case "DeleteUpstream":
			names := []string{}
			for _, c := range st.ListUpstream(u0) {
				names = append(names, c.Name)
				m.tainted[c.Name] = true
			}
			if err := st.DeleteUpstream(u0); err == nil {
				for _, n := range names {
					delete(m.acked, n)
					delete(m.tainted, n)
					m.deleted[n] = true
					if _, ok := e.persisted()[n]; ok {
						add("deleted-still-persisted: DeleteUpstream returned nil but the API still holds %s", n)
					}
				}
			}
		case "Flush", "Stop":
			var err error
			if o.kind == "Flush" {
				err = st.Flush()
			} else {
				err = st.Stop()
			}
			if err == nil && o.kind == "Stop" {
				m.stopped = true
			}
			if err == nil {
				// everything acknowledged locally is persisted now
				p := e.persisted()
				for n, want := range m.acked {
					if got, ok := p[n]; !ok || got != want {
						add("flush-incomplete: %s returned nil but condition %s is persisted as %q (acknowledged %q)", o.kind, n, got, want)
					}
					delete(m.tainted, n)
				}
				for n := range m.deleted {
					if _, ok := p[n]; ok && !m.tainted[n] {
						add("deleted-reappeared: %s re-created the deleted condition %s", o.kind, n)
					}
				}
			}
		}
	}
	return res
}

// judge: a new holder of shard 0 loads exactly the persisted conditions of the shard; acknowledged
// write-through saves are among them; acknowledged deletes are not; foreign objects are untouched.
func judge(e *env, m *model, pre map[string]string, period time.Duration, res *result) {
	add := func(f string, a ...interface{}) { res.viol = append(res.viol, fmt.Sprintf(f, a...)) }
	p := e.persisted()
	// foreign (shard 1) objects untouched
	for n, c := range pre {
		if strings.HasPrefix(c, u1) {
			if p[n] != c {
				add("foreign-shard-changed: the shard-0 store changed persisted condition %s of shard 1: %q -> %q", n, c, p[n])
			}
		}
	}
	fresh := k8s.NewK8sCacheStore(e.gw, 0, 0, 2)
	if err := fresh.Load(); err != nil {
		add("load-failed: %v", err)
		return
	}
	loaded := map[string]string{}
	for _, c := range fresh.List(labels.Everything()) {
		loaded[c.Name] = content(c)
	}
	// and when the API fails the gaining server's one List call: Load either reports the failure or has loaded everything
	own := 0
	for _, c := range p {
		if strings.HasPrefix(c, u0) {
			own++
		}
	}
	if own > 0 {
		for _, kind := range []string{"NotFound", "ServerTimeout", "InternalError"} {
			armed := true
			kind := kind
			e.gw.PrependReactor("list", "ratelimitconditions", func(k8stesting.Action) (bool, runtime.Object, error) {
				if !armed {
					return false, nil, nil
				}
				armed = false
				gr := schema.GroupResource{Group: "proxy.kubegateway.io", Resource: "ratelimitconditions"}
				switch kind {
				case "NotFound":
					return true, nil, apierrors.NewNotFound(gr, "")
				case "ServerTimeout":
					return true, nil, apierrors.NewServerTimeout(gr, "list", 1)
				}
				return true, nil, apierrors.NewInternalError(fmt.Errorf("etcd unavailable"))
			})
			second := k8s.NewK8sCacheStore(e.gw, 0, 0, 2)
			err := second.Load()
			armed = false
			if n := len(second.List(labels.Everything())); err == nil && n != own {
				add("load-succeeds-partially: the gaining server's List call was answered %s; Load reported success with %d of the shard's %d persisted conditions", kind, n, own)
			}
		}
	}
	for n, c := range p {
		mine := strings.HasPrefix(c, u0)
		if got, ok := loaded[n]; mine && (!ok || got != c) {
			add("load-misses-own: persisted condition %s of shard 0 was not loaded (got %q)", n, got)
		} else if !mine && ok {
			add("load-takes-foreign: condition %s of shard 1 was loaded by the shard-0 store", n)
		}
	}
	for n := range loaded {
		if _, ok := p[n]; !ok {
			add("load-invents: %s was loaded but is not persisted", n)
		}
	}
	if period == 0 {
		for n, want := range m.acked {
			if m.tainted[n] {
				continue
			}
			if got := loaded[n]; got != want {
				add("acked-lost: Save(%s) was acknowledged (write-through) but the next holder loads %q instead of %q", n, got, want)
			}
		}
	}
	for n := range m.deleted {
		if _, ok := loaded[n]; ok && !m.tainted[n] {
			add("deleted-reappeared: the acknowledged delete of %s is undone: the next holder loads it", n)
		}
	}
	_ = fresh.Stop()
}

func key(v string) string {
	if i := strings.Index(v, ": "); i > 0 {
		return v[:i]
	}
	return v
}

// enumerate all op sequences of length <= L for one mode
func enumerate(c *ev.Check, period time.Duration, L int, first int) {
	alpha := alphabet()
	mode := "write-through"
	if period > 0 {
		mode = "periodic"
	}
	pre := func() []runtime.Object {
		// a condition persisted by a previous holder of shard 0, and one owned by the holder of shard 1
		return []runtime.Object{cond(u0, "p0", 7), cond(u1, "q1", 9)}
	}
	var seq []int
	var rec func()
	report := func(kind string, res result, detail string) {
		for _, v := range res.viol {
			c.Violation(mode+"/"+key(v), fmt.Sprintf("%s [%s; ops %s]", v, detail, seqString(alpha, seq)), map[string]interface{}{"mode": mode, "ops": seqString(alpha, seq), "injection": detail})
		}
		c.Outcome("run_outcomes", fmt.Sprintf("%s/%s/%d/%v/%d", mode, kind, res.calls, res.crashed, len(res.viol)))
	}
	rec = func() {
		if len(seq) > 0 {
			ops := make([]op, len(seq))
			for i, k := range seq {
				ops[i] = alpha[k]
			}
			// fault-free run counts the API calls
			e := newEnv(pre()...)
			base := run(e, period, ops)
			c.Add("runs", 1)
			c.Add("op_sequences", 1)
			report("plain", base, "no fault")
			if len(seq) <= 2 && period == 0 {
				c.Sample("sequence", map[string]interface{}{"mode": mode, "ops": seqString(alpha, seq), "api_calls": e.log})
			}
			for i := 0; i < base.calls+1; i++ {
				for _, f := range []string{"NotFound", "Conflict", "AlreadyExists", "ServerTimeout"} {
					e := newEnv(pre()...)
					e.faultAt, e.fault = i, f
					r := run(e, period, ops)
					c.Add("runs", 1)
					c.Add("fault_runs", 1)
					report("fault", r, fmt.Sprintf("%s at API call #%d", f, i))
				}
				e := newEnv(pre()...)
				e.crashAt = i
				r := run(e, period, ops)
				c.Add("runs", 1)
				c.Add("crash_runs", 1)
				report("crash", r, fmt.Sprintf("crash before API call #%d", i))
			}
		}
		if len(seq) == L {
			return
		}
		for k := range alpha {
			if len(seq) == 0 && k != first {
				continue
			}
			seq = append(seq, k)
			rec()
			seq = seq[:len(seq)-1]
		}
	}
	rec()
}

func seqString(alpha []op, seq []int) string {
	var s []string
	for _, k := range seq {
		s = append(s, alpha[k].String())
	}
	return strings.Join(s, ", ")
}

// ------------------------------------------------------------------ engine A: flush vs delete / save

type obsA struct {
	persisted map[string]string
	loaded    []string
	delErr    error
	saveAck   bool
}

func harnessA(c *ev.Check, name string, other string, bound, shards int) xa.Harness {
	body := func() interface{} {
		var e *env
		var st _interface.LimitStore
		o := &obsA{}
		vsched.Passthrough(func() {
			e = newEnv()
			st = k8s.NewK8sCacheStore(e.client(), time.Hour, 0, 2)
			_ = st.Save(u0, cond(u0, "c1", 1))
			_ = st.Save(u0, cond(u0, "c2", 1))
			_ = st.Flush()
			e.yield = true
		})
		vsched.GoNamed("flush", func() { _ = st.Flush() })
		vsched.GoNamed(other, func() {
			switch other {
			case "delete":
				o.delErr = st.Delete(u0, "c1")
			case "deleteUpstream":
				o.delErr = st.DeleteUpstream(u0)
			case "save":
				o.saveAck = st.Save(u0, cond(u0, "c1", 5)) == nil
			}
		})
		vsched.Join()
		vsched.Passthrough(func() {
			e.yield = false
			_ = st.Stop() // graceful stop
			o.persisted = e.persisted()
			fresh := k8s.NewK8sCacheStore(e.gw, 0, 0, 2)
			_ = fresh.Load()
			for _, x := range fresh.List(labels.Everything()) {
				o.loaded = append(o.loaded, x.Name+"="+content(x))
			}
			sort.Strings(o.loaded)
		})
		return o
	}
	check := func(x *vsched.Exec) error {
		o := x.Obs.(*obsA)
		c.Outcome("flush_race_outcomes", name+fmt.Sprint(o.loaded))
		switch other {
		case "delete", "deleteUpstream":
			if o.delErr == nil {
				if _, ok := o.persisted["c1"]; ok {
					return fmt.Errorf("deleted-reappeared: %s of c1 was acknowledged, yet after the concurrent flush and a graceful stop the API holds c1 again (next holder loads %v)", other, o.loaded)
				}
			}
		case "save":
			if o.saveAck && o.persisted["c1"] != content(cond(u0, "c1", 5)) {
				return fmt.Errorf("flush-incomplete: Save(c1=5) was acknowledged and the store stopped gracefully, but the API holds %q", o.persisted["c1"])
			}
		}
		return nil
	}
	return xa.Harness{Name: name, Bound: bound, Shards: shards, Horizon: 20000, Body: body, Check: check}
}

func harnesses(c *ev.Check, b int) []xa.Harness {
	return []xa.Harness{
		harnessA(c, "flush-vs-delete", "delete", b, 1),
		harnessA(c, "flush-vs-deleteUpstream", "deleteUpstream", b, 1),
		harnessA(c, "flush-vs-save", "save", b, 1),
	}
}

func main() {
	c := ev.Start("C19", "fault_enumeration")
	vsched.DropGo = true                       // the store's only goroutine is its periodic flush loop; flushes are triggered through Flush()/Stop()
	vtime.SetVirtual(time.Unix(1700000000, 0)) // retry back-off sleeps of client-go/apimachinery advance the virtual clock instead of waiting
	c.Assume = []string{
		"the fake clientset's object tracker is the durable state; reactors make it behave like the real API on the two points that matter here: a failing call returns a non-nil empty object with the error (typed REST client), and create/update of a nameless object is refused",
		"a crash is a panic raised when the next API call is about to be issued (recovered by the driver); the process state is then discarded and a new store loads the shard",
		"write-through mode = sync period 0; periodic mode uses a one-hour period so that only Flush()/Stop() write",
		"injected faults are answers a correct API server may give in any state (not found for update/get/create, conflict, already exists, server timeout = not applied); NotFound is not injected into deletes of existing objects",
		"unacknowledged operations (error returned, or crash in the middle) leave the persisted content of the names they touched open; everything acknowledged is judged",
	}
	if c.ReplayFile() != "" {
		xa.ReplayIfAsked(c, harnesses(c, 0))
	}
	L := c.Pick(5, 6)
	var tasks []ev.Task
	for _, period := range []time.Duration{0, time.Hour} {
		for k := range alphabet() {
			period, k := period, k
			tasks = append(tasks, ev.Task{Name: fmt.Sprintf("enum-%v-first%d", period, k), Run: func() { enumerate(c, period, L, k) }})
		}
	}
	bounds := []int{0, 1, 2}
	if c.Thorough() {
		bounds = []int{0, 1, 2, 3}
	}
	for _, b := range bounds {
		for _, h := range harnesses(c, b) {
			tasks = append(tasks, xa.Tasks(c, h)...)
		}
	}
	c.RunTasks(tasks)
	c.Finish(map[string]interface{}{
		"evaluations":         c.Counter("runs") + c.Counter("schedules"),
		"distinct_nontrivial": c.DistinctCount("run_outcomes") + c.DistinctCount("flush_race_outcomes"),
		"rule":                "every operation sequence of length <= L over {Save c1=1, Save c1=2, Save of the upstream's <upstream>.state condition, Save of a shard-1 condition, Delete c1, DeleteUpstream, Flush, Stop} in write-through and periodic mode; for each: the fault-free run, every (API call index x {NotFound, Conflict, AlreadyExists, ServerTimeout}) and every crash point; plus all interleavings (preemption-bounded) of Flush racing Delete/DeleteUpstream/Save. Distinct = (mode, injection kind, API calls made, crashed, verdict) classes.",
		"sequence_len_bound":  L,
		"schedules":           c.Counter("schedules"),
	})
}
