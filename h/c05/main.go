// C05 — local max-in-flight: never more than M admitted and unfinished; slots never leak.
//
//	A (vsched): concurrent acquire / release / resize on the real limiter stack
//	  (upstreamLimiter -> localWrapper -> meterWrapper -> flowControl -> zoumo
//	  atomic bucket, all instrumented), linearizability against a counter with
//	  limit, and a no-leak / no-phantom-slot probe at quiescence.
//	B (xstate): histories of reconfigurations (resize, type changes, delete /
//	  re-add, other schema, other cluster) interleaved with acquires and
//	  releases done the way the dispatcher does them (release on the object that
//	  was handed to the request).
package main

import (
	"context"
	"fmt"
	"sort"
	"strings"

	proxyv1alpha1 "github.com/kubewharf/kubegateway/pkg/apis/proxy/v1alpha1"
	"github.com/kubewharf/kubegateway/pkg/flowcontrols"
	"github.com/kubewharf/kubegateway/pkg/flowcontrols/flowcontrol"
	"github.com/kubewharf/kubegateway/pkg/zzverif/vsched"

	"verifh/ev"
	"verifh/exitpaths"
	"verifh/lin"
	"verifh/xa"
	"verifh/xstate"
)

func mif(name string, m int32) proxyv1alpha1.FlowControlSchema {
	return proxyv1alpha1.FlowControlSchema{Name: name, FlowControlSchemaConfiguration: proxyv1alpha1.FlowControlSchemaConfiguration{MaxRequestsInflight: &proxyv1alpha1.MaxRequestsInflightFlowControlSchema{Max: m}}}
}
func tb(name string, qps, burst int32) proxyv1alpha1.FlowControlSchema {
	return proxyv1alpha1.FlowControlSchema{Name: name, FlowControlSchemaConfiguration: proxyv1alpha1.FlowControlSchemaConfiguration{TokenBucket: &proxyv1alpha1.TokenBucketFlowControlSchema{QPS: qps, Burst: burst}}}
}
func exempt(name string) proxyv1alpha1.FlowControlSchema {
	return proxyv1alpha1.FlowControlSchema{Name: name, FlowControlSchemaConfiguration: proxyv1alpha1.FlowControlSchemaConfiguration{Exempt: &proxyv1alpha1.ExemptFlowControlSchema{}}}
}
func spec(s ...proxyv1alpha1.FlowControlSchema) proxyv1alpha1.FlowControl {
	return proxyv1alpha1.FlowControl{Schemas: s}
}

// ------------------------------------------------------------------ engine A

type aop struct {
	Kind string // acquire | release | resize
	M    int32
}
type aout struct{ OK bool }

type cstate struct{ Count, M int32 }

// maxDuring[i] = the largest limit that may have been in force at some instant of acquire call i (an acquire
// that overlaps a resize may be decided under the old or the new limit; the property speaks about requests
// arriving after the change)
func limitsDuring(initial int32, ops []lin.Op) map[int]int32 {
	type period struct {
		m        int32
		from, to int
	}
	var rs []lin.Op
	for _, o := range ops {
		if o.In.(aop).Kind == "resize" {
			rs = append(rs, o)
		}
	}
	sort.Slice(rs, func(i, j int) bool { return rs[i].Call < rs[j].Call })
	ps := []period{{initial, 0, 1 << 30}}
	for _, r := range rs {
		ps[len(ps)-1].to = r.Ret
		ps = append(ps, period{r.In.(aop).M, r.Call, 1 << 30})
	}
	out := map[int]int32{}
	for _, o := range ops {
		if o.In.(aop).Kind != "acquire" {
			continue
		}
		best := int32(-1)
		for _, p := range ps {
			if p.from <= o.Ret && o.Call <= p.to && p.m > best {
				best = p.m
			}
		}
		out[o.Call] = best
	}
	return out
}

var during map[int]int32

var model = lin.Model{
	Step: func(s interface{}, op lin.Op) []interface{} {
		st := s.(cstate)
		in := op.In.(aop)
		switch in.Kind {
		case "acquire":
			if !op.Out.(aout).OK {
				return []interface{}{st} // a refusal is always allowed while operations overlap (safety is what is decided)
			}
			lim := st.M
			if d, ok := during[op.Call]; ok && d > lim {
				lim = d
			}
			if st.Count < lim {
				st.Count++
				return []interface{}{st}
			}
			return nil
		case "release":
			st.Count--
			return []interface{}{st}
		case "resize":
			st.M = in.M
			return []interface{}{st}
		}
		return nil
	},
	Key: func(s interface{}) string { return fmt.Sprint(s) },
}

type scenarioA struct {
	name    string
	m       int32
	held    int     // requests already admitted (and still in flight) when the threads start
	threads [][]aop // per thread; "release" releases what this thread acquired last (or one of the held ones)
	finalM  int32
}

type obsA struct {
	ops      []lin.Op
	probeOK  int
	probeM   int32
	leftover int
}

func harnessA(c *ev.Check, sc scenarioA, bound, shards int) xa.Harness {
	body := func() interface{} {
		var lim flowcontrols.UpstreamLimiter
		var cancel context.CancelFunc
		vsched.Passthrough(func() {
			var ctx context.Context
			ctx, cancel = context.WithCancel(context.Background())
			lim = flowcontrols.NewUpstreamLimiter(ctx, "c1", "", nil)
			lim.Sync(spec(mif("s", sc.m)))
		})
		rec := &lin.Recorder{}
		var heldFC []flowcontrol.FlowControl
		for i := 0; i < sc.held; i++ {
			fc := lim.GetOrDefault("s")
			ok := rec.Do(0, aop{Kind: "acquire"}, func() interface{} { return aout{fc.TryAcquire()} }).(aout).OK
			if ok {
				heldFC = append(heldFC, fc)
			}
		}
		outstanding := len(heldFC)
		for ti, ops := range sc.threads {
			ti, ops := ti, ops
			vsched.GoNamed(fmt.Sprintf("T%d", ti+1), func() {
				var mine []flowcontrol.FlowControl
				for _, o := range ops {
					o := o
					switch o.Kind {
					case "acquire":
						fc := lim.GetOrDefault("s") // what the dispatcher does per request
						out := rec.Do(ti+1, o, func() interface{} { return aout{fc.TryAcquire()} }).(aout)
						if out.OK {
							mine = append(mine, fc)
							outstanding++
						}
						vsched.Logf("acquire -> %v", out.OK)
					case "release":
						var fc flowcontrol.FlowControl
						if len(mine) > 0 {
							fc, mine = mine[len(mine)-1], mine[:len(mine)-1]
						} else if len(heldFC) > 0 {
							fc, heldFC = heldFC[len(heldFC)-1], heldFC[:len(heldFC)-1]
						} else {
							continue // nothing to release: a request releases only what it was admitted with
						}
						rec.Do(ti+1, o, func() interface{} { fc.Release(); return aout{true} })
						outstanding--
						vsched.Logf("release")
					case "resize":
						rec.Do(ti+1, o, func() interface{} { lim.Sync(spec(mif("s", o.M))); return aout{true} })
						vsched.Logf("resize %d", o.M)
					}
				}
				// everything this thread still holds finishes now
				for _, fc := range mine {
					fc := fc
					rec.Do(ti+1, aop{Kind: "release"}, func() interface{} { fc.Release(); return aout{true} })
					outstanding--
				}
			})
		}
		vsched.Join()
		o := &obsA{ops: rec.Ops}
		for _, fc := range heldFC {
			fc.Release()
			outstanding--
		}
		o.leftover = outstanding
		// quiescence: every admitted request has finished; exactly finalM new ones must be admitted
		fc := lim.GetOrDefault("s")
		var got []flowcontrol.FlowControl
		for i := int32(0); i < sc.finalM+2; i++ {
			if fc.TryAcquire() {
				got = append(got, fc)
			}
		}
		o.probeOK, o.probeM = len(got), sc.finalM
		for _, g := range got {
			g.Release()
		}
		vsched.Passthrough(func() {
			lim.Sync(spec()) // stops the meters
			cancel()
		})
		return o
	}
	check := func(x *vsched.Exec) error {
		o := x.Obs.(*obsA)
		c.Outcome("mif_outcomes", sc.name+strings.Join(x.Log, ","))
		m := model
		m.Init = func() interface{} { return cstate{M: sc.m} }
		during = limitsDuring(sc.m, o.ops)
		if ok, _ := lin.Check(m, o.ops); !ok {
			return fmt.Errorf("over-admission: no sequential order of the calls keeps admitted-and-unfinished <= limit: %s", opsString(o.ops))
		}
		if o.probeOK > int(o.probeM) {
			return fmt.Errorf("phantom-slot: all requests finished, limit %d, but %d new requests were admitted", o.probeM, o.probeOK)
		}
		if o.probeOK < int(o.probeM) {
			return fmt.Errorf("slot-leak: all requests finished, limit %d, but only %d new requests were admitted", o.probeM, o.probeOK)
		}
		return nil
	}
	return xa.Harness{Name: sc.name, Bound: bound, Shards: shards, Horizon: 20000, Body: body, Check: check}
}

func opsString(ops []lin.Op) string {
	var s []string
	for _, o := range ops {
		in := o.In.(aop)
		s = append(s, fmt.Sprintf("T%d[%d,%d] %s%v->%v", o.Thread, o.Call, o.Ret, in.Kind, in.M, o.Out.(aout).OK))
	}
	return strings.Join(s, "; ")
}

func scenarios(thorough bool) []scenarioA {
	acq, rel := aop{Kind: "acquire"}, aop{Kind: "release"}
	rs := func(m int32) aop { return aop{Kind: "resize", M: m} }
	sc := []scenarioA{
		{name: "h1-three-acquire-release-m1", m: 1, threads: [][]aop{{acq, rel}, {acq, rel}, {acq, rel}}, finalM: 1},
		{name: "h1-three-acquire-release-m2", m: 2, threads: [][]aop{{acq, rel}, {acq, rel}, {acq, rel}}, finalM: 2},
		{name: "h2-acquirers-vs-resize-2to1", m: 2, threads: [][]aop{{acq}, {acq}, {rs(1)}}, finalM: 1},
		{name: "h2-acquirers-vs-resize-1to2", m: 1, threads: [][]aop{{acq}, {acq}, {rs(2)}}, finalM: 2},
		{name: "h2-acquirers-vs-resize-1to0", m: 1, threads: [][]aop{{acq}, {acq}, {rs(0)}}, finalM: 0},
		{name: "h3-full-release-vs-acquires", m: 2, held: 2, threads: [][]aop{{acq}, {rel}, {acq}}, finalM: 2},
		{name: "h4-two-releases-vs-acquire", m: 1, held: 1, threads: [][]aop{{rel}, {acq, rel}}, finalM: 1},
	}
	if thorough {
		sc = append(sc, scenarioA{name: "h5-acquire-release-twice-m1", m: 1, threads: [][]aop{{acq, rel, acq, rel}, {acq, rel, acq, rel}}, finalM: 1},
			scenarioA{name: "h6-resize-down-up-vs-acquirers", m: 2, held: 1, threads: [][]aop{{acq, rel}, {acq}, {rs(1), rs(2)}}, finalM: 2})
	}
	return sc
}

// ------------------------------------------------------------------ engine B

type request struct {
	fc    flowcontrol.FlowControl
	epoch int // -1: not admitted under a max-in-flight schema
	open  bool
}

type sysB struct {
	lim, lim2 flowcontrols.UpstreamLimiter
	cancel    context.CancelFunc
	cur       string // current kind of schema "s": mif1 mif2 mif0 tb exempt absent
	strat     string // its strategy field ("" local globalCount): not a limit, editing it must not touch the accounting
	other     bool
	global    bool // the max-in-flight schema also carries the (larger) global member: local mode / local fallback go by the local max all the same
	epoch     int
	reqs      []request
}

func (s *sysB) limit() int32 {
	switch s.cur {
	case "mif1":
		return 1
	case "mif2":
		return 2
	case "mif0":
		return 0
	}
	return -1
}

func (s *sysB) inflight() int {
	n := 0
	for _, r := range s.reqs {
		if r.open && r.epoch == s.epoch {
			n++
		}
	}
	return n
}

func (s *sysB) apply() {
	var sch []proxyv1alpha1.FlowControlSchema
	switch s.cur {
	case "mif1":
		sch = append(sch, mif("s", 1))
	case "mif2":
		sch = append(sch, mif("s", 2))
	case "mif0":
		sch = append(sch, mif("s", 0))
	case "tb":
		sch = append(sch, tb("s", 1000, 1000))
	case "exempt":
		sch = append(sch, exempt("s"))
	}
	for i := range sch {
		sch[i].Strategy = proxyv1alpha1.LimitStrategy(s.strat)
		if s.global && sch[i].MaxRequestsInflight != nil {
			sch[i].GlobalMaxRequestsInflight = &proxyv1alpha1.MaxRequestsInflightFlowControlSchema{Max: 10}
		}
	}
	if s.other {
		sch = append(sch, mif("S", 1))
	}
	s.lim.Sync(spec(sch...))
}

func specB() xstate.Spec { return specBMode("") }

// specBMode: mode "remote" = the gateway runs with the remote rate limiter selected but no limiter server to talk to
// (no client set): every schema falls back to its local limiter through Load()'s other branch - the local limit binds
// there exactly as in local mode
// (the second schema is named "S": a name that differs from "s" only in case is another schema)
func specBMode(mode string) xstate.Spec {
	kinds := []string{"mif1", "mif2", "mif0", "tb", "exempt", "absent"}
	name := "reconfiguration-histories"
	if mode != "" {
		name += "-" + mode + "-fallback"
	}
	return xstate.Spec{
		Name: name,
		New: func() interface{} {
			ctx, cancel := context.WithCancel(context.Background())
			s := &sysB{lim: flowcontrols.NewUpstreamLimiter(ctx, "c1", mode, nil), lim2: flowcontrols.NewUpstreamLimiter(ctx, "c2", mode, nil), cancel: cancel, cur: "mif1", epoch: 1}
			s.apply()
			s.lim2.Sync(spec(mif("s", 1)))
			return s
		},
		Events: func(si interface{}) []string {
			s := si.(*sysB)
			evs := []string{"acquire"}
			for i, r := range s.reqs {
				if r.open {
					evs = append(evs, fmt.Sprintf("release %d", i))
				}
			}
			for _, k := range kinds {
				if k != s.cur {
					evs = append(evs, "sync "+k)
				}
			}
			for _, st := range []string{"", "local", "globalCount"} {
				if st != s.strat && s.cur != "absent" {
					evs = append(evs, "strategy "+st)
				}
			}
			evs = append(evs, "toggle-other", "toggle-global-member", "exhaust-other", "exhaust-other-cluster")
			return evs
		},
		Apply: func(si interface{}, e string) error {
			s := si.(*sysB)
			f := strings.Fields(e)
			switch f[0] {
			case "sync":
				wasMIF := s.limit() >= 0
				s.cur = f[1]
				s.apply()
				if s.limit() >= 0 && !wasMIF {
					s.epoch++ // the schema became a max-in-flight schema again
				}
			case "strategy":
				// same type, same limit: the requests in flight stay counted (no new epoch)
				s.strat = ""
				if len(f) > 1 {
					s.strat = f[1]
				}
				s.apply()
			case "toggle-other":
				s.other = !s.other
				s.apply()
			case "toggle-global-member":
				s.global = !s.global
				s.apply()
			case "exhaust-other", "exhaust-other-cluster":
				// exhausting another schema / the same schema of another cluster must not cause a rejection here
				var fc flowcontrol.FlowControl
				if f[0] == "exhaust-other" {
					if !s.other {
						return nil
					}
					fc = s.lim.GetOrDefault("S")
				} else {
					fc = s.lim2.GetOrDefault("s")
				}
				n := 0
				for fc.TryAcquire() && n < 3 {
					n++
				}
				defer func() {
					for ; n > 0; n-- {
						fc.Release()
					}
				}()
				if m := s.limit(); m >= 0 && s.inflight() < int(m) {
					mine := s.lim.GetOrDefault("s")
					if !mine.TryAcquire() {
						return fmt.Errorf("cross-limit-rejection: schema s has %d of %d in flight but rejects while %s is exhausted", s.inflight(), m, f[0][8:])
					}
					mine.Release()
				}
			case "acquire":
				fc := s.lim.GetOrDefault("s")
				ok := fc.TryAcquire()
				m := s.limit()
				if m < 0 {
					if ok {
						s.reqs = append(s.reqs, request{fc: fc, epoch: -1, open: true})
					}
					return nil
				}
				if ok && s.inflight() >= int(m) {
					return fmt.Errorf("over-admission: limit %d, %d requests admitted since the schema last became max-in-flight are unfinished, and another one was admitted", m, s.inflight())
				}
				if !ok && s.inflight() < int(m) {
					open := 0
					for _, r := range s.reqs {
						if r.open {
							open++
						}
					}
					if open == 0 {
						return fmt.Errorf("slot-leak: no request is in flight, limit %d, but a new request was rejected", m)
					}
					// stricter than configured while older requests are in flight is not what the property forbids
				}
				if ok {
					s.reqs = append(s.reqs, request{fc: fc, epoch: s.epoch, open: true})
				}
			case "release":
				var i int
				fmt.Sscanf(f[1], "%d", &i)
				s.reqs[i].fc.Release()
				s.reqs[i].open = false
			}
			// whenever everything has finished, exactly M fresh requests are admitted
			open := 0
			for _, r := range s.reqs {
				if r.open {
					open++
				}
			}
			if m := s.limit(); m >= 0 && open == 0 {
				fc := s.lim.GetOrDefault("s")
				n := 0
				for i := int32(0); i < m+2; i++ {
					if fc.TryAcquire() {
						n++
					}
				}
				for i := 0; i < n; i++ {
					fc.Release()
				}
				if n > int(m) {
					return fmt.Errorf("phantom-slot: all requests finished, limit %d, but %d new requests were admitted", m, n)
				}
				if n < int(m) {
					return fmt.Errorf("slot-leak: all requests finished, limit %d, but only %d new requests were admitted", m, n)
				}
			}
			return nil
		},
		Canon: func(si interface{}) string {
			s := si.(*sysB)
			var open []string
			for _, r := range s.reqs {
				if r.open {
					open = append(open, fmt.Sprintf("%d:%s", r.epoch-s.epoch, objKey(s, r.fc)))
				}
			}
			sort.Strings(open)
			// the limiter's own view: how many more requests it would admit right now (observed through the public
			// API and undone) - without it two histories with equal bookkeeping but different real counters merge
			free := 0
			if s.limit() >= 0 {
				fc := s.lim.GetOrDefault("s")
				for i := int32(0); i < s.limit()+2; i++ {
					if fc.TryAcquire() {
						free++
					}
				}
				for i := 0; i < free; i++ {
					fc.Release()
				}
			}
			return fmt.Sprint(s.cur, s.strat, s.other, s.global, open, free)
		},
		Close: func(si interface{}) {
			s := si.(*sysB)
			s.lim.Sync(spec())
			s.lim2.Sync(spec())
			s.cancel()
		},
	}
}

// objKey tells whether a request holds the wrapper that is current for schema s (the futures differ otherwise)
func objKey(s *sysB, fc flowcontrol.FlowControl) string {
	if fc == s.lim.GetOrDefault("s") {
		return "cur"
	}
	return "old"
}

func main() {
	c := ev.Start("C05", "model_checking")
	c.Assume = []string{
		"engine A: zoumo/golib lock/maxinflight/max_inflight.go (module cache), flowcontrol.go, flowcontrol_wrapper.go and limiter.go are instrumented; interleavings at statement / atomic-operation granularity under sequential consistency",
		"engines A and B: a request releases on the object it was handed by GetOrDefault, exactly once, as the dispatcher's `defer Release()` does; that the dispatcher really does so on every way a proxied request can end (success, upstream error / close / death mid-body, client abort, watch abort, no ready endpoint, all endpoints disabled, upgrade, refusal by the schema itself, connection refused) is enumerated over the real handler chain on loopback HTTP (exit_path_cases; free-running, wall-clock bounds of 20 s)",
		"a refusal while operations overlap or while requests of an earlier configuration are still in flight is not judged (the property bounds admissions from above and demands full capacity only once everything has finished)",
	}
	all := scenarios(true)
	if c.ReplayFile() != "" {
		var hs []xa.Harness
		for _, sc := range all {
			hs = append(hs, harnessA(c, sc, 0, 1))
		}
		xstate.ReplayIfAsked(c, []xstate.Spec{specB(), specBMode("remote")})
		xa.ReplayIfAsked(c, hs)
	}
	var tasks []ev.Task
	bounds := []int{0, 1, 2}
	if c.Thorough() {
		bounds = []int{0, 1, 2, 3}
	}
	for _, sc := range scenarios(c.Thorough()) {
		for _, b := range bounds {
			sh := 1
			if b >= 2 {
				sh = 4
			}
			if b >= 3 {
				sh = 12
			}
			tasks = append(tasks, xa.Tasks(c, harnessA(c, sc, b, sh))...)
		}
	}
	tasks = append(tasks, xstate.Tasks(c, specB(), c.Pick(7, 9), 9)...)
	tasks = append(tasks, xstate.Tasks(c, specBMode("remote"), c.Pick(6, 8), 9)...)
	// "however it ends": every way a proxied request can end, over the real handler chain (free-running, not scheduled)
	tasks = append(tasks, ev.Task{Name: "exit-paths", Run: func() { exitpaths.Run(c) }})
	c.RunTasks(tasks)
	c.Finish(map[string]interface{}{
		"states":                        c.Counter("states") + c.Counter("choice_points"),
		"transitions":                   c.Counter("transitions") + c.Counter("steps"),
		"traces_validated_against_impl": c.Counter("schedules") + c.Counter("replays"),
		"exit_path_cases":               c.Counter("exit_path_cases"),
		"explanation":                   "states/transitions of the reconfiguration-history search on the real upstreamLimiter (engine B) plus decision points/steps of the concurrent acquire/release/resize harnesses (engine A).",
	})
}
