// Package lin is a brute-force linearizability checker for the short histories
// (<= 8 operations) produced by the engine-A harnesses: it searches for a total
// order that respects real-time precedence and that a (possibly
// nondeterministic) sequential reference model accepts with the observed
// return values. It is the deciding oracle for "the history is explainable by
// a sequential execution"; porcupine is not needed at this size.
package lin

import "strconv"

// Op is one completed operation with logical call/return stamps.
type Op struct {
	Thread    int
	Call, Ret int
	In, Out   interface{}
}

// Model is a sequential specification. Step returns every state the model may
// be in after executing op from state s given that op returned op.Out; an
// empty result means the output is impossible there. States must be values
// with a canonical Key (used for memoisation).
type Model struct {
	Init func() interface{}
	Step func(s interface{}, op Op) []interface{}
	Key  func(s interface{}) string
}

// Check reports whether ops has a linearization; it returns one witness order.
func Check(m Model, ops []Op) (bool, []int) {
	n := len(ops)
	if n > 20 {
		panic("lin: history too long for brute force")
	}
	done := make([]bool, n)
	order := make([]int, 0, n)
	memo := map[string]bool{}
	var rec func(s interface{}, mask uint32) bool
	rec = func(s interface{}, mask uint32) bool {
		if len(order) == n {
			return true
		}
		k := strconv.Itoa(int(mask)) + "|" + m.Key(s)
		if memo[k] {
			return false
		}
		// candidates: not done, and no other pending op returned before its call
		for i := 0; i < n; i++ {
			if done[i] {
				continue
			}
			minimal := true
			for j := 0; j < n; j++ {
				if !done[j] && j != i && ops[j].Ret < ops[i].Call {
					minimal = false
					break
				}
			}
			if !minimal {
				continue
			}
			for _, ns := range m.Step(s, ops[i]) {
				done[i] = true
				order = append(order, i)
				if rec(ns, mask|1<<uint(i)) {
					return true
				}
				order = order[:len(order)-1]
				done[i] = false
			}
		}
		memo[k] = true
		return false
	}
	ok := rec(m.Init(), 0)
	return ok, append([]int{}, order...)
}

// Clock hands out logical stamps; harness threads run one at a time under the
// controlled scheduler, so no synchronisation is needed.
type Clock struct{ t int }

func (c *Clock) Tick() int { c.t++; return c.t }

// Recorder collects the operations of one execution.
type Recorder struct {
	Clock Clock
	Ops   []Op
}

// Do runs f as one recorded operation.
func (r *Recorder) Do(thread int, in interface{}, f func() interface{}) interface{} {
	call := r.Clock.Tick()
	out := f()
	ret := r.Clock.Tick()
	r.Ops = append(r.Ops, Op{Thread: thread, Call: call, Ret: ret, In: in, Out: out})
	return out
}
