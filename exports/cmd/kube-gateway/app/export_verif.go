//go:build verif
// +build verif

package app

import (
	"net/http"

	genericapiserver "k8s.io/apiserver/pkg/server"

	"github.com/kubewharf/kubegateway/pkg/clusters"
)

// VerifBuildProxyHandlerChain returns the proxy server's real handler chain builder for the given cluster manager.
func VerifBuildProxyHandlerChain(m clusters.Manager, enableAccessLog bool) func(apiHandler http.Handler, c *genericapiserver.Config) http.Handler {
	return buildProxyHandlerChainFunc(&proxyHandlerOptions{clusterManager: m, enableAccessLog: enableAccessLog})
}

// VerifBuildProxyHandlerChainWith is VerifBuildProxyHandlerChain with the observability options of the proxy server.
func VerifBuildProxyHandlerChainWith(m clusters.Manager, enableAccessLog, enableProxyTracing bool) func(apiHandler http.Handler, c *genericapiserver.Config) http.Handler {
	return buildProxyHandlerChainFunc(&proxyHandlerOptions{clusterManager: m, enableAccessLog: enableAccessLog, enableProxyTracing: enableProxyTracing})
}
