//go:build verif
// +build verif

package util

// VerifSetRate sets what the meter says it has measured (requests per second, averaged over its buckets). The
// meter runs on the real clock and a real one-second ticker; a harness that works on a virtual clock decides the
// measurement itself.
func VerifSetRate(m *Meter, r float64) {
	m.mu.Lock()
	m.rateAvg = r
	m.mu.Unlock()
}
