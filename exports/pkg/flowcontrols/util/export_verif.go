//go:build verif
// +build verif

package util

// VerifSetRate sets what the meter says it has measured (requests per second, averaged over its buckets). The
// meter runs on the real clock and a real one-second ticker; a harness that works on a virtual clock decides the
// measurement itself.
func VerifSetRate(m *Meter, r float64) {
	m.mu.Lock()
	m.rateAvg = r
	m.mu.Unlock()
}

// VerifSetMaxInflight sets the in-flight peak the meter says it has seen recently (same reason as VerifSetRate).
func VerifSetMaxInflight(m *Meter, n int32) {
	m.mu.Lock()
	m.inflightMax = n
	m.mu.Unlock()
}
