//go:build verif
// +build verif

package remote

import (
	"time"

	proxyv1alpha1 "github.com/kubewharf/kubegateway/pkg/apis/proxy/v1alpha1"
	"github.com/kubewharf/kubegateway/pkg/flowcontrols/util"
)

// VerifReconcileOnce runs one reconcile round (what the 2 s loop does).
func VerifReconcileOnce(r Reconcile) { r.(*reconcile).reconcile() }

// VerifNewAcquireResult builds the value the acquire worker hands to SetLimit.
func VerifNewAcquireResult(req *proxyv1alpha1.RateLimitAcquireRequest, result *proxyv1alpha1.RateLimitAcquireResult, requestTime int64) *AcquireResult {
	return &AcquireResult{request: req, result: result, requestTime: requestTime}
}

// VerifSetWaitAcquireTimeout shortens how long a request waits for the next acquire answer.
func VerifSetWaitAcquireTimeout(d time.Duration) { waitAcquireTimeout = d }

// VerifSetMeasuredRate sets the request rate the schema's meter reports (see util.VerifSetRate).
func VerifSetMeasuredRate(w RemoteFlowControlWrapper, r float64) {
	util.VerifSetRate(w.(*remoteWrapper).flowControlCache.meter, r)
}

// VerifSetMeasuredPeak sets the in-flight peak the schema's meter reports (see util.VerifSetMaxInflight).
func VerifSetMeasuredPeak(w RemoteFlowControlWrapper, n int32) {
	util.VerifSetMaxInflight(w.(*remoteWrapper).flowControlCache.meter, n)
}
