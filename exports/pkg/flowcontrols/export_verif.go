//go:build verif
// +build verif

package flowcontrols

import "github.com/kubewharf/kubegateway/pkg/flowcontrols/remote"

// VerifReconcile exposes the limiter's reconcile object.
func VerifReconcile(l UpstreamLimiter) remote.Reconcile { return l.(*upstreamLimiter).reconcile }
