//go:build verif
// +build verif

package elector

// Verification hooks: deliver the callbacks client-go's leader election would deliver.
func VerifStartLeading(l LeaderElector, shard int)         { l.(*leaderElector).startLeading(shard) }
func VerifStopLeading(l LeaderElector, shard int)          { l.(*leaderElector).stopLeading(shard) }
func VerifSetLeader(l LeaderElector, shard int, id string) { l.(*leaderElector).setLeader(shard, id) }
