//go:build verif
// +build verif

package controller

import "k8s.io/client-go/tools/cache"

// VerifIndexer returns the store behind the UpstreamCluster lister.
func VerifIndexer(c UpstreamController) cache.Indexer {
	return c.(*upstreamController).gatewayInformerFactory.Proxy().V1alpha1().UpstreamClusters().Informer().GetIndexer()
}
