//go:build verif
// +build verif

package limiter

import (
	"time"

	"k8s.io/client-go/kubernetes"

	proxyv1alpha1 "github.com/kubewharf/kubegateway/pkg/apis/proxy/v1alpha1"
	gatewayclientset "github.com/kubewharf/kubegateway/pkg/client/kubernetes"
	"github.com/kubewharf/kubegateway/pkg/ratelimiter/limiter/controller"
	"github.com/kubewharf/kubegateway/pkg/ratelimiter/limiter/elector"
	"github.com/kubewharf/kubegateway/pkg/ratelimiter/options"
	_interface "github.com/kubewharf/kubegateway/pkg/ratelimiter/store/interface"
)

// VerifHandle gives harnesses access to the unexported periodic passes and
// state of the concrete rateLimiter (forwarding only, no logic).
type VerifHandle struct{ r *rateLimiter }

func VerifNew(gatewayClient gatewayclientset.Interface, client kubernetes.Interface, opts options.RateLimitOptions) (*VerifHandle, RateLimiter, error) {
	l, err := NewRateLimiter(gatewayClient, client, opts)
	if err != nil {
		return nil, nil, err
	}
	return &VerifHandle{r: l.(*rateLimiter)}, l, nil
}

func (h *VerifHandle) Sync()                    { h.r.sync() }
func (h *VerifHandle) CleanupTimeoutClient()    { h.r.cleanupTimeoutClient() }
func (h *VerifHandle) CleanupUnknownCondition() { h.r.cleanupUnknownCondition() }
func (h *VerifHandle) LeaderCheck()             { h.r.leaderCheck() }
func (h *VerifHandle) SetHeartbeat(instance string, t time.Time) {
	h.r.clientCache.clientHeartbeats.Store(instance, t)
}
func (h *VerifHandle) Store(shard int) _interface.LimitStore { return h.r.getLimitStoreForShard(shard) }
func (h *VerifHandle) Elector() elector.LeaderElector        { return h.r.leaderElector }
func (h *VerifHandle) Controller() controller.UpstreamController {
	return h.r.upstreamController
}
func (h *VerifHandle) Handle(cluster *proxyv1alpha1.UpstreamCluster) error {
	return h.r.UpstreamConditionHandler(cluster)
}

// VerifCalculateNextQuota forwards to the allocator.
func VerifCalculateNextQuota(upstreamTotal proxyv1alpha1.RateLimitItemConfiguration, upstreamUsed proxyv1alpha1.RateLimitItemStatus,
	flowControlConfig proxyv1alpha1.RateLimitItemConfiguration, flowControlStatus proxyv1alpha1.RateLimitItemStatus,
	clientCount int, condition *proxyv1alpha1.RateLimitCondition) proxyv1alpha1.RateLimitItemConfiguration {
	return calculateNextQuota(upstreamTotal, upstreamUsed, flowControlConfig, flowControlStatus, clientCount, condition)
}
