//go:build verif
// +build verif

package limiter

import (
	"reflect"
	"time"
	"unsafe"

	"k8s.io/client-go/kubernetes"

	proxyv1alpha1 "github.com/kubewharf/kubegateway/pkg/apis/proxy/v1alpha1"
	gatewayclientset "github.com/kubewharf/kubegateway/pkg/client/kubernetes"
	"github.com/kubewharf/kubegateway/pkg/ratelimiter/limiter/controller"
	"github.com/kubewharf/kubegateway/pkg/ratelimiter/limiter/elector"
	"github.com/kubewharf/kubegateway/pkg/ratelimiter/options"
	_interface "github.com/kubewharf/kubegateway/pkg/ratelimiter/store/interface"
)

// VerifHandle gives harnesses access to the unexported periodic passes and
// state of the concrete rateLimiter (forwarding only, no logic).
type VerifHandle struct{ r *rateLimiter }

func VerifNew(gatewayClient gatewayclientset.Interface, client kubernetes.Interface, opts options.RateLimitOptions) (*VerifHandle, RateLimiter, error) {
	l, err := NewRateLimiter(gatewayClient, client, opts)
	if err != nil {
		return nil, nil, err
	}
	return &VerifHandle{r: l.(*rateLimiter)}, l, nil
}

func (h *VerifHandle) Sync()                    { h.r.sync() }
func (h *VerifHandle) CleanupTimeoutClient()    { h.r.cleanupTimeoutClient() }
func (h *VerifHandle) CleanupUnknownCondition() { h.r.cleanupUnknownCondition() }
func (h *VerifHandle) LeaderCheck()             { h.r.leaderCheck() }

// SetHeartbeat sets the time of an instance's last heartbeat as the client cache records it. By reflection (the
// field is found by name; a sync.Map-like value gets Store, a plain map[string]time.Time an assignment), so that a
// change of the field's type does not break the build of every check that uses the limiter rig; it panics with a
// clear message when the heartbeat record cannot be found at all.
func (h *VerifHandle) SetHeartbeat(instance string, t time.Time) {
	cc := reflect.ValueOf(h.r.clientCache)
	for cc.Kind() == reflect.Ptr || cc.Kind() == reflect.Interface {
		cc = cc.Elem()
	}
	f := cc.FieldByName("clientHeartbeats")
	if !f.IsValid() || !f.CanAddr() {
		panic("verif: the limiter's client cache has no addressable field clientHeartbeats any more: the harness cannot make an instance silent")
	}
	v := reflect.NewAt(f.Type(), unsafe.Pointer(f.UnsafeAddr()))
	if m, ok := v.Interface().(interface{ Store(key, value interface{}) }); ok {
		m.Store(instance, t)
		return
	}
	if m, ok := v.Interface().(*map[string]time.Time); ok {
		if *m == nil {
			*m = map[string]time.Time{}
		}
		(*m)[instance] = t
		return
	}
	panic("verif: clientHeartbeats is of type " + f.Type().String() + ": the harness does not know how to set a heartbeat time in it")
}
func (h *VerifHandle) Store(shard int) _interface.LimitStore { return h.r.getLimitStoreForShard(shard) }
func (h *VerifHandle) Elector() elector.LeaderElector        { return h.r.leaderElector }
func (h *VerifHandle) Controller() controller.UpstreamController {
	return h.r.upstreamController
}
func (h *VerifHandle) Handle(cluster *proxyv1alpha1.UpstreamCluster) error {
	return h.r.UpstreamConditionHandler(cluster)
}

// VerifCalculateNextQuota forwards to the allocator.
func VerifCalculateNextQuota(upstreamTotal proxyv1alpha1.RateLimitItemConfiguration, upstreamUsed proxyv1alpha1.RateLimitItemStatus,
	flowControlConfig proxyv1alpha1.RateLimitItemConfiguration, flowControlStatus proxyv1alpha1.RateLimitItemStatus,
	clientCount int, condition *proxyv1alpha1.RateLimitCondition) proxyv1alpha1.RateLimitItemConfiguration {
	return calculateNextQuota(upstreamTotal, upstreamUsed, flowControlConfig, flowControlStatus, clientCount, condition)
}
