//go:build verif
// +build verif

package clientsets

import "k8s.io/client-go/rest"

// VerifClientSets is a clientSets without its background loops; the harness
// calls the periodic functions itself.
type VerifClientSets struct{ c *clientSets }

func VerifNew(service, runID string, restConfig *rest.Config) (*VerifClientSets, ClientSets) {
	c := &clientSets{
		service:    service,
		lookupFunc: ServiceLookup,
		restConfig: restConfig,
		runId:      runID,
		insecure:   len(restConfig.TLSClientConfig.CAData) == 0,
	}
	return &VerifClientSets{c}, c
}

func (v *VerifClientSets) Sync()      { v.c.sync() }
func (v *VerifClientSets) Heartbeat() { v.c.clientHeart() }
func (v *VerifClientSets) SetLookup(f func(string) []string) { v.c.lookupFunc = f }
