//go:build verif
// +build verif

package clusters

import (
	"fmt"
	"reflect"
	"time"
)

// VerifCursor returns the round-robin cursor recorded for the given ordering
// of ready endpoints (verification hook: read-only).
func (c *ClusterInfo) VerifCursor(order []string) (uint64, bool) {
	eps := []*EndpointInfo{}
	for _, n := range order {
		e, ok := c.Endpoints.Load(n)
		if !ok {
			return 0, false
		}
		eps = append(eps, e)
	}
	v, ok := c.loadbalancer.Load(fmt.Sprintf("%v", eps))
	if !ok {
		return 0, false
	}
	return *(v.(*uint64)), true
}

// VerifSetHealthCheckInterval sets the probe interval used for endpoints added later.
func (c *ClusterInfo) VerifSetHealthCheckInterval(d time.Duration) { c.healthCheckInterval = d }

// VerifProbing reports whether a health-check loop is currently installed for the endpoint.
func (e *EndpointInfo) VerifProbing() bool {
	e.Lock()
	defer e.Unlock()
	return e.cancelHealthCheck != nil
}

// VerifPickerUpstreams returns the endpoints a matched policy may pick from and its strategy (read-only).
// It reads the picker by reflection so that a change of the field's representation (e.g. endpoint objects instead of
// names) changes what this hook can tell, not whether verification builds compile.
func VerifPickerUpstreams(p EndpointPicker) ([]string, string) {
	v := reflect.ValueOf(p)
	if v.Kind() != reflect.Ptr || v.IsNil() || v.Elem().Kind() != reflect.Struct {
		return nil, ""
	}
	strategy := ""
	if f := v.Elem().FieldByName("strategy"); f.IsValid() && f.Kind() == reflect.String {
		strategy = f.String()
	}
	f := v.Elem().FieldByName("upstreams")
	if !f.IsValid() || f.Kind() != reflect.Slice {
		return nil, strategy
	}
	var out []string
	for i := 0; i < f.Len(); i++ {
		e := f.Index(i)
		switch {
		case e.Kind() == reflect.String:
			out = append(out, e.String())
		case e.Kind() == reflect.Ptr && !e.IsNil() && e.Elem().Kind() == reflect.Struct:
			if n := e.Elem().FieldByName("Endpoint"); n.IsValid() && n.Kind() == reflect.String {
				out = append(out, n.String())
			}
		}
	}
	return out, strategy
}

// VerifSchemaConfigs renders, per flow-control schema the cluster's limiter knows, the strategy in force and the
// schema configuration its local limiter was last synced with (read-only).
func (c *ClusterInfo) VerifSchemaConfigs() map[string]string {
	out := map[string]string{}
	for name, fc := range c.flowcontrol.AllFlowControls() {
		cfg := fc.LocalFlowControl().Config()
		out[name] = fmt.Sprintf("strategy=%q config.strategy=%q config=%+v", fc.Strategy(), cfg.Strategy, describeSchema(cfg))
	}
	return out
}

func describeSchema(s interface{}) string {
	v := reflect.ValueOf(s)
	var parts []string
	if v.Kind() == reflect.Struct {
		if f := v.FieldByName("FlowControlSchemaConfiguration"); f.IsValid() {
			for i := 0; i < f.NumField(); i++ {
				if m := f.Field(i); m.Kind() == reflect.Ptr && !m.IsNil() {
					parts = append(parts, fmt.Sprintf("%s%+v", f.Type().Field(i).Name, m.Elem().Interface()))
				}
			}
		}
	}
	return fmt.Sprint(parts)
}
