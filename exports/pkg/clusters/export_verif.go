//go:build verif
// +build verif

package clusters

import (
	"fmt"
	"time"
)

// VerifCursor returns the round-robin cursor recorded for the given ordering
// of ready endpoints (verification hook: read-only).
func (c *ClusterInfo) VerifCursor(order []string) (uint64, bool) {
	eps := []*EndpointInfo{}
	for _, n := range order {
		e, ok := c.Endpoints.Load(n)
		if !ok {
			return 0, false
		}
		eps = append(eps, e)
	}
	v, ok := c.loadbalancer.Load(fmt.Sprintf("%v", eps))
	if !ok {
		return 0, false
	}
	return *(v.(*uint64)), true
}

// VerifSetHealthCheckInterval sets the probe interval used for endpoints added later.
func (c *ClusterInfo) VerifSetHealthCheckInterval(d time.Duration) { c.healthCheckInterval = d }

// VerifProbing reports whether a health-check loop is currently installed for the endpoint.
func (e *EndpointInfo) VerifProbing() bool {
	e.Lock()
	defer e.Unlock()
	return e.cancelHealthCheck != nil
}

// VerifPickerUpstreams returns the endpoints a matched policy may pick from and its strategy (read-only).
func VerifPickerUpstreams(p EndpointPicker) ([]string, string) {
	if s, ok := p.(*endpointPickStrategy); ok {
		return append([]string{}, s.upstreams...), string(s.strategy)
	}
	return nil, ""
}
