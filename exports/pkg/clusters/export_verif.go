//go:build verif
// +build verif

package clusters

import (
	"fmt"
	"reflect"
	"time"
)

// VerifCursor returns the round-robin cursor recorded for the given ordering
// of ready endpoints (verification hook: read-only).
func (c *ClusterInfo) VerifCursor(order []string) (uint64, bool) {
	eps := []*EndpointInfo{}
	for _, n := range order {
		e, ok := c.Endpoints.Load(n)
		if !ok {
			return 0, false
		}
		eps = append(eps, e)
	}
	v, ok := c.loadbalancer.Load(fmt.Sprintf("%v", eps))
	if !ok {
		return 0, false
	}
	return *(v.(*uint64)), true
}

// VerifSetHealthCheckInterval sets the probe interval used for endpoints added later.
func (c *ClusterInfo) VerifSetHealthCheckInterval(d time.Duration) { c.healthCheckInterval = d }

// VerifProbing reports whether a health-check loop is currently installed for the endpoint.
func (e *EndpointInfo) VerifProbing() bool {
	e.Lock()
	defer e.Unlock()
	return e.cancelHealthCheck != nil
}

// VerifPickerUpstreams returns the endpoints a matched policy may pick from and its strategy (read-only).
// It reads the picker by reflection so that a change of the field's representation (e.g. endpoint objects instead of
// names) changes what this hook can tell, not whether verification builds compile.
func VerifPickerUpstreams(p EndpointPicker) ([]string, string) {
	v := reflect.ValueOf(p)
	if v.Kind() != reflect.Ptr || v.IsNil() || v.Elem().Kind() != reflect.Struct {
		return nil, ""
	}
	strategy := ""
	if f := v.Elem().FieldByName("strategy"); f.IsValid() && f.Kind() == reflect.String {
		strategy = f.String()
	}
	f := v.Elem().FieldByName("upstreams")
	if !f.IsValid() || f.Kind() != reflect.Slice {
		return nil, strategy
	}
	var out []string
	for i := 0; i < f.Len(); i++ {
		e := f.Index(i)
		switch {
		case e.Kind() == reflect.String:
			out = append(out, e.String())
		case e.Kind() == reflect.Ptr && !e.IsNil() && e.Elem().Kind() == reflect.Struct:
			if n := e.Elem().FieldByName("Endpoint"); n.IsValid() && n.Kind() == reflect.String {
				out = append(out, n.String())
			}
		}
	}
	return out, strategy
}
