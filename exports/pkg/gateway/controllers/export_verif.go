//go:build verif
// +build verif

package controllers

import "github.com/kubewharf/kubegateway/pkg/syncqueue"

// VerifSync delivers one object to the controller's sync function (what its single worker does).
func (m *UpstreamClusterController) VerifSync(obj interface{}) (syncqueue.Result, error) {
	return m.syncUpstreamCluster(obj)
}
