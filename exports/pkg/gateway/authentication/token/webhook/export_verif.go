//go:build verif
// +build verif

package webhook

import "k8s.io/apiserver/pkg/authentication/authenticator"

// VerifCacheKeys lists the (cluster/host) keys that currently have a token cache (read only).
func VerifCacheKeys(a authenticator.Token) []string {
	var out []string
	a.(*multiClusterTokenReviewAuthenticator).caches.Range(func(k, _ interface{}) bool {
		out = append(out, k.(string))
		return true
	})
	return out
}
