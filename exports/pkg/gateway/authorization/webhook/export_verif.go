//go:build verif
// +build verif

package subjectaccessreview

import "k8s.io/apiserver/pkg/authorization/authorizer"

// VerifCacheKeys lists the (cluster/host) keys that currently have a decision cache (read only).
func VerifCacheKeys(a authorizer.Authorizer) []string {
	var out []string
	a.(*MultiClusterSubjectAccessReviewAuthorizer).caches.Range(func(k, _ interface{}) bool {
		out = append(out, k.(string))
		return true
	})
	return out
}
