//go:build verif
// +build verif

package subjectaccessreview

import (
	"reflect"
	"unsafe"

	"k8s.io/apiserver/pkg/authorization/authorizer"
)

// VerifCacheKeys lists the (cluster/host) keys that currently have a decision cache (read only). By reflection, so
// that a change of the field's type does not break the verification build: a caches field that is not a map with a
// Range method yields no keys.
func VerifCacheKeys(a authorizer.Authorizer) []string { return verifRangeKeys(a, "caches") }

func verifRangeKeys(holder interface{}, field string) (out []string) {
	defer func() { _ = recover() }()
	v := reflect.ValueOf(holder)
	if v.Kind() != reflect.Ptr || v.Elem().Kind() != reflect.Struct {
		return nil
	}
	f := v.Elem().FieldByName(field)
	if !f.IsValid() || !f.CanAddr() {
		return nil
	}
	m, ok := reflect.NewAt(f.Type(), unsafe.Pointer(f.UnsafeAddr())).Interface().(interface {
		Range(func(key, value interface{}) bool)
	})
	if !ok {
		return nil
	}
	m.Range(func(k, _ interface{}) bool {
		if s, ok := k.(string); ok {
			out = append(out, s)
		}
		return true
	})
	return out
}
