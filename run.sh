#!/bin/bash
# ./run.sh <Cxx> quick|thorough [--replay file]
# instrument -> build (against /repo's current working tree, hooks on: -tags verif -overlay) -> run -> evidence
set -u
. /verif/scripts/env.sh
id=$1; tier=${2:-quick}; shift; shift || true
dir=/verif/h/$(echo "$id" | tr 'A-Z' 'a-z')
[ -d "$dir" ] || { echo "no such check $id"; exit 2; }
OUT=${VERIF_OUT:-/verif}
work=$OUT/.work/$id
mkdir -p "$work" $OUT/.bin $OUT/evidence
/verif/scripts/genmod.sh || { echo "ENGINE-ERROR: go.mod generation failed"; exit 2; }
if [ ! -x /verif/.bin/vinstr ] || [ /verif/engine/vinstr/main.go -nt /verif/.bin/vinstr ]; then
  (cd /verif/engine/vinstr && go build -o /verif/.bin/vinstr .) || { echo "ENGINE-ERROR: vinstr build failed"; exit 2; }
fi
INSTR=(); NOSTMT=0; STMTFUNCS=""; EXTRA_REPLACE=()
[ -f "$dir/verif.conf" ] && . "$dir/verif.conf"
MODCACHE=$(go env GOMODCACHE)
args=(-work "$work" -repo "$REPO" -modcache "$MODCACHE")
[ "$NOSTMT" = 1 ] && args+=(-nostmt)
[ -n "${VERIF_PATCHED:-}" ] && args+=(-patched "$VERIF_PATCHED")
[ -n "$STMTFUNCS" ] && args+=(-stmtfuncs "$STMTFUNCS")
for f in "${INSTR[@]}"; do f=${f//@MODCACHE@/$MODCACHE}; args+=(-instr "$f"); done
for r in "${EXTRA_REPLACE[@]}"; do r=${r//@MODCACHE@/$MODCACHE}; args+=(-replace "$r"); done
/verif/.bin/vinstr "${args[@]}" || { echo "ENGINE-ERROR: instrumentation failed"; exit 2; }
bin=$OUT/.bin/$id
RACEFLAG=""
if [ "$tier" = race ]; then
  # informational pass (not a registered check): harness bodies free-running under the race detector; reports go to $OUT/race/
  export CGO_ENABLED=1; RACEFLAG="-race"; bin=$OUT/.bin/$id-race; mkdir -p $OUT/race; rm -f $OUT/race/$id.*
  export VERIF_RACE=1 GORACE="log_path=$OUT/race/$id halt_on_error=0" VERIF_OUT=${VERIF_OUT:-/var/tmp/scr}
fi
(cd /verif/h && go build $RACEFLAG -tags verif -overlay "$work/overlay.json" -o "$bin" ./$(basename $dir)) > "$work/build.log" 2>&1
if [ $? -ne 0 ]; then
  cat "$work/build.log" | tail -40
  echo "ENGINE-ERROR: build of $id against $REPO failed"
  exit 2
fi
[ "$tier" = build ] && exit 0
ulimit -v 40000000 2>/dev/null
cd /verif
hard=900; [ "$tier" = thorough ] && hard=5400
runtier=$tier; [ "$tier" = race ] && runtier=quick
timeout -k 10 ${VERIF_HARD_TIMEOUT:-$hard} "$bin" "$runtier" "$@"
rc=$?
if [ $rc -eq 124 ] || [ $rc -eq 137 ]; then echo "ENGINE-ERROR: $id exceeded the hard wall-clock limit of ${VERIF_HARD_TIMEOUT:-$hard}s and was stopped"; pkill -f "^$bin" 2>/dev/null; exit 2; fi
exit $rc
