#!/bin/bash
# runs the repository's pinned test suite with the verif guard OFF (no tags, no overlay) and
# compares the passing set with /root/.vp/BASELINE.json's stable_pass list
export GOFLAGS=-mod=mod GOPROXY=off GOSUMDB=off GOTOOLCHAIN=local
REPO=${VERIF_REPO:-/repo}
out=$(mktemp -d /verif/.work/baseline.XXXX)
for m in . ./staging/src/github.com/kubewharf/apiserver-runtime; do
  (cd $REPO/$m && go test -mod=mod -json -vet=off -count=1 -timeout 25m ./... ) >> $out/all.json 2>$out/err.log
done
python3 - "$out/all.json" <<'PY'
import json,sys
passed=set()
for l in open(sys.argv[1]):
    try: e=json.loads(l)
    except: continue
    if e.get('Action')=='pass' and e.get('Test'):
        passed.add(e['Package']+'::'+e['Test'])
base=json.load(open('/root/.vp/BASELINE.json'))['stable_pass']
missing=[t for t in base if t not in passed]
print("baseline tests passing: %d/%d"%(len(base)-len(missing),len(base)))
for t in missing: print("MISSING", t)
sys.exit(1 if missing else 0)
PY
rc=$?
rm -rf $out
exit $rc
