#!/bin/bash
# regenerate /verif/h/go.mod + go.sum from $REPO/go.mod (same build list, repo replaced by the working tree)
set -e
. /verif/scripts/env.sh
cd /verif/h
stamp=$( (cat $REPO/go.mod $REPO/go.sum; echo $REPO) | sha1sum | cut -d' ' -f1)
if [ -f go.mod ] && [ "$(cat .modstamp 2>/dev/null)" = "$stamp" ]; then exit 0; fi
sed -e 's#^module .*#module verifh#' -e "s#=> ./staging#=> $REPO/staging#" $REPO/go.mod > go.mod
cat >> go.mod <<EOT

require github.com/kubewharf/kubegateway v0.0.0

replace github.com/kubewharf/kubegateway => $REPO
EOT
cp $REPO/go.sum go.sum
echo "$stamp" > .modstamp
