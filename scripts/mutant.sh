#!/bin/bash
# scripts/mutant.sh <patch.diff> <Cxx> [<Cyy> ...] : apply a property-breaking change to /repo, run the quick checks, undo it.
# prints DETECTED/MISSED per check; exit 0 iff at least one check detected it.
patch=$(readlink -f "$1"); shift
cd /repo || exit 2
if [ -n "$(git status --porcelain)" ]; then echo "/repo not clean"; exit 2; fi
git apply "$patch" || { echo "patch does not apply: $patch"; exit 2; }
det=1
for id in "$@"; do
  out=$(cd /verif && ./run.sh $id ${MUT_TIER:-quick} 2>&1); rc=$?
  if [ $rc -eq 1 ] && echo "$out" | grep -q "^VIOLATION property=$id"; then
    echo "DETECTED $id $(echo "$out" | grep -m1 '^  ' | cut -c1-220)"; det=0
  else
    echo "MISSED $id rc=$rc $(echo "$out" | tail -2 | cut -c1-200 | tr '\n' ' ')"
  fi
done
git checkout -- . ; git clean -fdq -- pkg plugin cmd staging 2>/dev/null
exit $det
