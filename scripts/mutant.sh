#!/bin/bash
# scripts/mutant.sh <patch.diff> <Cxx> [<Cyy> ...] : run quick checks against /repo + a property-breaking change.
# Default mode leaves /repo untouched: the patched files are produced in a scratch directory and laid over /repo's
# paths by the same build overlay the checks already use (VERIF_PATCHED), outputs go to a scratch VERIF_OUT, so runs
# can go on in parallel and never overwrite committed evidence. MUT_INPLACE=1 applies the patch to /repo itself
# (git apply / run / git checkout), exactly as a user of the checks would meet it.
# prints DETECTED/MISSED per check; exit 0 iff at least one check detected it.
patch=$(readlink -f "$1"); shift
det=1
report() { # id rc out
  if [ "$2" -eq 1 ] && echo "$3" | grep -q "^VIOLATION property=$1"; then
    echo "DETECTED $1 $(echo "$3" | grep -m1 '^  ' | cut -c1-220)"; det=0
  else
    echo "MISSED $1 rc=$2 $(echo "$3" | tail -2 | cut -c1-200 | tr '\n' ' ')"
  fi
}
if [ "${MUT_INPLACE:-0}" = 1 ]; then
  cd /repo || exit 2
  if [ -n "$(git status --porcelain)" ]; then echo "/repo not clean"; exit 2; fi
  git apply "$patch" || { echo "patch does not apply: $patch"; exit 2; }
  for id in "$@"; do
    out=$(cd /verif && VERIF_OUT=$(mktemp -d /var/tmp/mutout.XXXX) ./run.sh $id ${MUT_TIER:-quick} 2>&1); rc=$?
    report $id $rc "$out"
  done
  git checkout -- . ; git clean -fdq -- pkg plugin cmd staging 2>/dev/null
  rm -rf /var/tmp/mutout.*
  exit $det
fi
scratch=$(mktemp -d /var/tmp/mut.XXXXXX)
mkdir -p $scratch/patched $scratch/out
for f in $(grep -E '^(\+\+\+|---) [ab]/' "$patch" | sed -E 's/^(\+\+\+|---) [ab]\///' | sort -u); do
  mkdir -p $scratch/patched/$(dirname $f)
  [ -f /repo/$f ] && git -C /repo show HEAD:$f > $scratch/patched/$f 2>/dev/null
done
(cd $scratch/patched && git apply --unsafe-paths "$patch" 2>$scratch/apply.err || patch -p1 -s < "$patch") || { echo "patch does not apply: $patch"; cat $scratch/apply.err; rm -rf $scratch; exit 2; }
for id in "$@"; do
  out=$(cd /verif && VERIF_PATCHED=$scratch/patched VERIF_OUT=$scratch/out ./run.sh $id ${MUT_TIER:-quick} 2>&1); rc=$?
  report $id $rc "$out"
done
rm -rf $scratch
exit $det
