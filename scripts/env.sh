# sourced by setup.sh / run.sh: offline Go environment for every build
export GOFLAGS=-mod=mod GOPROXY=off GOSUMDB=off GOTOOLCHAIN=local
export GODEBUG=goindex=0
export GOCACHE=/verif/.gocache
export CGO_ENABLED=0
VERIF=/verif
REPO=${VERIF_REPO:-/repo}
