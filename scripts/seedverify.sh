#!/bin/bash
# scripts/seedverify.sh <Cxxv> <pkgdir-for-demo> <go test run regex>  : confirm a seeded change in a scratch worktree
# (compiles, existing tests pass, demo fails with and passes without), then store it under /verif/seeded/<id>/
id=$1; pkg=$2; run=$3
export GOFLAGS=-mod=mod GOPROXY=off GOSUMDB=off GOTOOLCHAIN=local
src=/tmp/seed-out/$id; wt=/tmp/seedv-$id
git -C /repo worktree add --detach $wt HEAD >/dev/null 2>&1 || { echo "worktree failed"; exit 2; }
cd $wt
res() { echo "$1"; echo "$1" >> $src/verify.log; }
: > $src/verify.log
git apply $src/patch.diff || { res "APPLY-FAILED"; cd /; git -C /repo worktree remove --force $wt; exit 2; }
(go build ./... && go vet ./pkg/... >/dev/null 2>&1; true)
go build ./... 2>&1 | tail -3 && res "build: ok"
VERIF_REPO=$wt /verif/scripts/baseline.sh > $src/baseline.txt 2>&1; res "existing suite with change: $(head -1 $src/baseline.txt)"
cp $src/demo_test.go $pkg/zz_demo_seed_test.go
if (cd $(dirname $pkg/x) && go test -vet=off -count=1 -run "$run" . > $src/demo_with.txt 2>&1); then res "demo WITH change: pass (BAD)"; else res "demo WITH change: fail (expected)"; fi
git apply -R $src/patch.diff
if (cd $(dirname $pkg/x) && go test -vet=off -count=1 -run "$run" . > $src/demo_without.txt 2>&1); then res "demo WITHOUT change: pass (expected)"; else res "demo WITHOUT change: fail (BAD)"; fi
cd /; git -C /repo worktree remove --force $wt
