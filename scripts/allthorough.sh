#!/bin/bash
# runs every check's thorough tier sequentially with a per-check budget; log in .work/thorough.log
cd /verif
[ $# -eq 0 ] && : > .work/thorough.log
for c in ${@:-C20 C17 C16 C01 C02 C04 C15 C12 C09 C19 C18 C07 C13 C11 C10 C03 C06 C05 C08 C14}; do
  s=$(date +%s)
  out=$(VERIF_BUDGET_S=${BUDGET:-900} VERIF_HARD_TIMEOUT=1500 ./run.sh $c thorough 2>&1 | tail -3 | cut -c1-300)
  e=$(date +%s)
  echo "== $c $((e-s))s: $out" >> .work/thorough.log
  cp evidence/$c.json .work/thorough-$c.json 2>/dev/null
done
echo ALLDONE >> .work/thorough.log
