#!/usr/bin/env python3
# prints the prompt for a seeding sub-agent: property text only, nothing from /verif
import json,sys
pid=sys.argv[1]; variant=sys.argv[2] if len(sys.argv)>2 else "a"
for l in open('/verif/properties.jsonl'):
    p=json.loads(l)
    if p['id']==pid: break
import glob
used=[]
for d in sorted(glob.glob(f'/verif/seeded/{pid}*/meta.json')):
    used.append(json.load(open(d))['needs_to_manifest'])
avoid=""
if variant not in ("a","b") and used:
    avoid=" Earlier experiments already used the following ideas for this property; yours must be of a DIFFERENT kind, in a different function, and should target a clause of the property statement that these do not touch: " + " // ".join(f"({i+1}) {u}" for i,u in enumerate(used)) + "."
wt=f"/tmp/seed-{pid}{variant}"
out=f"/tmp/seed-out/{pid}{variant}"
print(f"""You are helping to evaluate a verification effort by seeding ONE realistic bug into a Go code base.

Code base: kubewharf/kubegateway (a Kubernetes apiserver L7 gateway with a sharded global rate-limiter server). You have your own scratch git worktree of it at {wt} (already created, detached HEAD). Work ONLY inside {wt} and {out}. Do NOT read, list or touch /verif or /repo (anything there would bias the experiment), and do not run git commands that affect other worktrees.

Property that your change must break (id {pid}: {p['title']}):

\"\"\"{p['statement']}\"\"\"

It is meant to hold {p['quantifier']['text']}.

Your task: make a small, realistic change to the non-test Go source in {wt} (the kind of mistake a maintainer could plausibly make in a refactor or optimisation) that BREAKS this property, while
  1. the repository still compiles, and
  2. the repository's existing test suite still passes, and
  3. the bug does NOT show up under ordinary simple use: it must need something specific to manifest - a particular interleaving of concurrent calls, a fault or crash at a particular point, a multi-step sequence of operations, an unusual input/configuration, or two cooperating code sites that each look fine alone. Avoid changes that every request / every call would expose at once. Prefer a change in a DIFFERENT spot or of a different nature than the most obvious one (variant "{variant}": if a, pick what you judge most realistic; if b, pick something subtle in state/cursor/ordering logic or in an error/cleanup path; if c or later, pick a clause of the property that is easy to overlook - a boundary value, an encoding or normalisation step, a rarely used option or field, an interaction between two features, a second code path that implements the same rule).{avoid}
Do not edit or delete existing tests, do not add build tags, keep the diff small (ideally < 25 changed lines), no comments announcing the bug.

Environment: the sandbox is offline. Before every go command: export GOFLAGS=-mod=mod GOPROXY=off GOSUMDB=off GOTOOLCHAIN=local . Default go is 1.23.5. The repo has two modules: {wt} and {wt}/staging/src/github.com/kubewharf/apiserver-runtime. Existing suite: (cd {wt} && go build ./... && go test -vet=off -count=1 ./...) and the same in the staging module (3 sub-tests of TestNewResourceREST_ToStorageMap in the staging module fail on the untouched tree too; ignore those). Put temporary files only under {wt} or {out}; set GOCACHE to the default.

Deliverables, all under {out}/ (create it):
  - patch.diff : output of `git -C {wt} diff` containing ONLY your bug-seeding change to non-test source files (must apply with `git apply` to a clean checkout of the same commit).
  - a demonstration that FAILS with your change and PASSES without it: either demo_test.go (a Go test file; say in NOTES which package directory it has to be copied into to run, and the exact go test command) or a small main program + command. The demonstration must drive the real code (exported or package-internal API), be deterministic (for interleaving bugs force the interleaving with hooks you add ONLY in the demo, e.g. by blocking a fake/stub in the middle of a call, or loop enough to make it reliable, and say so), and print/assert clearly what went wrong. The demo file itself must NOT be part of patch.diff.
  - NOTES.md : which file/function you changed and why it breaks the property; what exactly is needed for the bug to manifest (interleaving / fault point / sequence / input); the exact commands you ran and their results: (a) build+existing tests with the change (pass), (b) demo with the change (fail), (c) demo without the change, after reverting your change with `git apply -R` of your own patch (pass) - do NOT use `git stash`: the stash is shared between worktrees.
If, while reading the code, you notice behaviour of the UNTOUCHED tree that already seems to violate the property for some input, sequence or interleaving, describe it briefly under a heading 'Aside' in NOTES.md (what input, which function, why) - do not fix it and do not build your change on it. Verify all three yourself before finishing; leave {wt} with your change applied (uncommitted) at the end. Reply with a 5-line summary (changed file, what is needed to manifest, demo command).""")
