#!/bin/bash
# Informational race pass (not a registered check): for every check with engine-A harnesses, the harness bodies run
# free (real goroutines, no scheduler) 300 times each in a binary built with -race; reports whose racing accesses are
# both in repository / module code (not in the harness, whose own bookkeeping is deliberately unsynchronised because
# the cooperative scheduler serialises it) are summarised in /verif/RACES.md.
cd /verif
out=${VERIF_OUT:-/var/tmp/scr}
for c in ${@:-C03 C05 C06 C07 C08 C09 C12 C14 C18 C19}; do
  VERIF_OUT=$out VERIF_HARD_TIMEOUT=1500 ./run.sh $c race > $out/race-$c.log 2>&1
  echo "$c: $(tail -1 $out/race-$c.log | cut -c1-80) reports: $(cat $out/race/$c.* 2>/dev/null | grep -c 'WARNING: DATA RACE')"
done
python3 - "$out" <<'PY'
import sys,glob,re,collections
out=sys.argv[1]
seen=collections.OrderedDict()
for f in sorted(glob.glob(out+'/race/C*.*')):
    chk=f.split('/')[-1].split('.')[0]
    txt=open(f,errors='replace').read()
    for rep in txt.split('=================='):
        if 'WARNING: DATA RACE' not in rep: continue
        blocks=re.split(r'\n\n',rep.strip())
        tops=[]
        acc=[b for b in blocks if re.search(r'^(Read|Write|Previous read|Previous write|Atomic|Previous atomic)[^\n]* at 0x', b, re.M)]
        for b in acc[:2]:
            lines=b.split('\n')
            h=next(i for i,l in enumerate(lines) if ' at 0x' in l)
            lines=lines[h:]
            fr=[(lines[i].strip(),lines[i+1].strip()) for i in range(1,len(lines)-1,2) if lines[i].startswith('  ') and lines[i+1].startswith('      ')]
            # first frame outside the shims
            top=next(((fn,loc) for fn,loc in fr if '/zzverif/' not in loc and 'sync/atomic' not in fn), None)
            tops.append(top)
        if None in tops or len(tops)<2: continue
        if any('/verif/h/' in loc for fn,loc in tops): continue   # the harness's own variables
        key=tuple(sorted((fn,loc.split(' ')[0]) for fn,loc in tops))
        seen.setdefault(key,set()).add(chk)
with open('/verif/RACES.md','w') as w:
    w.write('# Informational race pass (scripts/racepass.sh)\n\nHarness bodies of the engine-A checks, free-running, 300 runs each, binaries built with `-race`. Listed: pairs of racing accesses that are both in repository / module code. The cooperative scheduler of engine A interleaves at sync operations (and at statements inside the functions named in each verif.conf); accesses listed here are unsynchronised, so interleavings *between* them at finer grain, and Go-memory-model effects, are outside what engine A explores.\n\n')
    if not seen: w.write('No race between two repository accesses was reported.\n')
    for k,v in seen.items():
        w.write('* %s\n  * `%s` %s\n  * `%s` %s\n' % (', '.join(sorted(v)), k[0][0], k[0][1].replace('/repo/',''), k[1][0], k[1][1].replace('/repo/','')))
print(open('/verif/RACES.md').read()[:3000])
PY
