#!/bin/bash
# scripts/seedstore.sh <Cxxv> <property> "<needs>" "<detected by>" : keep a confirmed seeded change under /verif/seeded/<id>/
id=$1; prop=$2; needs=$3; det=$4
d=/verif/seeded/$id; mkdir -p $d
cp /tmp/seed-out/$id/patch.diff $d/; cp /tmp/seed-out/$id/demo_test.go $d/ 2>/dev/null; cp /tmp/seed-out/$id/NOTES.md $d/ 2>/dev/null
python3 - "$id" "$prop" "$needs" "$det" <<'PY'
import json,sys
id,prop,needs,det=sys.argv[1:5]
ver=open('/tmp/seed-out/%s/verify.log'%id).read().strip().split('\n')
json.dump({"id":id,"breaks_property":prop,"needs_to_manifest":needs,"base_commit":__import__('subprocess').run(['git','-C','/repo','log','--format=%h','-1'],capture_output=True,text=True).stdout.strip(),
 "confirmed_by_me":ver,"what_i_ran":"scripts/seedverify.sh (scratch worktree: git apply, go build ./..., scripts/baseline.sh, demo with and without the change) then scripts/mutant.sh <patch> <checks> against /repo","detected_by":det,"author":"independent sub-agent given only the property text"},
 open('/verif/seeded/%s/meta.json'%id,'w'),indent=1)
PY
echo stored $d
