# table of claimed checks -> MANIFEST.json (python3 scripts/checks.py)
import json
ALL = ["C%02d" % i for i in range(1, 21)]
CHECKS = {
 "C01": dict(cat="exploration", engine="enum",
   technique="bounded-exhaustive enumeration of rule lists x request attributes on the real matcher, compared with a reference matcher (small-scope model checking of a pure function)",
   text="Every list of up to 3 (thorough 4) entries per rule field over a token alphabet covering '*', positive, inverted, glob and '*/sub' entries is evaluated against every request value of that field, every pair of fields is evaluated jointly, and every ordered list of up to 3 (thorough 5) policies is evaluated through MatchPolicies and ClusterInfo.MatchAttributes; each verdict is compared with an independent reference implementation of the documented semantics. Complete for the stated alphabets and bounds, silent about entries outside them.",
   ref="DESIGN.md §6 C01",
   note="Trusted: the reference matcher in h/c01 (the statement read literally), the token alphabets; lists the documentation leaves undefined (all-inverted nonResourceURLs, inverted serviceAccounts, '-*', several trailing '*') are only run for totality."),
 "C08": dict(cat="model_checking", engine="vsched+xstate+enum",
   technique="stateless model checking of the real SetState under a controlled scheduler (all interleavings up to a preemption bound, linearizability oracle) + explicit-state BFS of report/remove/resize sequences against a sequential model + exhaustive ask/advance sequences of the real token bucket on a virtual clock",
   text="Engine A explores every interleaving (preemption bound 2 quick, 4 thorough) of 9 scenarios of 2-3 threads racing reports, removals and resizes on the real globalMaxInflight (instrumented at statement granularity); each execution must leave total == sum of instance counts, no negative count, sum <= limit, and a call/return history that some sequential order of a reference model explains (brute-force linearizability, spurious refusal of increases allowed). Engine B applies every sequence of reports (fresh/same/older/no id, 5 values), removals and resizes by BFS to depth 5 (7) and compares every answer and the recorded state with the deterministic model. Engine C drives the real token bucket with every ask/advance sequence up to length 5 (6) on a virtual clock and checks every window against burst+qps*T.",
   ref="DESIGN.md §6 C08",
   note="Trusted: vinstr's rewrite and the shim semantics (sequential consistency, statement granularity), the sequential model in h/c08, the virtual clock seam (time.Now in tokenbucket.go -> vtime). The accept flag at/above the limit is not judged (statement leaves it open)."),
 "C20": dict(cat="exploration", engine="enum",
   technique="exhaustive product enumeration of (stored, submitted) field differences through the real registry entry points (rest.BeforeCreate/BeforeUpdate with the registered strategies) with a by-value reference for status/spec/labels/generation",
   text="The complete product of 2^7 difference subsets (labels, annotations, spec scalar, nested spec element, status, submitted generation, finalizers) x old generation {0,1,7} x 3 kind/strategy configurations is pushed through main update, status update and create as the generic registry does; after each call spec/labels (status update), status (main update), cleared status and generation 1 (create) and 'generation +1 iff spec or annotations differ by value' are checked. Exhaustive for this alphabet; other field shapes are outside it.",
   ref="DESIGN.md §6 C20",
   note="Trusted: rest.BeforeUpdate/BeforeCreate of the vendored apiserver as the entry point (no etcd), the strategy wiring copied from rest.go (a change of the registered strategy objects there is picked up, a change of the wiring in registry/rest.go's statusStore is not)."),
 "C17": dict(cat="exploration", engine="enum",
   technique="bounded-exhaustive enumeration of rule lists through the real admission plugin with a differential oracle on the real matcher (submitted vs stored rule, every request value)",
   text="Every list of up to 4 (thorough 5) entries per rule field (C01 alphabet plus the empty string and duplicates, near-miss request values included) and every pair of fields (lists up to 2/3) goes through the real plugin's Admit(); for every request value of the field(s) clusters.RuleMatches must give the same verdict for the submitted and the stored rule; Admit(Admit(x)) must equal Admit(x) and nothing outside the rules may change except defaulting. Differential, so independent of the meaning of the matcher.",
   ref="DESIGN.md §6 C17",
   note="Trusted: admission.NewAttributesRecord/ObjectInterfacesFromScheme stand in for the API server's admission chain; token and request alphabets of h/rulekit."),
 "C14": dict(cat="model_checking", engine="vsched+xstate",
   technique="stateless model checking of concurrent Pop() calls on the instrumented ClusterInfo (preemption-bounded DFS) + explicit-state BFS of pick/readiness-flip histories with the map iteration order as an enumerated choice",
   text="Engine B: on a real ClusterInfo with an explicit upstream subset, every history of picks and readiness flips (k=2,3,4; depth 9/9/8, thorough 12/12/11) must be strictly balanced in every window of every stable segment; without a subset, every pick chooses one of the k! iteration orders of the endpoint map (Go leaves the order unspecified) and the BFS runs over canonical (count differences, real cursors mod k) states to depth 40 (k=2) / 14 (k=3) with the deviation bound k!. Engine A: 2-3 concurrent pickers x 1-2 picks (thorough up to 3x2, bound 3) over k=2,3 endpoints incl. one unready, every interleaving up to 2 preemptions, statement-level points in Pop: the N picks must be distributed floor/ceil and never hit an unready endpoint.",
   ref="DESIGN.md §6 C14",
   note="Trusted: shim semantics of sync.Map/atomic (sequential consistency), add-only read hook VerifCursor, set-up outside the scheduler (vsched.Passthrough). Statement-level points only in Pop and syncEndpoints; elsewhere sync operations are the points."),
 "C13": dict(cat="model_checking", engine="xstate+enum",
   technique="explicit-state BFS over leadership-callback histories on the real rateLimiter+leaderElector (local and API-backed store) + exhaustive (name, shard count) enumeration through the real gateway-side clientSets and limiter server with live shard-count changes",
   text="Engine B: every history (depth 10 local store / 9 k8s store; thorough 14/12 or fixpoint) of gain / lose / other-leader / leaderCheck / report / acquire / cluster update / cluster delete / cleanup over 2 shards with one upstream each is applied to the real server; an operation may succeed or change any store only under leadership of the upstream's shard, a refusal must name the leader and leave the dump of all stores unchanged, a lost or handed-over shard has no store afterwards and a regained one starts without earlier instance state. Engine C: every byte string of length <= 2 over a 24-byte alphabet plus 2 000 (thorough 100 000) realistic names x N in 1..17, 31..33, 64, 1000, 65536, 2^31-1: range, determinism, gateway == server (the server's request paths are checked to use the same mapping under N in {1,2,3,5}), and requests issued through ClientFor arrive at the stub that leads the shard - also after the advertised shard count changes on a live clientSets.",
   ref="DESIGN.md §6 C13",
   note="Trusted: callback orders of client-go v0.18 leader election as modelled in h/c13 (stated in the evidence), fake clientsets as API server, loopback stubs as limiter servers, add-only hooks (VerifNew without timer loops, elector callbacks, lister indexer)."),
 "C07": dict(cat="model_checking", engine="xstate+vsched+enum",
   technique="explicit-state BFS over honest report / limit-change / forget-and-return histories on the real rateLimiter + stateless model checking of overlapping reports and limit changes (preemption-bounded) + full-product enumeration of the allocator arithmetic",
   text="Engine C: calculateNextQuota over the full product of a numeric grid built from its branch boundaries (14 limits up to 2^31-1, recorded sums from 0 to 8x the limit, honest previous quotas, usage, instance and upstream request levels, client counts, global bursts): 1 <= quota <= limit, no over-commit from a sum within the limit (quota 1 aside), no growth above the limit, burst scaled and <= global burst. Engine B: every history to depth 5 (thorough 7) of reports at four load levels by 2-3 honest instances, limit lowered/restored, and instances forgotten by the cleanup passes and returning with their old quota, for max-in-flight and token-bucket schemas with limits 10 and 100; after every report the answered quota, the recorded sum (store and .state condition) and the no-growth rule are checked. Engine A: two/three overlapping loaded reports near the limit and reports racing a limit change, on the local and the API-backed store, all interleavings up to 2 preemptions (thorough 3).",
   ref="DESIGN.md §6 C07",
   note="Trusted: honest-instance model in h/c07, limiter rig (leader election callbacks delivered directly, fake clientsets), shim semantics; statement-level schedule points in UpdateRateLimitConditionStatus, UpstreamConditionHandler and calculateUpstreamCondition only."),
 "C18": dict(cat="model_checking", engine="xstate+vsched",
   technique="explicit-state BFS over join/report/acquire/silence/new-identity/cleanup histories on the real rateLimiter with virtual liveness + stateless model checking of the cleanup goroutine racing requests of live and dying instances",
   text="Engine B: every history to depth 6 (k=2 instances; thorough 8) / 5 (k=3; thorough 6) of heartbeat, report (global-allocate schema), acquire (global-count schema), silence, restart with a new identity and the two periodic cleanup passes (singly and together): after both passes nothing of a silent instance is on record (no condition, no counted in-flight, running total == sum == in-flight of live instances) and no pass changes what is recorded for an instance with a fresh heartbeat. Engine A: cleanupTimeoutClient and its goroutine racing a report/acquire of a live instance and a last request of the dying one, every interleaving up to 2 (thorough 3) preemptions, followed by the next periodic passes.",
   ref="DESIGN.md §6 C18",
   note="Trusted: virtual clock (time.Now in ratelimter.go/clientcache.go -> vtime; a silent instance's heartbeat is set back one hour), limiter rig, shim semantics at sync-operation granularity, sync.Map.Range order pinned to sorted keys under the scheduler."),
 "C19": dict(cat="fault_enumeration", engine="enum+vsched",
   technique="exhaustive enumeration of operation sequences x single API fault (kind x call index) x crash point on the real API-backed store with a reference model of acknowledged operations + stateless model checking of a flush racing delete/save",
   text="Every sequence of up to 5 (thorough 6) operations over {Save c1=1, Save c1=2, Save c2, Save of a foreign-shard condition, Delete, DeleteUpstream, Flush, Stop} runs on the real objectStore in write-through and in periodic mode over a fake API pre-loaded with a condition of the own and one of the foreign shard; each sequence is run fault-free, with every (API call index x {NotFound, Conflict, AlreadyExists, ServerTimeout}) and with a crash before every API call. After every run a new store loads the shard: it must hold exactly the persisted conditions of the shard, every acknowledged write-through save, nothing acknowledged as deleted, and foreign objects must be untouched; Flush/Stop returning nil must have persisted every acknowledged condition. Engine A explores Flush racing Delete / DeleteUpstream / Save (every API call and statement a schedule point, up to 2/3 preemptions).",
   ref="DESIGN.md §6 C19",
   note="Trusted: the fake clientset's tracker as durable state with the two stated corrections towards real-API behaviour; state-consistent fault model; apimachinery's back-off sleeps run on the virtual clock; the store's timer loop is not started (flushes are triggered through Flush/Stop)."),
 "C05": dict(cat="model_checking", engine="vsched+xstate",
   technique="stateless model checking of concurrent TryAcquire/Release/resize on the real local limiter stack incl. the instrumented third-party atomic bucket (preemption-bounded DFS, linearizability oracle, quiescence probe) + explicit-state BFS of reconfiguration histories",
   text="Engine A: 7 (thorough 9) scenarios of 2-3 threads doing acquire/release/resize through upstreamLimiter.GetOrDefault on limits 1 and 2 (resizes 2->1, 1->2, 1->0, full bucket), every interleaving up to 2 (thorough 3) preemptions at statement/atomic-operation granularity: the call/return history must be explainable by a counter with limit (a refusal is always allowed, an acquire overlapping a resize may use either limit), and once everything has finished exactly M new requests are admitted (no leak, no phantom slot). Engine B: every history to depth 7 (thorough 9) of acquire, release (on the object the request was handed), Sync to {max 1, max 2, max 0, token bucket, exempt, schema absent}, adding/removing a second schema, exhausting the second schema or the same schema of another cluster: never more than M admitted-since-the-schema-became-max-in-flight unfinished, full capacity once all finished, no cross-schema or cross-cluster rejection. The canonical state includes the limiter's observed free capacity.",
   ref="DESIGN.md §6 C05",
   note="Trusted: shim semantics; instrumented copy of zoumo/golib max_inflight.go from the module cache; the ways a proxied request ends (upstream error, abort, panic) are exercised over the real handler chain by C04/C15, not here."),
 "C06": dict(cat="model_checking", engine="enum+vsched",
   technique="exhaustive enumeration of arrival/clock/reconfiguration step sequences through the real limiter on a driver-owned virtual clock (every window checked against burst+qps*T and the idle-refill lower bound) + stateless model checking of concurrent acquirers and a racing reconfiguration at a frozen clock",
   text="Every sequence of up to 5 (thorough 7) steps over {acquire, advance 125 ms / 500 ms / 1 s / 10 s, Sync with the same schema, Sync with only another schema changed, reconfigure burst only (up, down), qps only, both} from 5 start configurations runs through upstreamLimiter.GetOrDefault().TryAcquire() with client-go's clock redirected to a virtual clock; in every stable segment every pair of admitted calls satisfies count <= burst + qps*T and every run of calls after an idle gap admits at least min(run, burst, floor(qps*gap)). Engine A: 2-3 threads x 2 acquires at a frozen clock on a full bucket (admitted == min(calls, burst)) and acquirers racing a reconfiguration (calls starting after it returned obey the new burst), all interleavings up to 2 (thorough 3) preemptions.",
   ref="DESIGN.md §6 C06",
   note="Trusted: instrumented copy of client-go util/flowcontrol/throttle.go (clock seam only), golang.org/x/time/rate as is, exact float arithmetic for the chosen values; 429 answers for rejected calls are checked over the handler chain in C04."),
 "C10": dict(cat="model_checking", engine="xstate",
   technique="explicit-state BFS over create/update/delete/redelivery histories of overlapping clusters on the real UpstreamClusterController and clusters.Manager, hosts resolved through the real request filter and TLS callbacks after every event",
   text="Every history to depth 6 (thorough 8) over 11 object versions of three clusters (names and server-name lists that overlap, collide, change case, move between clusters, an object whose own name is another cluster's server name), deletions, and redelivery of any object whose attempt asked for a requeue; after every event 12 probe hosts (upper/lower case, with ports, unclaimed) are resolved through ExtraRequestInfoFactory + WithUpstreamInfo and through WrapGetConfigForClient / SNIVerifyOptions: a host never resolves to a cluster that does not claim it, an event on one cluster never changes the resolution (or stops the context) of a name resolving to another, names of a deleted cluster stop resolving and its context is cancelled, while no delivery was refused exactly the claimed names resolve (iff), and serving certificate, client-CA pool and verify options are those of the resolved cluster (base configuration otherwise).",
   ref="DESIGN.md §6 C10",
   note="Trusted: the harness as informer + single worker (lister store edited directly, add-only VerifSync hook), fake clientset, generated ECDSA test certificates; the TLS handshake itself is not performed."),
 "C11": dict(cat="model_checking", engine="xstate",
   technique="explicit-state BFS over object-version / delivery histories on the real controller with a differential oracle (gateway that saw the whole history vs fresh gateway given only the latest objects), delivery model bound to the real SyncQueue by a conformance run",
   text="Histories are built from events that set one dimension of cluster a's object (4 server lists incl. a disabled endpoint, 5 policy lists, 6 flow-control sections, 7 annotation/feature-gate values incl. nil map, 3 logging modes, 5 TLS sections, 3 server-name lists), resync deliveries of an equal object, deletion and re-creation, a second cluster that takes or frees a contested server name, and redelivery of requeued (possibly superseded) objects at any later point. Searched: all dimensions together to depth 3 (thorough 4), each dimension alone to depth 4 (5), requeue-centred and coupled-dimension subspaces to depth 5 (6). In every quiescent state the fingerprint of both clusters (endpoints, disabled flags, probing, routing of 4 probe requests with flow-control identity and logging, every schema's configuration and admitted burst, the four feature gates, server names, TLS certificate / client CA / verify options, host resolution) must equal that of a fresh controller given only the latest objects.",
   ref="DESIGN.md §6 C11",
   note="Trusted: harness as informer + single worker; only versions accepted by ValidateUpstreamCluster + the feature-gate check take part; the conformance run of pkg/syncqueue (recorded in the evidence) showed unbounded redelivery of the same object; endpoint health and token-bucket fill level are not compared."),
 "C16": dict(cat="exploration", engine="enum",
   technique="bounded-exhaustive enumeration of UpstreamCluster objects (each section's boundary values around a valid base, products over coupled sections) through the real validator and admission plugin, with accept => apply-everywhere soundness checks on the real gateway and limiter server",
   text="About 21 000 (thorough more) objects: every value of each section's alphabet (names, 13 server lists incl. unparseable URLs, client config incl. half/garbage/mismatched key pairs, CA data and 64 qps/burst/divisor triples, secure serving, every combination of the five flow-control members x 5 strategies, 288 policies, logging, feature-gate annotations) around a valid base plus products over servers x clientConfig, servers x policies, flowControl x policies. ValidateUpstreamCluster and the plugin's Validate must return without panic; every accepted object must be applied without error or panic by CreateClusterInfo, a second Sync, the controller's create and update path, a probe on each schema, and on the limiter server by the cluster handler, a report and an acquire; objects of the classes the property lists must be rejected.",
   ref="DESIGN.md §6 C16",
   note="Trusted: the value alphabets (boundary values of the validation clauses), fake clientsets; the gateway-side remote flow-control path for accepted global schemas is exercised in C09's rig."),
}
def manifest():
    checks = []
    for pid in ALL:
        if pid not in CHECKS: continue
        c = CHECKS[pid]
        checks.append({
          "property_id": pid,
          "quick_cmd": "./run.sh %s quick" % pid,
          "thorough_cmd": "./run.sh %s thorough" % pid,
          "evidence_file": "/verif/evidence/%s.json" % pid,
          "replay_cmd_template": "./run.sh %s quick --replay {path}" % pid,
          "engine": c["engine"],
          "level_claimed": {"category": c["cat"], "text": c["text"], "design_ref": c["ref"]},
          "level_note": c["note"],
          "technique": c["technique"],
        })
    na = [{"property_id": p, "reason": "check under construction in this session; not claimed until its harness is committed (see DESIGN.md §6)"} for p in ALL if p not in CHECKS]
    return {
      "version": 1,
      "setup_cmd": "./setup.sh",
      "hooks": {
        "guard": "verif",
        "enable": "go build -tags verif -overlay /verif/.work/<id>/overlay.json (generated by /verif/.bin/vinstr on every run: instrumented copies of the listed source files, virtual packages pkg/zzverif/*, add-only export files from /verif/exports); nothing is committed to /repo for hooks",
        "baseline_off_cmd": "/verif/scripts/baseline.sh",
        "source_commits": [],
        "add_only": True
      },
      "engines": [
        {"name": "vsched", "path": "/verif/engine/zzverif/vsched", "serves_properties": [p for p in ALL if p in CHECKS and "vsched" in CHECKS[p]["engine"]], "kind_free_text": "controlled cooperative scheduler + preemption-bounded depth-first exploration of the real (instrumented) code"},
        {"name": "xstate", "path": "/verif/h/xstate", "serves_properties": [p for p in ALL if p in CHECKS and "xstate" in CHECKS[p]["engine"]], "kind_free_text": "explicit-state breadth-first search; a state is the event history replayed on fresh real objects, de-duplicated by a canonical dump"},
        {"name": "enum", "path": "/verif/h/ev", "serves_properties": [p for p in ALL if p in CHECKS and "enum" in CHECKS[p]["engine"]], "kind_free_text": "bounded-exhaustive product / fault-position / crash-point enumeration over the real code with reference oracles"},
      ],
      "checks": checks,
      "not_applicable": na,
      "notes": "All checks drive the real kubegateway code built from /repo's working tree; see DESIGN.md. known_findings.json lists recorded findings and fixed defects."
    }
if __name__ == "__main__":
    json.dump(manifest(), open("/verif/MANIFEST.json", "w"), indent=1)
    print("claimed:", sorted(CHECKS))
