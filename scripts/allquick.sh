#!/bin/bash
# runs every check's quick tier (as registered in MANIFEST.json) sequentially; log in .work/quick.log; exit 1 if any is not OK
cd /verif
[ -n "$(git -C /repo status --porcelain)" ] && { echo "/repo working tree is not clean"; exit 2; }
: > .work/quick.log
bad=0
for c in ${@:-C01 C02 C03 C04 C05 C06 C07 C08 C09 C10 C11 C12 C13 C14 C15 C16 C17 C18 C19 C20}; do
  s=$(date +%s)
  out=$(./run.sh $c quick 2>&1 | tail -2 | cut -c1-300); rc=${PIPESTATUS[0]}
  e=$(date +%s)
  echo "== $c $((e-s))s: $out" | tee -a .work/quick.log
  echo "$out" | grep -q "^OK property=$c" || bad=1
done
exit $bad
