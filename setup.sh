#!/bin/bash
# run once after a fresh restore, offline: build the instrumenter, generate the harness go.mod, warm the build cache
set -e
. /verif/scripts/env.sh
mkdir -p /verif/.bin /verif/.work /verif/evidence
(cd /verif/engine/vinstr && go build -o /verif/.bin/vinstr .)
/verif/scripts/genmod.sh
# warm the cache: build every check binary once (failures here are reported by the checks themselves)
for d in /verif/h/c[0-9][0-9]; do
  [ -d "$d" ] || continue
  id=$(basename $d | tr 'a-z' 'A-Z')
  /verif/run.sh $id build >/dev/null 2>&1 &
  while [ $(jobs -r | wc -l) -ge 4 ]; do sleep 0.5; done
done
wait
echo setup done
